"""C10 - Hungarian assignment is a matching of optimal total cost (bounded back end).

Contract, taken from the property statement, evaluated on the real `solvor.hungarian.solve_hungarian` and
`solvor.utils.helpers.assignment_cost` in exact arithmetic:

  solve_hungarian(M, minimize=b) returns a Result whose
    solution  is a list with one entry per row, each -1 or a column index             ensures:assignment-shape
    exactly min(rows, cols) entries are != -1                                          ensures:pair-count
    no column index occurs twice                                                        ensures:columns-distinct
    objective == sum of M[i][solution[i]] over the assigned rows (exactly)              ensures:objective-is-sum
    that sum == min (b) / max (not b) over ALL matchings of M (exact oracle)            ensures:optimal-min / -max
    and the call comes back without an exception                                        ensures:returns
  assignment_cost(M, a) == sum of M[i][a[i]] over the in-range entries of a            assignment_cost/ensures:*

The answer to a call must not depend on earlier calls.  Therefore every unit of work is a *stream*: a list of
calls that is executed in order inside ONE freshly forked process whose solvor modules have never been used, and
every answer of the stream is checked.  Streams mix shapes that share the same padded size max(rows, cols),
alternate minimise / maximise, repeat matrices, reuse one caller-side buffer object, and walk through many sizes.
A violation is shrunk (call alone -> one predecessor + call -> whole prefix), each candidate again in a fresh
process, so that the recorded case replays deterministically.
"""
from __future__ import annotations

import hashlib
import itertools
import math
import os
import pickle
import random
import signal
import traceback

from vf.core import Ctx, use_repo

LEVEL = "exploration"
PID = "C10"
CALL_TIMEOUT_S = 20

V5 = [-2, -1, 0, 1, 2]
V3 = [-1, 0, 1]
VB = [0, 1]
VQ = [0, 1, 3]
VD = [-1.5, -0.25, 0.25, 0.5, 2.5]  # dyadic rationals, disjoint from V5
VD4 = [-1.5, -0.25, 0.5, 2.5]
VP = [-1, 0, 2]

O_RET = "C10/solve_hungarian/ensures:returns"
O_SHAPE = "C10/solve_hungarian/ensures:assignment-shape"
O_COUNT = "C10/solve_hungarian/ensures:pair-count"
O_DIST = "C10/solve_hungarian/ensures:columns-distinct"
O_OBJ = "C10/solve_hungarian/ensures:objective-is-sum"
O_MIN = "C10/solve_hungarian/ensures:optimal-min"
O_MAX = "C10/solve_hungarian/ensures:optimal-max"
O_EMPTY = "C10/solve_hungarian/ensures:empty-matrix"
O_AC_SOL = "C10/assignment_cost/ensures:sum-of-chosen"
O_AC_ANY = "C10/assignment_cost/ensures:sum-of-in-range"


class _Timeout(Exception):
    pass


def _on_alarm(signum, frame):
    raise _Timeout()


# ====================================================================== contract
def _is_index(x):
    return isinstance(x, int) and not isinstance(x, bool)


def evaluate_solve(K, den, mode, res, lo, hi):
    """Contract of one solve_hungarian call. K/den: exact matrix; res: the Result. -> [(obligation, detail)], chosen"""
    from oracles.assignment import exact_number
    rows, cols = len(K), len(K[0])
    bad = []
    sol = getattr(res, "solution", None)
    if not isinstance(sol, (list, tuple)) or len(sol) != rows or not all(_is_index(x) for x in sol):
        return [(O_SHAPE, f"solution {sol!r} is not a list of {rows} ints")], None
    if any(not (x == -1 or 0 <= x < cols) for x in sol):
        return [(O_SHAPE, f"solution {list(sol)} has an entry outside {{-1}} u [0,{cols})")], None
    used = [x for x in sol if x != -1]
    valid = True
    if len(used) != min(rows, cols):
        bad.append((O_COUNT, f"{len(used)} pairs assigned, expected min({rows},{cols}); solution {list(sol)}"))
        valid = False
    if len(set(used)) != len(used):
        bad.append((O_DIST, f"a column is used twice: {list(sol)}"))
        valid = False
    chosen = sum(K[i][x] for i, x in enumerate(sol) if x != -1)
    obj = exact_number(getattr(res, "objective", None), den)
    if obj is None or obj != chosen:
        bad.append((O_OBJ, f"objective {getattr(res, 'objective', None)!r} but the chosen entries of {list(sol)} sum to "
                           f"{_show(chosen, den)}"))
    if valid:
        if chosen < lo or chosen > hi:
            raise RuntimeError(f"oracle defect: a valid matching with total {chosen} outside [{lo},{hi}] for {K}")
        if mode == "max":
            if chosen != hi:
                bad.append((O_MAX, f"matching {list(sol)} totals {_show(chosen, den)}, the maximum is {_show(hi, den)}"))
        elif chosen != lo:
            bad.append((O_MIN, f"matching {list(sol)} totals {_show(chosen, den)}, the minimum is {_show(lo, den)}"))
    return bad, chosen


def _show(k, den):
    if den == 1:
        return str(k)
    return repr(k / den)


def expected_assignment_cost(K, assignment):
    rows = len(K)
    total = 0
    for i, j in enumerate(assignment):
        if j != -1 and i < rows and 0 <= j < len(K[i]):
            total += K[i][j]
    return total


# ====================================================================== running a stream (in a fresh process)
def _shape_obj(matrix, form):
    if form == "tuple":
        return tuple(tuple(r) for r in matrix)
    if form == "rows-tuple":
        return [tuple(r) for r in matrix]
    return [list(r) for r in matrix]


def _digest(matrix, mode):
    return hashlib.sha1(repr((matrix, mode)).encode()).hexdigest()[:16]


def _in_exhaustive(matrix, exh_spaces):
    key = (len(matrix), len(matrix[0]))
    for vals in exh_spaces.get(key, ()):  # vals: frozenset; membership is numeric (1.0 counts as 1)
        if all(x in vals for row in matrix for x in row):
            return True
    return False


def expand(spec):
    """A "gen" stream is stored as (maker, seed, args) and expanded, deterministically, where it is run - the parent
    processes stay small, which keeps fork cheap."""
    if spec["kind"] != "gen":
        return spec
    rng = random.Random(spec["seed"])
    out = MAKERS[spec["maker"]](rng, *spec["args"])
    out["exh_spaces"] = spec.get("exh_spaces", [])
    if "upto" in spec:
        out["upto"] = spec["upto"]
    return out


def _iter_ops(spec):
    """Yield the ops of a stream.  op = ["solve", matrix, mode, form] | ["ac", matrix, assignment]."""
    kind = spec["kind"]
    if kind == "list":
        yield from spec["ops"]
    elif kind == "exh":
        rows, cols, vals = spec["rows"], spec["cols"], spec["vals"]
        cells, base = rows * cols, len(vals)
        idx = spec["start"]
        digits = []
        t = idx
        for _ in range(cells):
            digits.append(t % base)
            t //= base
        while idx < spec["stop"]:
            flat = [vals[d] for d in digits]
            matrix = [flat[i * cols:(i + 1) * cols] for i in range(rows)]
            for mode in spec["modes"]:
                yield ["solve", matrix, mode, "list"]
            idx += 1
            p = 0
            while p < cells:
                digits[p] += 1
                if digits[p] < base:
                    break
                digits[p] = 0
                p += 1
    elif kind == "ac_exh":
        rows, cols, vals = spec["rows"], spec["cols"], spec["vals"]
        entries = list(range(-2, cols + 2))
        for flat in itertools.product(vals, repeat=rows * cols):
            matrix = [list(flat[i * cols:(i + 1) * cols]) for i in range(rows)]
            for ln in range(0, rows + 2):
                for a in itertools.product(entries, repeat=ln):
                    yield ["ac", matrix, list(a)]
    else:
        raise ValueError(kind)


def materialize(spec, upto):
    """The first `upto` ops of a stream as an explicit list."""
    return [op for op in itertools.islice(_iter_ops(spec), upto)]


def run_stream(spec):
    """Execute every op of the stream in order in THIS process and check each answer.

    Returns {"n": evaluations, "bulk": distinct non-trivial cases counted by construction (exhaustive streams),
             "keys": digests of non-trivial cases (list streams), "viol": [(op_index, obligation, detail)], "sample": op}
    """
    from oracles.assignment import exact_scale, minmax
    from solvor.hungarian import solve_hungarian
    from solvor.utils.helpers import assignment_cost

    spec = expand(spec)
    shared = bool(spec.get("shared"))
    exh = spec["kind"] in ("exh", "ac_exh")
    exh_spaces = {tuple(k): [frozenset(v) for v in vs] for k, vs in spec.get("exh_spaces", [])}
    buffers = {}
    out = {"n": 0, "bulk": 0, "keys": set(), "viol": [], "sample": None, "timeouts": 0}
    signal.signal(signal.SIGALRM, _on_alarm)
    last_matrix, last_scaled = None, None
    ops_iter = _iter_ops(spec)
    if spec.get("upto") is not None:
        ops_iter = itertools.islice(ops_iter, spec["upto"])
    for idx, op in enumerate(ops_iter):
        matrix = op[1]
        if matrix is last_matrix:
            K, den, lo, hi = last_scaled
        else:
            K, den = exact_scale(matrix)
            lo, hi = minmax(K) if (K and K[0]) else (0, 0)
            last_matrix, last_scaled = matrix, (K, den, lo, hi)
        if op[0] == "ac":
            assignment = op[2]
            out["n"] += 1
            try:
                got = assignment_cost(_shape_obj(matrix, "list"), list(assignment))
            except Exception as e:  # noqa
                out["viol"].append((idx, O_AC_ANY, f"raised {type(e).__name__}: {e}"))
                continue
            from oracles.assignment import exact_number
            want = expected_assignment_cost(K, assignment)
            if exact_number(got, den) != want:
                out["viol"].append((idx, O_AC_ANY, f"assignment_cost(.., {assignment}) = {got!r}, sum of in-range entries is "
                                                   f"{_show(want, den)}"))
            if any(j != -1 and i < len(K) and 0 <= j < len(K[0]) for i, j in enumerate(assignment)):
                if exh:
                    out["bulk"] += 1
                elif not _in_exhaustive(matrix, exh_spaces):
                    out["keys"].add(_digest(matrix, assignment))
            continue
        mode, form = op[2], op[3]
        rows = len(matrix)
        cols = len(matrix[0]) if rows else 0
        if shared and rows and cols:
            arg = buffers.get((rows, cols))
            if arg is None:
                arg = buffers[(rows, cols)] = [[0] * cols for _ in range(rows)]
            for i in range(rows):
                arg[i][:] = matrix[i]
        else:
            arg = _shape_obj(matrix, form)
        out["n"] += 1
        signal.setitimer(signal.ITIMER_REAL, CALL_TIMEOUT_S)
        try:
            if mode == "default":
                res = solve_hungarian(arg)
            else:
                res = solve_hungarian(arg, minimize=(mode == "min"))
            signal.setitimer(signal.ITIMER_REAL, 0)
        except _Timeout:
            out["viol"].append((idx, O_RET, f"no result after {CALL_TIMEOUT_S} s"))
            out["timeouts"] += 1
            if out["timeouts"] >= 2:
                break
            continue
        except Exception as e:  # noqa
            signal.setitimer(signal.ITIMER_REAL, 0)
            out["viol"].append((idx, O_RET, f"raised {type(e).__name__}: {e}"))
            continue
        if rows == 0 or cols == 0:
            sol = getattr(res, "solution", None)
            if not isinstance(sol, (list, tuple)) or any(x != -1 for x in sol) or getattr(res, "objective", None) != 0:
                out["viol"].append((idx, O_EMPTY, f"empty matrix: solution {sol!r}, objective {getattr(res, 'objective', None)!r}"))
            continue
        bad, chosen = evaluate_solve(K, den, mode, res, lo, hi)
        for o, d in bad:
            out["viol"].append((idx, o, d))
        if chosen is not None:
            from oracles.assignment import exact_number
            out["n"] += 1
            try:
                got = assignment_cost(_shape_obj(matrix, form), res.solution)
                if exact_number(got, den) != chosen:
                    out["viol"].append((idx, O_AC_SOL, f"assignment_cost(M, {list(res.solution)}) = {got!r}, chosen entries sum to "
                                                       f"{_show(chosen, den)}"))
            except Exception as e:  # noqa
                out["viol"].append((idx, O_AC_SOL, f"raised {type(e).__name__}: {e}"))
        if lo != hi:  # the choice of matching matters
            if exh:
                out["bulk"] += 1
            elif not _in_exhaustive(matrix, exh_spaces):
                out["keys"].add(_digest(matrix, "max" if mode == "max" else "min"))
        if out["sample"] is None and chosen is not None and lo != hi and rows > 1 and cols > 1:
            out["sample"] = {"matrix": matrix, "mode": mode, "solution": list(res.solution), "objective": res.objective,
                             "min": _show(lo, den), "max": _show(hi, den)}
    signal.setitimer(signal.ITIMER_REAL, 0)
    return out


def in_fresh_process(fn, arg):
    """fn(arg) in a forked child of this process; this process itself never calls the code under test, so the child
    starts with solvor's module state exactly as after import."""
    r, w = os.pipe()
    pid = os.fork()
    if pid == 0:
        code = 0
        try:
            os.close(r)
            try:
                payload = ("ok", fn(arg))
            except BaseException:  # noqa
                payload = ("err", traceback.format_exc()[-2000:])
            with os.fdopen(w, "wb") as f:
                f.write(pickle.dumps(payload))
        except BaseException:  # noqa
            code = 1
        finally:
            os._exit(code)
    os.close(w)
    with os.fdopen(r, "rb") as f:
        data = f.read()
    os.waitpid(pid, 0)
    if not data:
        return ("err", "child process died without an answer")
    return pickle.loads(data)


def _reproduces(spec, last, obligation):
    st, out = in_fresh_process(run_stream, spec)
    return st == "ok" and any(i == last and o == obligation for i, o, _ in out["viol"])


def shrink(spec, idx, obligation, deadline):
    """Smallest history that still violates, each candidate run in a fresh process: the call alone, one earlier call +
    the call, the original stream cut after the call.  -> (case for replay, how it reproduces)"""
    import time
    spec = expand(spec)
    prefix = materialize(spec, idx + 1)
    shared = bool(spec.get("shared"))
    target = prefix[-1]
    if _reproduces({"kind": "list", "ops": [target], "shared": shared}, 0, obligation):
        return {"ops": [target], "shared": shared}, "reproduces as an isolated call in a fresh process"
    for j in range(idx - 1, max(-1, idx - 60), -1):
        if time.time() > deadline:
            break
        if _reproduces({"kind": "list", "ops": [prefix[j], target], "shared": shared}, 1, obligation):
            return ({"ops": [prefix[j], target], "shared": shared},
                    "HISTORY-DEPENDENT: correct as an isolated call, wrong after the one earlier call listed first")
    cut = {k: v for k, v in spec.items() if k != "exh_spaces"}
    cut["upto"] = idx + 1
    if _reproduces(cut, idx, obligation):
        case = {"ops": prefix, "shared": shared} if spec["kind"] == "list" else {"spec": cut}
        return case, f"HISTORY-DEPENDENT: correct as an isolated call, wrong as call {idx} of this sequence"
    return ({"ops": prefix, "shared": shared},
            "observed once; NOT reproduced when the same sequence was re-run in a fresh process (non-deterministic behaviour)")


def stream_worker(spec):
    """Pool task: run one stream in a fresh child, shrink what it finds. Returns plain data."""
    import solvor.hungarian  # noqa  imported, never called, in this process
    import solvor.utils.helpers  # noqa
    st, out = in_fresh_process(run_stream, spec)
    if st != "ok":
        return {"defect": out}
    import time
    viol = []
    seen = {}
    deadline = time.time() + 1.5  # wall budget for the one-predecessor search of this stream (not part of any verdict)
    for idx, obligation, detail in out["viol"]:
        seen[obligation] = seen.get(obligation, 0) + 1
        if seen[obligation] > 1 or len(viol) >= 3:
            continue
        case, how = shrink(spec, idx, obligation, deadline)
        viol.append((obligation, case, f"{detail} [{how}]"))
    return {"n": out["n"], "bulk": out["bulk"], "keys": sorted(out["keys"]), "viol": viol, "n_viol": len(out["viol"]),
            "sample": out["sample"]}


# ====================================================================== generators
def _dy(k, den, as_float=None, rng=None):
    """k/den as an int when integral (unless as_float), else a float (exact: den is a power of two)."""
    if k % den == 0 and not as_float:
        return k // den
    return k / den


FAMILIES = ["small", "binary", "negbinary", "ternary", "const", "additive", "duprows", "dupcols", "neg", "pos", "poslarge",
            "neglarge", "dyadic8", "dyadic1024", "mixedtype", "rowscale", "colscale", "product", "offset", "sparsebig",
            "diagtrap", "widerange"]


def gen_matrix(rng, r, c, fam):
    R = range(r)
    C = range(c)
    if fam == "small":
        return [[rng.randint(-3, 3) for _ in C] for _ in R]
    if fam == "binary":
        return [[rng.randint(0, 1) for _ in C] for _ in R]
    if fam == "negbinary":
        return [[-rng.randint(0, 1) for _ in C] for _ in R]
    if fam == "ternary":
        return [[rng.randint(-1, 1) for _ in C] for _ in R]
    if fam == "const":
        v = rng.choice([0, 1, -1, 5, -7, 0.5, -2.25])
        m = [[v for _ in C] for _ in R]
        for _ in range(rng.randint(0, 2)):
            m[rng.randrange(r)][rng.randrange(c)] = v + rng.choice([-1, 1, 0.5, -0.5])
        return m
    if fam == "additive":  # a_i + b_j: every matching of a square one has the same total
        a = [rng.randint(-5, 5) for _ in R]
        b = [rng.randint(-5, 5) for _ in C]
        m = [[a[i] + b[j] for j in C] for i in R]
        for _ in range(rng.randint(0, 3)):
            m[rng.randrange(r)][rng.randrange(c)] += rng.choice([-2, -1, 1, 2])
        return m
    if fam == "duprows":
        protos = [[rng.randint(-4, 4) for _ in C] for _ in range(rng.randint(1, 2))]
        return [list(rng.choice(protos)) for _ in R]
    if fam == "dupcols":
        protos = [[rng.randint(-4, 4) for _ in R] for _ in range(rng.randint(1, 2))]
        cols = [rng.choice(protos) for _ in C]
        return [[cols[j][i] for j in C] for i in R]
    if fam == "neg":
        return [[rng.randint(-9, -1) for _ in C] for _ in R]
    if fam == "pos":
        return [[rng.randint(1, 9) for _ in C] for _ in R]
    if fam == "poslarge":
        return [[rng.randint(100, 999) for _ in C] for _ in R]
    if fam == "neglarge":
        return [[-rng.randint(100, 999) for _ in C] for _ in R]
    if fam == "dyadic8":
        return [[rng.randint(-24, 24) / 8 for _ in C] for _ in R]
    if fam == "dyadic1024":
        return [[rng.randint(-4096, 4096) / 1024 for _ in C] for _ in R]
    if fam == "mixedtype":
        return [[_dy(rng.randint(-12, 12), 4, as_float=rng.random() < 0.3) for _ in C] for _ in R]
    if fam == "rowscale":  # rows live on very different levels (row maxima differ a lot)
        base = [rng.choice([-300, -40, 0, 7, 60, 500]) for _ in R]
        return [[base[i] + rng.randint(-3, 3) for _ in C] for i in R]
    if fam == "colscale":
        base = [rng.choice([-300, -40, 0, 7, 60, 500]) for _ in C]
        return [[base[j] + rng.randint(-3, 3) for j in C] for _ in R]
    if fam == "product":  # (i+1)*(j+1): long augmenting paths
        s = rng.choice([1, -1])
        pr = list(R)
        pc = list(C)
        rng.shuffle(pr)
        rng.shuffle(pc)
        return [[s * (pr[i] + 1) * (pc[j] + 1) for j in C] for i in R]
    if fam == "offset":
        off = rng.choice([10 ** 6, -10 ** 6, 4096.0, -65536.5])
        return [[off + rng.randint(-4, 4) for _ in C] for _ in R]
    if fam == "sparsebig":
        return [[(rng.choice([-50, 50, 17, -17]) if rng.random() < 0.25 else 0) for _ in C] for _ in R]
    if fam == "diagtrap":  # the greedy row-by-row choice is wrong
        m = [[10 + rng.randint(0, 2) for _ in C] for _ in R]
        for i in R:
            m[i][i % c] = rng.randint(0, 1)
            m[i][(i + 1) % c] = rng.randint(0, 1)
        return m
    if fam == "widerange":
        return [[rng.choice([-1, 1]) * 2.0 ** rng.randint(-6, 18) for _ in C] for _ in R]
    raise ValueError(fam)


def rand_shape(rng, hi):
    k = rng.random()
    if k < 0.35:
        n = rng.randint(1, hi)
        return n, n
    if k < 0.5:  # a line
        n = rng.randint(1, hi)
        return (1, n) if rng.random() < 0.5 else (n, 1)
    return rng.randint(1, hi), rng.randint(1, hi)


def rand_mode(rng):
    k = rng.random()
    return "min" if k < 0.4 else "max" if k < 0.9 else "default"


def rand_form(rng):
    k = rng.random()
    return "list" if k < 0.8 else "tuple" if k < 0.9 else "rows-tuple"


def rand_assignment(rng, r, c):
    k = rng.random()
    ln = r if k < 0.7 else max(0, r + rng.choice([-1, 1, 2]))
    if rng.random() < 0.5:  # a partial matching with -1
        cols = list(range(c))
        rng.shuffle(cols)
        a = [(cols[i] if i < len(cols) and rng.random() < 0.7 else -1) for i in range(ln)]
    else:  # anything, including repeated and out-of-range columns
        a = [rng.randint(-2, c + 1) for _ in range(ln)]
    return a


def solve_op(rng, r, c, fam=None, mode=None):
    fam = fam or rng.choice(FAMILIES)
    return ["solve", gen_matrix(rng, r, c, fam), mode or rand_mode(rng), rand_form(rng)]


def random_stream(rng, length, hi):
    ops = []
    for _ in range(length):
        r, c = rand_shape(rng, hi)
        op = solve_op(rng, r, c)
        ops.append(op)
        if rng.random() < 0.25:
            ops.append(["ac", op[1], rand_assignment(rng, r, c)])
    return {"kind": "list", "ops": ops, "shared": False}


def big_stream(rng, length, lo, hi):
    ops = []
    for _ in range(length):
        n = rng.randint(lo, hi)
        r, c = (n, n) if rng.random() < 0.4 else (n, rng.randint(max(1, n - 6), n)) if rng.random() < 0.5 else (rng.randint(max(1, n - 6), n), n)
        ops.append(solve_op(rng, r, c, mode=rng.choice(["min", "max"])))
    return {"kind": "list", "ops": ops, "shared": False}


def same_n_shapes(n):
    return [(n, n)] + [(k, n) for k in range(1, n)] + [(n, k) for k in range(1, n)]


LOUD = ["poslarge", "neglarge", "rowscale", "colscale", "sparsebig", "pos", "neg", "offset", "small", "dyadic8"]


def history_stream(rng, pattern, hi):
    """Sequences of calls designed so that state left behind by one call could change a later answer."""
    ops = []
    n = rng.randint(2, hi)
    shapes = same_n_shapes(n)
    rect = shapes[1:]
    if pattern == "stale-padding":  # a full n x n problem, then rectangular ones of the same padded size
        for _ in range(rng.randint(2, 4)):
            ops.append(solve_op(rng, n, n, rng.choice(LOUD), rng.choice(["min", "min", "max", "default"])))
            for _ in range(rng.randint(1, 4)):
                r, c = rng.choice(rect)
                ops.append(solve_op(rng, r, c, rng.choice(LOUD + ["small", "binary", "ternary"]), rng.choice(["min", "min", "default", "max"])))
    elif pattern == "tall-wide":  # k x n after n x k and back
        for _ in range(rng.randint(4, 10)):
            r, c = rng.choice(rect)
            ops.append(solve_op(rng, r, c, rng.choice(LOUD), rng.choice(["min", "max", "default"])))
            ops.append(solve_op(rng, c, r, rng.choice(LOUD), rng.choice(["min", "max", "default"])))
    elif pattern == "same-n":
        for _ in range(rng.randint(8, 24)):
            r, c = rng.choice(shapes)
            ops.append(solve_op(rng, r, c))
    elif pattern == "many-sizes":  # more distinct sizes than a small cache holds, then back to the first ones
        sizes = list(range(1, rng.randint(9, 12)))
        rng.shuffle(sizes)
        for rep in range(2):
            for s in sizes:
                r, c = rng.choice(same_n_shapes(s))
                ops.append(solve_op(rng, r, c, rng.choice(LOUD), rng.choice(["min", "max", "default"])))
    elif pattern == "repeat":  # the same problems again and again between others: the answer may not drift
        pool = []
        for _ in range(3):
            r, c = rng.choice(shapes)
            pool.append((gen_matrix(rng, r, c, rng.choice(FAMILIES)), rand_form(rng)))
        for _ in range(rng.randint(8, 16)):
            m, f = rng.choice(pool)
            ops.append(["solve", m, rng.choice(["min", "max", "default"]), f])
    elif pattern == "flip-mode":  # the same shape alternately maximised and minimised
        r, c = rng.choice(rect)
        for _ in range(rng.randint(3, 8)):
            fam = rng.choice(LOUD)
            ops.append(solve_op(rng, r, c, fam, "max"))
            ops.append(solve_op(rng, r, c, fam, "min"))
            rr, cc = rng.choice(shapes)
            ops.append(solve_op(rng, rr, cc, rng.choice(LOUD), rng.choice(["min", "max"])))
    else:
        raise ValueError(pattern)
    for k in range(len(ops) - 1, -1, -1):
        if rng.random() < 0.1:
            m = ops[k][1]
            ops.insert(k + 1, ["ac", m, rand_assignment(rng, len(m), len(m[0]))])
    return {"kind": "list", "ops": ops, "shared": rng.random() < 0.3, "pattern": pattern}


PATTERNS = ["stale-padding", "tall-wide", "same-n", "many-sizes", "repeat", "flip-mode"]
MAKERS = {"random": random_stream, "big": big_stream, "history": history_stream}


def gen(rng, maker, *args):
    return {"kind": "gen", "maker": maker, "seed": rng.getrandbits(48), "args": list(args)}


def pair_pool(vals, n):
    pool = []
    for r, c in same_n_shapes(n):
        for flat in itertools.product(vals, repeat=r * c):
            m = [list(flat[i * c:(i + 1) * c]) for i in range(r)]
            for mode in ("min", "max"):
                pool.append(["solve", m, mode, "list"])
    return pool


def pairs_worker(task):
    """Every ordered pair (A, B) of a pool of calls, each pair in its own fresh process."""
    import solvor.hungarian  # noqa
    import solvor.utils.helpers  # noqa
    vals, n, lo, hi = task
    pool = pair_pool(vals, n)
    N = len(pool)
    res = {"n": 0, "bulk": 0, "keys": [], "viol": [], "n_viol": 0, "sample": None, "pairs": 0}
    for t in range(lo, hi):
        a, b = pool[t // N], pool[t % N]
        spec = {"kind": "list", "ops": [a, b], "shared": False}
        st, out = in_fresh_process(run_stream, spec)
        if st != "ok":
            return {"defect": out}
        res["n"] += out["n"]
        res["pairs"] += 1
        res["n_viol"] += len(out["viol"])
        for idx, obligation, detail in out["viol"]:
            if len(res["viol"]) < 2:
                import time
                case, how = shrink(spec, idx, obligation, time.time() + 1.0)
                res["viol"].append((obligation, case, f"{detail} [{how}]"))
    return res


# ====================================================================== plan
def exh_streams(rows, cols, vals, chunk, modes=("min", "max")):
    total = len(vals) ** (rows * cols)
    return [{"kind": "exh", "rows": rows, "cols": cols, "vals": list(vals), "start": s, "stop": min(total, s + chunk),
             "modes": list(modes)} for s in range(0, total, chunk)]


def plan(ctx: Ctx):
    quick = ctx.quick
    rng = random.Random(ctx.seed * 1000003 + 10)
    exh = []  # (rows, cols, vals)
    for r, c in [(1, 1), (1, 2), (2, 1), (1, 3), (3, 1), (2, 2), (2, 3), (3, 2)]:
        exh.append((r, c, V5))
        exh.append((r, c, VD))
    exh += [(1, 4, V5), (4, 1, V5)]
    if quick:
        exh += [(3, 3, V3), (3, 3, VQ), (2, 4, V3), (4, 2, V3), (3, 4, VB), (4, 3, VB)]
    else:
        exh += [(3, 3, V5), (2, 4, V5), (4, 2, V5), (3, 3, VD4), (3, 3, VQ), (3, 4, V3), (4, 3, V3), (4, 4, VB), (2, 5, V3),
                (5, 2, V3), (3, 5, VB), (5, 3, VB)]
    streams = []
    spaces = {}
    for r, c, vals in exh:
        streams += exh_streams(r, c, vals, 3000)
        spaces.setdefault((r, c), []).append(list(vals))
        ctx.scope(f"exhaustive {r}x{c}", values=list(vals), matrices=len(vals) ** (r * c), modes=["min", "max"], exhaustive=True)
    exh_spaces = [[list(k), v] for k, v in spaces.items()]
    # assignment_cost, exhaustive: every matrix x every assignment list of length 0..rows+1 over {-2..cols+1}
    for r, c, vals in ([(1, 2, V3), (2, 1, V3), (2, 2, V3)] if quick else [(1, 2, V5), (2, 1, V5), (2, 2, V3), (2, 3, VB), (3, 2, VB)]):
        streams.append({"kind": "ac_exh", "rows": r, "cols": c, "vals": list(vals)})
        ctx.scope(f"assignment_cost exhaustive {r}x{c}", values=list(vals), assignment_entries=f"-2..{c + 1}", lengths=f"0..{r + 1}",
                  exhaustive=True)
    # empty matrices
    streams.append({"kind": "list", "shared": False,
                    "ops": [["solve", [], m, "list"] for m in ("min", "max", "default")] + [["solve", [[]], m, "list"] for m in ("min", "max")]
                    + [["solve", [[], []], "min", "list"]]})
    ctx.scope("empty matrices", cases=["[]", "[[]]", "[[],[]]"], contract="no pair assigned, objective 0")
    # random calls, mixed shapes and families (each stream = one process history)
    n_rand, len_rand = (200, 24) if quick else (6000, 30)
    for _ in range(n_rand):
        streams.append(gen(rng, "random", len_rand, 7))
    ctx.scope("random streams up to 7x7", streams=n_rand, calls_per_stream=len_rand, families=FAMILIES, oracle="permutation enumeration")
    n_mid, len_mid = (60, 12) if quick else (1500, 16)
    for _ in range(n_mid):
        streams.append(gen(rng, "random", len_mid, 10 if quick else 12))
    ctx.scope("random streams up to 10x10 (quick) / 12x12 (thorough)", streams=n_mid, calls_per_stream=len_mid,
              oracle="enumeration when <= 5040 matchings, else subset DP")
    n_big, len_big = (24, 6) if quick else (400, 10)
    for _ in range(n_big):
        streams.append(gen(rng, "big", len_big, 11, 18 if quick else 30))
    ctx.scope("random larger matrices", streams=n_big, calls_per_stream=len_big, sizes="11..18 (quick) / 11..30 (thorough)",
              oracle="subset DP up to 12, beyond: shortest augmenting paths + verified LP-duality certificate")
    n_hist = 300 if quick else 9000
    for t in range(n_hist):
        streams.append(gen(rng, "history", PATTERNS[t % len(PATTERNS)], 5 if t % 3 else 7))
    ctx.scope("history streams (one process per stream, every answer checked)", streams=n_hist, patterns=PATTERNS,
              shared_caller_buffer="30% of streams")
    for s in streams:
        if s["kind"] in ("list", "gen"):
            s["exh_spaces"] = exh_spaces
    # exhaustive ordered pairs of calls over a small pool, same padded size 2
    pvals = VB if quick else VP
    N = len(pair_pool(pvals, 2))
    tot = N * N
    step = max(1, tot // 64)
    pair_tasks = [(pvals, 2, s, min(tot, s + step)) for s in range(0, tot, step)]
    ctx.scope("exhaustive ordered pairs of calls (A then B in one fresh process)", pool=f"all 2x2, 1x2, 2x1 matrices over {pvals} x {{min,max}}",
              pool_size=N, pairs=tot, exhaustive=True)
    return streams, pair_tasks


def run(ctx: Ctx):
    from vf.prove import prove
    prove(ctx, ["specs.helpers"], "C10")  # deductive part (specs/helpers.py)
    from vf.pool import pmap
    from oracles import assignment as A
    use_repo()
    n_self = A.selftest(random.Random(ctx.seed + 77), 250 if ctx.quick else 3000)
    ctx.notes["oracle_selftest_comparisons"] = n_self
    streams, pair_tasks = plan(ctx)
    order = list(range(len(streams)))
    random.Random(ctx.seed).shuffle(order)  # spread heavy streams over the pool chunks
    results = pmap(stream_worker, [streams[i] for i in order], chunksize=4)
    results += pmap(pairs_worker, pair_tasks, chunksize=1)
    keys = _Keys()
    n_eval = 0
    samples = []
    history_dependent = 0
    found = []
    for res in results:
        if "defect" in res:
            ctx.defects.append(res["defect"])
            continue
        n_eval += res["n"]
        keys.bulk += res["bulk"]
        keys.update(res["keys"])
        if res["sample"] and len(samples) < 8:
            samples.append(res["sample"])
        for obligation, case, detail in res["viol"]:
            if "HISTORY-DEPENDENT" in detail:
                history_dependent += 1
            if res["n_viol"] > len(res["viol"]):
                detail += f" ({res['n_viol']} violations in this stream)"
            found.append((1 if "NOT reproduced" in detail else 0, len(found), obligation, case, detail))
    for _, _, obligation, case, detail in sorted(found):  # deterministic reproductions first
        ctx.violation(obligation, case, detail)
    ctx.nontrivial = keys
    ctx.count(n_eval, (), samples)
    ctx.notes["streams"] = len(streams)
    ctx.notes["pair_histories"] = sum(t[3] - t[2] for t in pair_tasks)
    ctx.notes["history_dependent_violations"] = history_dependent
    ctx.rule = ("every evaluation is one call of solve_hungarian (or assignment_cost) made in sequence with the other calls of its "
                "stream inside one fresh process, with the full contract checked against an exact oracle. A solve case is "
                "non-trivial when the matrix has matchings of different totals (oracle min != max), i.e. the choice matters; an "
                "assignment_cost case when at least one entry is in range. distinct = different (matrix, min|max): exhaustive "
                "spaces are disjoint index ranges of an injective enumeration and are counted by construction; random/history "
                "cases are de-duplicated by digest and not counted when they fall inside an exhaustively enumerated space")
    ctx.assumptions += [
        "entries are ints and dyadic-rational floats of small magnitude (|x| <= 2^20, granularity >= 2^-10): every float "
        "operation of the algorithm is then exact, so exact optimality (not optimality up to a tolerance) is demanded",
        "rectangular = all rows have the same length >= 1; for matrices without rows or columns only 'no pair, objective 0' is required",
        "a call that does not return within 20 s counts as a violation of ensures:returns (sizes <= 30x30)",
        "bounded: holds for the enumerated and sampled inputs only",
    ]
    ctx.trusted += [
        "oracles/assignment.py: permutation enumeration, subset DP, and verify_certificate (weak LP duality) - cross-validated "
        f"on {n_self} random matrices this run",
        "float.as_integer_ratio for the exact value of a float",
    ]


class _Keys(set):
    """Set of digests plus a count of cases that are distinct by construction (exhaustive enumeration)."""
    bulk = 0

    def __len__(self):
        return set.__len__(self) + self.bulk


# ====================================================================== replay
def replay(rec) -> int:
    use_repo()
    case = rec.get("case") or {}
    if "spec" in case:
        spec = expand(case["spec"])
        ops = materialize(spec, spec["upto"])
    else:
        ops = case["ops"]
        spec = {"kind": "list", "ops": ops, "shared": bool(case.get("shared"))}
    out = run_stream(spec)
    for i, op in enumerate(ops):
        v = [(o, d) for k, o, d in out["viol"] if k == i]
        if len(ops) > 12 and not v and i < len(ops) - 1:
            continue
        what = f"solve_hungarian({op[1]}, {op[2]})" if op[0] == "solve" else f"assignment_cost({op[1]}, {op[2]})"
        print(f"call {i}: {what[:300]} -> {'VIOLATES ' + '; '.join(o + ': ' + d for o, d in v) if v else 'contract holds'}")
    print("replay:", "still violates" if out["viol"] else "no violation")
    return 1 if out["viol"] else 0

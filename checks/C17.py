"""C17 - cutting-stock plans of solve_cg / solve_bp meet every demand; OPTIMAL is minimal.   Bounded back end only.

Contract (taken from the property statement), for a Result r of solve_cg / solve_bp on a valid instance:
  r.status in {OPTIMAL, FEASIBLE}  ==>
    plan-wellformed   r.solution is a dict {pattern: count}; patterns are tuples of m non-negative ints, counts ints >= 1
    patterns-fit      every pattern fits in the roll (sum p_i*size_i <= width); custom mode: is a column of the problem
    demands-met       sum_pattern p_i*count >= demand_i for every piece i
    objective-is-roll-count   r.objective == sum of the counts          (|.| <= 1e-6, objective is a float)
    objective-not-below-minimum   r.objective >= OPT                    (OPT from oracles/cutting_stock.py)
    optimal-is-minimal        r.status == OPTIMAL ==> r.objective == OPT
Nothing is demanded of results with another status, of exceptions, or of calls that do not come back within the
per-call alarm (the statement speaks about returned plans only); those are counted and listed in the evidence notes.
Obligation names carry the function, '[custom]' for custom-pricing mode and '@limited(...)' when the call was given a
budget (max_iter / max_nodes / stop through on_progress), so that default-option failures can be told apart.
Lemma (DESIGN 7/C17 inner contract, needed for 'the LP value is a bound'): knapsack_pricing returns a fitting pattern
whose reported value is its dual value and no pattern is better (exhaustive comparison in exact rationals).
"""
from __future__ import annotations

import itertools
import random
import signal
import time

from vf.core import Ctx, use_repo

LEVEL = "exploration"
TOL = 1e-6
CALL_TIMEOUT = 5  # CPU seconds per solver call (ITIMER_VIRTUAL: independent of machine load, so runs are repeatable)
WALL_BACKSTOP = 300  # signal.alarm wall-clock backstop per solver call
DEFAULT_OPTS: dict = {}


class _Timeout(Exception):
    pass


def _on_alarm(signum, frame):
    raise _Timeout()


# ------------------------------------------------------------------ custom pricing over an explicit column set
def make_pricer(columns, kind):
    """Exact pricing over the explicit column set: reduced cost of column c is 1 - duals.c .
    kind 'best': most negative reduced cost (first on ties); 'first': first column with negative reduced cost;
    'last': last such column.  All three are legitimate pricing functions: they return (None, 0.0) exactly when no
    column of the set has reduced cost < -1e-7."""
    cols = [tuple(c) for c in columns]

    def price(duals):
        best, best_rc = None, -1e-7
        for c in cols:
            rc = 1.0 - sum(d * a for d, a in zip(duals, c))
            if kind == "best":
                if rc < best_rc:
                    best, best_rc = c, rc
            elif kind == "first":
                if rc < -1e-7:
                    return c, rc
            else:
                if rc < -1e-7:
                    best, best_rc = c, rc
        if best is None:
            return None, 0.0
        return best, best_rc

    return price


# ------------------------------------------------------------------ one case
def call_solver(case):
    """Run the real function on the case. Returns (kind, payload, seconds): kind in result/exception/timeout."""
    use_repo()
    from solvor.bp import solve_bp
    from solvor.cg import solve_cg
    fn = solve_bp if case["solver"] == "bp" else solve_cg
    opts = case.get("opts") or {}
    kw = {}
    if "max_iter" in opts:
        kw["max_iter"] = opts["max_iter"]
    if "max_nodes" in opts and case["solver"] == "bp":
        kw["max_nodes"] = opts["max_nodes"]
    if "stop_after" in opts:
        calls = [0]
        k = opts["stop_after"]

        def cb(progress):
            calls[0] += 1
            return calls[0] >= k

        kw["on_progress"] = cb
        kw["progress_interval"] = 1
    demands = list(case["demands"])
    if case["mode"] == "cs":
        kw["roll_width"] = case["width"]
        kw["piece_sizes"] = list(case["sizes"])
    else:
        kw["pricing_fn"] = make_pricer(case["columns"], case.get("pricer", "best"))
        kw["initial_columns"] = [tuple(c) for c in case["initial"]]
    old = signal.signal(signal.SIGALRM, _on_alarm)
    oldv = signal.signal(signal.SIGVTALRM, _on_alarm)
    t0 = time.process_time()
    signal.alarm(WALL_BACKSTOP)
    signal.setitimer(signal.ITIMER_VIRTUAL, float(case.get("timeout", CALL_TIMEOUT)))
    try:
        try:
            r = fn(demands, **kw)
        finally:
            signal.setitimer(signal.ITIMER_VIRTUAL, 0)
            signal.alarm(0)
        return "result", r, time.process_time() - t0
    except _Timeout:
        return "timeout", None, time.process_time() - t0
    except Exception as e:  # noqa: BLE001
        return "exception", f"{type(e).__name__}: {e}", time.process_time() - t0
    finally:
        signal.setitimer(signal.ITIMER_VIRTUAL, 0)
        signal.alarm(0)
        signal.signal(signal.SIGALRM, old)
        signal.signal(signal.SIGVTALRM, oldv)


def oracle_opt(case):
    from oracles.cutting_stock import min_cover, min_rolls
    if case["mode"] == "cs":
        return min_rolls(case["sizes"], case["width"], case["demands"])
    # custom mode: the solver may legitimately use its initial columns and whatever the pricer can return
    return min_cover([tuple(c) for c in case["columns"]] + [tuple(c) for c in case["initial"]], case["demands"])


def limited(case):
    o = case.get("opts") or {}
    return ",".join(sorted(o))


def check_case(case, opt=None):
    """Evaluate the contract. Returns dict(kind, status, seconds, bad=[(obligation, detail)], usable, exact_obj)."""
    use_repo()
    from solvor.types import Status
    if opt is None:
        opt = oracle_opt(case)[0]
    kind, r, secs = call_solver(case)
    out = {"kind": kind, "seconds": secs, "bad": [], "usable": False, "status": None, "inexact_obj": False}
    if kind != "result":
        out["what"] = r
        return out
    out["status"] = r.status.name
    if r.status not in (Status.OPTIMAL, Status.FEASIBLE):
        return out
    out["usable"] = True
    fn = "solve_bp" if case["solver"] == "bp" else "solve_cg"
    suffix = f"@limited({limited(case)})" if limited(case) else ""
    mode = "" if case["mode"] == "cs" else "[custom]"

    def ob(name):
        return f"C17/{fn}{mode}/ensures:{name}{suffix}"

    bad = out["bad"]
    demands = case["demands"]
    m = len(demands)
    sol = r.solution
    desc = f"status {r.status.name}, objective {r.objective!r}, plan {sol!r}, exact minimum {opt}"
    if not isinstance(sol, dict):
        bad.append((ob("plan-wellformed"), f"solution is {type(sol).__name__}; {desc}"))
        return out
    wf = True
    for pat, cnt in sol.items():
        if not (isinstance(pat, tuple) and len(pat) == m and all(isinstance(a, int) and not isinstance(a, bool) and a >= 0 for a in pat)):
            bad.append((ob("plan-wellformed"), f"pattern {pat!r} is not a tuple of {m} non-negative ints; {desc}"))
            wf = False
        elif not (isinstance(cnt, int) and not isinstance(cnt, bool) and cnt >= 1):
            bad.append((ob("plan-wellformed"), f"count {cnt!r} of pattern {pat!r} is not a positive int; {desc}"))
            wf = False
    if not wf:
        return out
    if case["mode"] == "cs":
        for pat in sol:
            used = sum(a * s for a, s in zip(pat, case["sizes"]))
            if used > case["width"]:
                bad.append((ob("patterns-fit"), f"pattern {pat} uses {used} > roll width {case['width']}; {desc}"))
    else:
        cs = {tuple(c) for c in case["columns"]} | {tuple(c) for c in case["initial"]}
        for pat in sol:
            if pat not in cs:
                bad.append((ob("patterns-fit"), f"pattern {pat} is neither an initial column nor a column of the pricing set; {desc}"))
    for i in range(m):
        prod = sum(p[i] * c for p, c in sol.items())
        if prod < demands[i]:
            bad.append((ob("demands-met"), f"piece {i}: produced {prod} < demand {demands[i]}; {desc}"))
            break
    total = sum(sol.values())
    obj = r.objective
    if not isinstance(obj, (int, float)) or obj != obj or abs(obj - total) > TOL:
        bad.append((ob("objective-is-roll-count"), f"objective {obj!r} but the plan uses {total} rolls; {desc}"))
    else:
        out["inexact_obj"] = obj != total
        if obj < opt - TOL:
            bad.append((ob("objective-not-below-minimum"), f"objective {obj!r} < exact minimum {opt}; {desc}"))
        if r.status == Status.OPTIMAL and abs(obj - opt) > TOL:
            bad.append((ob("optimal-is-minimal"), f"status OPTIMAL with {obj!r} rolls but {opt} rolls suffice; {desc}"))
    return out


def worker(chunk):
    """chunk: list of instance dicts (without 'solver'); each is run through the listed solvers."""
    res = []
    for inst in chunk:
        opt = oracle_opt(inst)[0]
        for solver in inst.get("solvers", ("cg", "bp")):
            case = {k: v for k, v in inst.items() if k != "solvers"}
            case["solver"] = solver
            o = check_case(case, opt)
            res.append((case, opt, o["kind"], o["status"], o["usable"], round(o["seconds"], 4), o["bad"], o.get("what"), o["inexact_obj"]))
    return res


# ------------------------------------------------------------------ generators
def multisets(lo, hi, n):
    return itertools.combinations_with_replacement(range(lo, hi + 1), n)


def gen_exhaustive(quick):
    """Every cutting-stock instance of the listed boxes, default options, both solvers.  Two piece types: every ordered
    pair of sizes; one / three piece types: every multiset of sizes, written in non-increasing order (as the
    repository's own examples are)."""
    out = []
    if quick:
        plan = [(1, range(1, 9), 6, False), (2, range(1, 8), 3, True), (3, range(1, 5), 2, False)]
    else:
        plan = [(1, range(1, 11), 8, False), (2, range(1, 11), 5, True), (3, range(1, 9), 3, False), (3, range(9, 11), 2, False)]
    desc = []
    for n, widths, dmax, ordered in plan:
        cnt = 0
        for W in widths:
            hi = min(8, W)
            if ordered:
                tuples = [list(t) for t in itertools.product(range(1, hi + 1), repeat=n)]
            else:
                tuples = [list(reversed(ms)) for ms in multisets(1, hi, n)]
            for sizes in tuples:
                for dem in itertools.product(range(dmax + 1), repeat=n):
                    out.append({"mode": "cs", "sizes": sizes, "width": W, "demands": list(dem)})
                    cnt += 1
        desc.append({"pieces": n, "widths": f"{widths[0]}..{widths[-1]}",
                     "sizes": "1..min(8,width), " + ("all ordered tuples" if ordered else "all multisets (non-increasing order)"),
                     "demands": f"0..{dmax} each", "instances": cnt})
    return out, desc


def rand_cs(rng):
    """Seeded random cutting stock, ordered size tuples, aimed at ties/duplicates/degenerate shapes."""
    shape = rng.randrange(10)
    W = rng.randint(2, 12)
    n = rng.randint(1, 4)
    if shape == 0:      # all sizes equal (duplicate piece types: ties everywhere)
        s = rng.randint(1, W)
        sizes = [s] * n
    elif shape == 1:    # one piece per roll for some types
        sizes = [rng.choice([W, W, max(1, W - 1), rng.randint(1, W)]) for _ in range(n)]
    elif shape == 2:    # unit pieces and divisors of the width (LP is integral/degenerate)
        divs = [d for d in range(1, W + 1) if W % d == 0]
        sizes = [rng.choice(divs) for _ in range(n)]
    elif shape == 3:    # sizes just above width/2, width/3 (classic rounding gaps)
        sizes = [min(W, rng.choice([W // 2 + 1, W // 3 + 1, W // 2, max(1, W // 3)])) for _ in range(n)]
        sizes = [max(1, x) for x in sizes]
    else:
        sizes = [rng.randint(1, W) for _ in range(n)]
    dk = rng.randrange(6)
    if dk == 0:
        dem = [1] * n                                   # bin packing
    elif dk == 1:
        dem = [rng.choice([0, 0, 1, rng.randint(0, 6)]) for _ in range(n)]   # zeros
    elif dk == 2:
        d = rng.randint(1, 6)
        dem = [d] * n                                   # equal demands
    elif dk == 3:
        # multiples of the per-roll count, +-1: LP values k +- 1/per, branching bounds that make a demand row tight
        dem = []
        for sz in sizes:
            per = W // sz
            k = rng.randint(0, 3)
            dem.append(max(0, min(9, rng.choice([per, per * k + 1, per * k - 1, per * k, per * k + 1]))))
    else:
        dem = [rng.randint(0, 6) for _ in range(n)]
    if n == 4:  # keep the oracle's state space small
        dem = [min(d, 4) for d in dem]
    return {"mode": "cs", "sizes": sizes, "width": W, "demands": dem}


def rand_opts(rng, solver_hint=None):
    k = rng.randrange(4)
    if k == 0:
        return {"max_iter": rng.choice([0, 1, 1, 2, 3])}
    if k == 1:
        return {"max_nodes": rng.choice([0, 1, 2, 3, 5])}
    if k == 2:
        return {"stop_after": rng.choice([1, 1, 2, 3, 4])}
    return {"max_iter": rng.choice([1, 2, 4]), "max_nodes": rng.choice([1, 2, 4])}


def rand_custom(rng):
    """Custom pricing over an explicit column set."""
    from oracles.cutting_stock import all_patterns, maximal_patterns
    kind = rng.randrange(5)
    m = rng.randint(1, 3)
    if kind <= 1:
        # the column set of a cutting-stock instance (all patterns or the maximal ones), single-piece initial columns
        W = rng.randint(2, 9)
        sizes = [rng.randint(1, W) for _ in range(m)]
        cols = all_patterns(sizes, W) if kind == 0 else maximal_patterns(sizes, W)
        cols = [c for c in cols if any(c)]
        rng.shuffle(cols)
        initial = [tuple((W // sizes[j]) if i == j else 0 for i in range(m)) for j in range(m)]
        if rng.random() < 0.3:
            initial = [tuple(1 if i == j else 0 for i in range(m)) for j in range(m)]
    else:
        ncol = rng.randint(1, 6)
        hi = rng.choice([1, 2, 3])
        cols = []
        for _ in range(ncol):
            c = tuple(rng.randint(0, hi) for _ in range(m))
            cols.append(c)
        if kind == 2:
            # initial = unit columns (always feasible), set may or may not contain them
            initial = [tuple(1 if i == j else 0 for i in range(m)) for j in range(m)]
            if rng.random() < 0.5:
                cols += initial
        elif kind == 3:
            # initial = a prefix of the set (may be infeasible alone, may contain duplicates / the zero column)
            k = rng.randint(1, len(cols))
            initial = cols[:k]
            if rng.random() < 0.3:
                initial = initial + [initial[0]]
        else:
            initial = [tuple(max(c[i] for c in cols) if i == j else 0 for i in range(m)) for j in range(m)]
            initial = [c for c in initial if any(c)] or [cols[0]]
            cols = cols + initial
    dk = rng.randrange(4)
    if dk == 0:
        dem = [1] * m
    elif dk == 1:
        dem = [rng.choice([0, 1, rng.randint(0, 5)]) for _ in range(m)]
    else:
        dem = [rng.randint(0, 5) for _ in range(m)]
    return {"mode": "custom", "columns": [list(c) for c in cols], "initial": [list(c) for c in initial], "demands": dem,
            "pricer": rng.choice(["best", "best", "first", "last"])}


def chunks(lst, size):
    return [lst[i:i + size] for i in range(0, len(lst), size)]


# ------------------------------------------------------------------ lemma: knapsack pricing is exact
# The LP value is a lower bound on the number of rolls only if pricing really proves that no pattern has reduced
# cost < 0 (DESIGN 7/C17 inner contract).  A pricing routine that overlooks patterns makes column generation stop early,
# and 'OPTIMAL' is then derived from a number that is not a bound; at top level this shows only on the rare instances
# where the rounded-up wrong bound differs from the right one, so the lemma is checked directly as well.
DUAL_GRID_QUICK = ((0, 1), (1, 4), (1, 3), (1, 2), (1, 1))
DUAL_GRID_FULL = ((0, 1), (1, 6), (1, 4), (1, 3), (1, 2), (2, 3), (1, 1))


def pricing_worker(chunk):
    use_repo()
    from fractions import Fraction
    from oracles.cutting_stock import all_patterns
    from solvor.utils.pricing import knapsack_pricing
    out = []
    for sizes, W, grid in chunk:
        pats = all_patterns(sizes, W)
        for duals in itertools.product(grid, repeat=len(sizes)):
            fr = [Fraction(a, b) for a, b in duals]
            vals = [a / b for a, b in duals]
            best = max(sum(f * q for f, q in zip(fr, pat)) for pat in pats)
            case = {"mode": "pricing", "sizes": list(sizes), "width": W, "duals": [list(d) for d in duals]}
            bad = check_pricing(case, knapsack_pricing, best)
            out.append((case, best > 1, bad))
    return out


def check_pricing(case, knapsack_pricing=None, best=None):
    from fractions import Fraction
    if knapsack_pricing is None:
        use_repo()
        from solvor.utils.pricing import knapsack_pricing
    sizes, W = case["sizes"], case["width"]
    fr = [Fraction(a, b) for a, b in case["duals"]]
    vals = [a / b for a, b in case["duals"]]
    if best is None:
        from oracles.cutting_stock import all_patterns
        best = max(sum(f * q for f, q in zip(fr, pat)) for pat in all_patterns(sizes, W))
    bad = []
    try:
        pat, val = knapsack_pricing(list(sizes), W, vals, 1e-9)
    except Exception as e:  # noqa: BLE001
        return [("C17/knapsack_pricing/lemma:returns", f"{type(e).__name__}: {e}")]
    desc = f"returned pattern {pat!r} value {val!r}; best pattern value is {best} = {float(best):.6f}"
    if not (isinstance(pat, tuple) and len(pat) == len(sizes) and all(isinstance(a, int) and a >= 0 for a in pat)):
        return [("C17/knapsack_pricing/lemma:pattern-wellformed", desc)]
    if sum(a * sz for a, sz in zip(pat, sizes)) > W:
        bad.append(("C17/knapsack_pricing/lemma:pattern-fits", desc))
    true_val = sum(f * a for f, a in zip(fr, pat))
    if abs(float(true_val) - val) > TOL:
        bad.append(("C17/knapsack_pricing/lemma:value-is-dual-value-of-pattern", desc))
    if val < float(best) - TOL:
        bad.append(("C17/knapsack_pricing/lemma:no-better-pattern-exists", desc))
    return bad


def gen_pricing(quick):
    grid = DUAL_GRID_QUICK if quick else DUAL_GRID_FULL
    items = []
    for W in range(1, (7 if quick else 11)):
        hi = min(8, W)
        for n in (1, 2, 3):
            if n <= 2:
                tuples = [list(t) for t in itertools.product(range(1, hi + 1), repeat=n)]
            else:
                tuples = [list(reversed(ms)) for ms in multisets(1, hi, n)]
            for sizes in tuples:
                items.append((sizes, W, grid))
    return items, len(grid)


# ------------------------------------------------------------------ driver
def run(ctx: Ctx):
    from vf.prove import prove
    prove(ctx, ["specs.cutting"], "C17")  # deductive part (specs/cutting.py)
    from vf.pool import pmap
    use_repo()
    rng = random.Random(ctx.seed)
    spaces = []  # (scope name, instances)

    ex, ex_desc = gen_exhaustive(ctx.quick)
    spaces.append(("cutting stock exhaustive, default options", ex))

    n_rand = 700 if ctx.quick else 6000
    spaces.append(("cutting stock seeded random (ordered sizes, duplicates, 1..4 pieces, width 2..12, demands 0..6 (targeted shapes up to 9)), default options",
                   [rand_cs(rng) for _ in range(n_rand)]))

    n_opt = 500 if ctx.quick else 4000
    lim = []
    for _ in range(n_opt):
        inst = rand_cs(rng)
        inst["opts"] = rand_opts(rng)
        lim.append(inst)
    # the exhaustive tiny instances under every budget option
    budget_grid = [{"max_iter": 0}, {"max_iter": 1}, {"max_iter": 2}, {"max_nodes": 0}, {"max_nodes": 1}, {"max_nodes": 2},
                   {"stop_after": 1}, {"stop_after": 2}, {"stop_after": 3}]
    tiny = []
    for W in (range(2, 6) if ctx.quick else range(2, 8)):
        for ms in multisets(1, W, 2):
            for dem in itertools.product(range(1, 4 if ctx.quick else 5), repeat=2):
                tiny.append((list(reversed(ms)), W, list(dem)))
    if ctx.quick:
        tiny = tiny[::3]
    for sizes, W, dem in tiny:
        for o in budget_grid:
            inst = {"mode": "cs", "sizes": sizes, "width": W, "demands": dem, "opts": dict(o)}
            if "max_nodes" in o:
                inst["solvers"] = ("bp",)
            lim.append(inst)
    spaces.append(("cutting stock under budgets (max_iter, max_nodes, stop through on_progress)", lim))

    n_cus = 700 if ctx.quick else 8000
    cus = []
    for i in range(n_cus):
        inst = rand_custom(rng)
        if i % 4 == 3:
            inst["opts"] = rand_opts(rng)
        cus.append(inst)
    spaces.append(("custom pricing over explicit column sets (seeded random; exact pricers best/first/last)", cus))

    # second random block with its own generator (added after the first measurements; the blocks above are unchanged):
    # 3-4 piece types at larger widths, where the LP value is an integer up to float noise or just above one
    rng2 = random.Random(ctx.seed + 17)
    n_r2 = 5000 if ctx.quick else 30000
    r2 = []
    for _ in range(n_r2):
        n = rng2.randint(3, 4)
        W = rng2.randint(5, 14)
        r2.append({"mode": "cs", "sizes": [rng2.randint(1, W) for _ in range(n)], "width": W,
                   "demands": [rng2.randint(0, 4) for _ in range(n)]})
    spaces.append(("cutting stock seeded random II (3-4 pieces, width 5..14, sizes 1..width, demands 0..4), default options", r2))

    all_items = []
    for si, (_, insts) in enumerate(spaces):
        for inst in insts:
            inst["_s"] = si
            all_items.append(inst)
    # interleave so that slow cases are spread over the workers
    order = list(range(len(all_items)))
    random.Random(ctx.seed + 1).shuffle(order)
    items = [all_items[i] for i in order]
    for it in items:
        it["timeout"] = 3 if ctx.quick else CALL_TIMEOUT
    results = pmap(worker_tagged, chunks(items, 8), chunksize=1)

    per = {si: {"evals": 0, "usable": 0, "viol_cases": 0, "cpu": 0.0, "by_fn": {}, "by_ob": {}} for si in range(len(spaces))}
    nontriv = set()
    samples = []
    notes = {"timeouts": 0, "exceptions": 0, "unusable_status": {}, "inexact_objective_floats": 0, "examples": []}
    slow = []
    n_eval = 0
    viol_by_ob: dict[str, int] = {}
    allv: list = []
    for chunk_res in results:
        for (si, case, opt, kind, status, usable, secs, bad, what, inexact) in chunk_res:
            n_eval += 1
            p = per[si]
            p["evals"] += 1
            p["cpu"] += secs
            fn = ("solve_bp" if case["solver"] == "bp" else "solve_cg") + ("" if case["mode"] == "cs" else "[custom]")
            f = p["by_fn"].setdefault(fn, {"evals": 0, "usable": 0, "violating": 0, "labelled_OPTIMAL": 0})
            f["evals"] += 1
            pub = {k: v for k, v in case.items() if k not in ("_s", "timeout")}
            if kind == "timeout":
                notes["timeouts"] += 1
                if len(notes["examples"]) < 12:
                    notes["examples"].append({"what": f"no return within {case.get('timeout')} s", "case": pub})
            elif kind == "exception":
                notes["exceptions"] += 1
                if len([e for e in notes["examples"] if e["what"] == what]) < 2 and len(notes["examples"]) < 12:
                    notes["examples"].append({"what": what, "case": pub})
            elif not usable:
                key = f"{fn}:{status}"
                notes["unusable_status"][key] = notes["unusable_status"].get(key, 0) + 1
            if usable:
                p["usable"] += 1
                f["usable"] += 1
                if status == "OPTIMAL":
                    f["labelled_OPTIMAL"] += 1
                if any(d > 0 for d in case["demands"]):
                    nontriv.add(repr(sorted(pub.items())))
                if len(samples) < 6 and any(d > 0 for d in case["demands"]):
                    samples.append(pub)
            if inexact:
                notes["inexact_objective_floats"] += 1
            if secs > 2.0:
                slow.append((secs, pub))
            if bad:
                p["viol_cases"] += 1
                f["violating"] += 1
            for obn, detail in bad:
                viol_by_ob[obn] = viol_by_ob.get(obn, 0) + 1
                p["by_ob"][obn] = p["by_ob"].get(obn, 0) + 1
                allv.append((obn, pub, detail))
    # lemma block
    pr_items, glen = gen_pricing(ctx.quick)
    pr_res = pmap(pricing_worker, chunks(pr_items, 4), chunksize=1)
    pr_eval = pr_improving = pr_bad = 0
    for chunk_res in pr_res:
        for case, improving, bad in chunk_res:
            pr_eval += 1
            n_eval += 1
            if improving:
                pr_improving += 1
                nontriv.add(repr(sorted(case.items())))
            if bad:
                pr_bad += 1
            for obn, detail in bad:
                viol_by_ob[obn] = viol_by_ob.get(obn, 0) + 1
                allv.append((obn, case, detail))
    lemma_scope = dict(exhaustive=True, widths="1..6" if ctx.quick else "1..10",
                       pieces="1..3 (ordered size tuples for 1-2 pieces, multisets for 3), sizes 1..min(8,width)",
                       dual_grid=[f"{a}/{b}" for a, b in (DUAL_GRID_QUICK if ctx.quick else DUAL_GRID_FULL)], evaluations=pr_eval,
                       with_improving_pattern=pr_improving, violating_evaluations=pr_bad)
    report_violations(ctx, allv)
    slow.sort(key=lambda t: -t[0])
    notes["slowest_calls"] = [{"seconds": round(s, 2), "case": c} for s, c in slow[:5]]
    notes["calls_over_2s"] = len(slow)
    ctx.notes["C17_not_contract"] = notes
    ctx.notes["C17_violations_by_obligation"] = dict(sorted(viol_by_ob.items()))
    ctx.count(n_eval, nontriv, samples)
    for si, (name, insts) in enumerate(spaces):
        kw = dict(instances=len(insts), evaluations=per[si]["evals"], usable_results=per[si]["usable"],
                  violating_evaluations=per[si]["viol_cases"], solver_cpu_s=round(per[si]["cpu"], 1), per_function=per[si]["by_fn"],
                  violations_by_obligation=dict(sorted(per[si]["by_ob"].items())))
        if si == 0:
            kw["exhaustive"] = True
            kw["blocks"] = ex_desc
        ctx.scope(name, **kw)
    ctx.scope("lemma: knapsack_pricing against exhaustive pattern enumeration (exact rationals)", **lemma_scope)
    ctx.exhaustive = False
    ctx.rule = ("one evaluation = one call of solve_cg or solve_bp on one instance (+ options) with every clause of the contract "
                "checked against the exact optimum (lemma block: one call of knapsack_pricing against the best of all patterns); exhaustive block: "
                "all size tuples/multisets x all demand vectors of the listed boxes; "
                "random blocks: seeded generators biased to equal sizes, sizes = width, divisors, just-over-half sizes, zero/unit/equal "
                "demands, tiny budgets, custom column sets with infeasible/duplicate/zero initial columns. non-trivial = some demand "
                "> 0 and the call returned OPTIMAL or FEASIBLE (the antecedent of every clause holds), lemma block: a pattern of value > 1 "
                "exists; distinct = different "
                "(mode, solver, sizes/columns, width, demands, options, pricer)")
    ctx.assumptions += [
        "objective is a float: 'equals' is taken as |objective - integer| <= 1e-6 (occurrences of inexact floats are counted in the notes)",
        "results with status other than OPTIMAL/FEASIBLE, exceptions and calls that do not return within the alarm are outside the statement "
        "(counted in coverage.C17_not_contract, not violations)",
        "custom mode: the pricing function is an exact pricer over the explicit column set (returns (None, 0.0) iff no column has reduced "
        "cost < -1e-7); the true minimum is over initial columns + that set",
        "bounded: nothing is claimed outside the enumerated/sampled scopes",
    ]
    ctx.trusted += ["oracles/cutting_stock.py (BFS over residual demand vectors with witness plan; cross-checked in every run against an iterative-deepening search on seeded instances)"]
    oracle_selfcheck(ctx, rng, 200 if ctx.quick else 1500)


def case_size(case):
    if case.get("mode") == "cs":
        return (0, len(case["sizes"]), case["width"], sum(case["demands"]), len(case.get("opts") or {}))
    if case.get("mode") == "custom":
        return (1, len(case["demands"]), len(case["columns"]) + len(case["initial"]), sum(case["demands"]), len(case.get("opts") or {}))
    return (2, len(case["sizes"]), case["width"], 0, 0)


def report_violations(ctx, allv):
    """The driver prints / writes replays for the first violations only: hand them over so that every violated
    obligation comes first with its two smallest cases (default-option obligations before budget-limited ones)."""
    groups: dict[str, list] = {}
    for v in allv:
        groups.setdefault(v[0], []).append(v)
    for g in groups.values():
        g.sort(key=lambda v: (case_size(v[1]), repr(v[1])))
    names = sorted(groups, key=lambda n: ("@limited" in n, n))
    for n in names:
        for v in groups[n][:2]:
            ctx.violation(*v)
    for n in names:
        for v in groups[n][2:]:
            ctx.violation(*v)


def worker_tagged(chunk):
    out = []
    for inst in chunk:
        si = inst["_s"]
        for rec in worker([inst]):
            out.append((si,) + rec)
    return out


def oracle_selfcheck(ctx, rng, runs):
    from oracles.cutting_stock import all_patterns, check_plan, min_rolls, min_rolls_dfs
    for _ in range(runs):
        W = rng.randint(2, 10)
        n = rng.randint(1, 3)
        sizes = [rng.randint(1, W) for _ in range(n)]
        dem = [rng.randint(0, 4) for _ in range(n)]
        k, plan = min_rolls(sizes, W, dem)
        cols = [c for c in all_patterns(sizes, W) if any(c)]
        k2 = min_rolls_dfs(cols, dem)
        if k != k2 or check_plan(plan, dem, sizes, W) or sum(plan.values()) != k:
            ctx.defects.append(f"oracle self-check failed: sizes={sizes} W={W} demands={dem} bfs={k} dfs={k2} plan={plan}")
            return


# ------------------------------------------------------------------ replay
def replay(rec) -> int:
    use_repo()
    case = rec.get("case") or {}
    if case.get("mode") == "pricing":
        bad = check_pricing(case)
        print(f"case: {case}")
        for obn, detail in bad:
            print(f"  VIOLATED {obn}: {detail}")
        if not bad:
            print("  no violation")
        return 1 if bad else 0
    opt, plan = oracle_opt(case)
    o = check_case(case, opt)
    print(f"case: {case}")
    print(f"exact minimum: {opt}   witness plan: {plan}")
    print(f"call: {o['kind']} status={o['status']} seconds={o['seconds']:.3f} {o.get('what') or ''}")
    for obn, detail in o["bad"]:
        print(f"  VIOLATED {obn}: {detail}")
    if not o["bad"]:
        print("  no violation")
    return 1 if o["bad"] else 0

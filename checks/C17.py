"""C17 - cutting-stock plans of solve_cg / solve_bp meet every demand; OPTIMAL is minimal.   Bounded back end only.

Contract (taken from the property statement), for a Result r of solve_cg / solve_bp on a valid instance:
  r.status in {OPTIMAL, FEASIBLE}  ==>
    plan-wellformed   r.solution is a dict {pattern: count}; patterns are tuples of m non-negative ints, counts ints >= 1
    patterns-fit      every pattern fits in the roll (sum p_i*size_i <= width); custom mode: is a column of the problem
    demands-met       sum_pattern p_i*count >= demand_i for every piece i
    objective-is-roll-count   r.objective == sum of the counts          (|.| <= 1e-6, objective is a float)
    objective-not-below-minimum   r.objective >= OPT                    (OPT from oracles/cutting_stock.py)
    optimal-is-minimal        r.status == OPTIMAL ==> r.objective == OPT
Nothing is demanded of results with another status, of exceptions, or of calls that do not come back within the
per-call alarm (the statement speaks about returned plans only); those are counted and listed in the evidence notes.
Obligation names carry the function, '[custom]' for custom-pricing mode and '@limited(...)' when the call was given a
budget (max_iter / max_nodes / stop through on_progress), so that default-option failures can be told apart.
Round 2 (see the section 'round 2' below): width ladder (roll widths 100..5000, BFS oracle), type-count ladder (8..30
piece types, planted perfect packings, optimum certified by the volume bound), history mode (argument lists reused and edited
in place between calls, repeated calls, comparison with a fresh interpreter; extra obligation
history:same-arguments-same-answer), and the pricing lemma on the wide instances.
Lemma (DESIGN 7/C17 inner contract, needed for 'the LP value is a bound'): knapsack_pricing returns a fitting pattern
whose reported value is its dual value and no pattern is better (exhaustive comparison in exact rationals).
"""
from __future__ import annotations

import itertools
import random
import signal
import time

from vf.core import Ctx, use_repo

LEVEL = "exploration"
TOL = 1e-6
CALL_TIMEOUT = 5  # CPU seconds per solver call (ITIMER_VIRTUAL: independent of machine load, so runs are repeatable)
WALL_BACKSTOP = 300  # signal.alarm wall-clock backstop per solver call
DEFAULT_OPTS: dict = {}


class _Timeout(Exception):
    pass


def _on_alarm(signum, frame):
    raise _Timeout()


# ------------------------------------------------------------------ custom pricing over an explicit column set
def make_pricer(columns, kind):
    """Exact pricing over the explicit column set: reduced cost of column c is 1 - duals.c .
    kind 'best': most negative reduced cost (first on ties); 'first': first column with negative reduced cost;
    'last': last such column.  All three are legitimate pricing functions: they return (None, 0.0) exactly when no
    column of the set has reduced cost < -1e-7."""
    cols = [tuple(c) for c in columns]

    def price(duals):
        best, best_rc = None, -1e-7
        for c in cols:
            rc = 1.0 - sum(d * a for d, a in zip(duals, c))
            if kind == "best":
                if rc < best_rc:
                    best, best_rc = c, rc
            elif kind == "first":
                if rc < -1e-7:
                    return c, rc
            else:
                if rc < -1e-7:
                    best, best_rc = c, rc
        if best is None:
            return None, 0.0
        return best, best_rc

    return price


# ------------------------------------------------------------------ one case
def call_solver(case, live=None):
    """Run the real function on the case. Returns (kind, payload, seconds): kind in result/exception/timeout.
    live (history mode): {"demands": list, "sizes": list} or {"demands": list, "initial": list, "pricer": fn}: these very
    objects are handed to the solver (no copies), so that state kept between calls under their identity is exercised."""
    use_repo()
    from solvor.bp import solve_bp
    from solvor.cg import solve_cg
    fn = solve_bp if case["solver"] == "bp" else solve_cg
    opts = case.get("opts") or {}
    kw = {}
    if "max_iter" in opts:
        kw["max_iter"] = opts["max_iter"]
    if "max_nodes" in opts and case["solver"] == "bp":
        kw["max_nodes"] = opts["max_nodes"]
    if "stop_after" in opts:
        calls = [0]
        k = opts["stop_after"]

        def cb(progress):
            calls[0] += 1
            return calls[0] >= k

        kw["on_progress"] = cb
        kw["progress_interval"] = 1
    demands = list(case["demands"]) if live is None else live["demands"]
    if case["mode"] == "cs":
        kw["roll_width"] = case["width"]
        kw["piece_sizes"] = list(case["sizes"]) if live is None else live["sizes"]
    elif live is None:
        kw["pricing_fn"] = make_pricer(case["columns"], case.get("pricer", "best"))
        kw["initial_columns"] = [tuple(c) for c in case["initial"]]
    else:
        kw["pricing_fn"] = live["pricer"]
        kw["initial_columns"] = live["initial"]
    old = signal.signal(signal.SIGALRM, _on_alarm)
    oldv = signal.signal(signal.SIGVTALRM, _on_alarm)
    t0 = time.process_time()
    budget = float(case.get("cpu_budget", case.get("timeout", CALL_TIMEOUT)))
    # the verdict-relevant limit is the CPU budget; the wall-clock alarm only guards against a call that blocks without
    # using CPU, and is far away (a fully loaded machine gave 22 CPU s in 300 wall s)
    signal.alarm(int(max(WALL_BACKSTOP, 60 * budget)))
    signal.setitimer(signal.ITIMER_VIRTUAL, budget)
    try:
        try:
            r = fn(demands, **kw)
        finally:
            signal.setitimer(signal.ITIMER_VIRTUAL, 0)
            signal.alarm(0)
        return "result", r, time.process_time() - t0
    except _Timeout:
        return "timeout", None, time.process_time() - t0
    except Exception as e:  # noqa: BLE001
        return "exception", f"{type(e).__name__}: {e}", time.process_time() - t0
    finally:
        signal.setitimer(signal.ITIMER_VIRTUAL, 0)
        signal.alarm(0)
        signal.signal(signal.SIGALRM, old)
        signal.signal(signal.SIGVTALRM, oldv)


def oracle_opt(case):
    from oracles.cutting_stock import min_cover, min_rolls, plan_from_rolls, planted_optimum
    if case["mode"] == "cs" and case.get("planted") is not None:
        # optimum known by construction: planted plan (checked) with as many rolls as the volume bound
        plan = plan_from_rolls(case["sizes"], [(r[0], r[1]) for r in case["planted"]])
        return planted_optimum(case["sizes"], case["width"], case["demands"], plan)
    if case["mode"] == "cs":
        return min_rolls(case["sizes"], case["width"], case["demands"])
    # custom mode: the solver may legitimately use its initial columns and whatever the pricer can return
    return min_cover([tuple(c) for c in case["columns"]] + [tuple(c) for c in case["initial"]], case["demands"])


def limited(case):
    o = case.get("opts") or {}
    return ",".join(sorted(o))


def summary(kind, r):
    """JSON-friendly digest of an answer (for same-arguments-same-answer comparisons)."""
    if kind != "result":
        return [kind]
    sol = r.solution
    if isinstance(sol, dict):
        try:
            sol = sorted([list(p), c] for p, c in sol.items())
        except Exception:  # noqa: BLE001
            sol = repr(sol)
    else:
        sol = repr(sol)
    return ["result", r.status.name, repr(r.objective), sol]


def check_case(case, opt=None, live=None):
    """Evaluate the contract. Returns dict(kind, status, seconds, bad=[(obligation, detail)], usable, exact_obj)."""
    use_repo()
    from solvor.types import Status
    if opt is None:
        opt = oracle_opt(case)[0]
    kind, r, secs = call_solver(case, live)
    out = {"kind": kind, "seconds": secs, "bad": [], "usable": False, "status": None, "inexact_obj": False,
           "summary": summary(kind, r)}
    if kind != "result":
        out["what"] = r
        return out
    out["status"] = r.status.name
    if r.status not in (Status.OPTIMAL, Status.FEASIBLE):
        return out
    out["usable"] = True
    fn = "solve_bp" if case["solver"] == "bp" else "solve_cg"
    suffix = f"@limited({limited(case)})" if limited(case) else ""
    mode = "" if case["mode"] == "cs" else "[custom]"

    def ob(name):
        return f"C17/{fn}{mode}/ensures:{name}{suffix}"

    bad = out["bad"]
    demands = case["demands"]
    m = len(demands)
    sol = r.solution
    desc = f"status {r.status.name}, objective {r.objective!r}, plan {sol!r}, exact minimum {opt}"
    if not isinstance(sol, dict):
        bad.append((ob("plan-wellformed"), f"solution is {type(sol).__name__}; {desc}"))
        return out
    wf = True
    for pat, cnt in sol.items():
        if not (isinstance(pat, tuple) and len(pat) == m and all(isinstance(a, int) and not isinstance(a, bool) and a >= 0 for a in pat)):
            bad.append((ob("plan-wellformed"), f"pattern {pat!r} is not a tuple of {m} non-negative ints; {desc}"))
            wf = False
        elif not (isinstance(cnt, int) and not isinstance(cnt, bool) and cnt >= 1):
            bad.append((ob("plan-wellformed"), f"count {cnt!r} of pattern {pat!r} is not a positive int; {desc}"))
            wf = False
    if not wf:
        return out
    if case["mode"] == "cs":
        for pat in sol:
            used = sum(a * s for a, s in zip(pat, case["sizes"]))
            if used > case["width"]:
                bad.append((ob("patterns-fit"), f"pattern {pat} uses {used} > roll width {case['width']}; {desc}"))
    else:
        cs = {tuple(c) for c in case["columns"]} | {tuple(c) for c in case["initial"]}
        for pat in sol:
            if pat not in cs:
                bad.append((ob("patterns-fit"), f"pattern {pat} is neither an initial column nor a column of the pricing set; {desc}"))
    for i in range(m):
        prod = sum(p[i] * c for p, c in sol.items())
        if prod < demands[i]:
            bad.append((ob("demands-met"), f"piece {i}: produced {prod} < demand {demands[i]}; {desc}"))
            break
    total = sum(sol.values())
    obj = r.objective
    if not isinstance(obj, (int, float)) or obj != obj or abs(obj - total) > TOL:
        bad.append((ob("objective-is-roll-count"), f"objective {obj!r} but the plan uses {total} rolls; {desc}"))
    else:
        out["inexact_obj"] = obj != total
        if obj < opt - TOL:
            bad.append((ob("objective-not-below-minimum"), f"objective {obj!r} < exact minimum {opt}; {desc}"))
        if r.status == Status.OPTIMAL and abs(obj - opt) > TOL:
            bad.append((ob("optimal-is-minimal"), f"status OPTIMAL with {obj!r} rolls but {opt} rolls suffice; {desc}"))
    return out


def worker(chunk):
    """chunk: list of instance dicts (without 'solver'); each is run through the listed solvers."""
    res = []
    for inst in chunk:
        opt = oracle_opt(inst)[0]
        for solver in inst.get("solvers", ("cg", "bp")):
            case = {k: v for k, v in inst.items() if k not in ("solvers", "bp_opts")}
            case["solver"] = solver
            if solver == "bp" and inst.get("bp_opts"):
                case["opts"] = dict(inst["bp_opts"])
            o = check_case(case, opt)
            res.append((case, opt, o["kind"], o["status"], o["usable"], round(o["seconds"], 4), o["bad"], o.get("what"), o["inexact_obj"]))
    return res


# ------------------------------------------------------------------ generators
def multisets(lo, hi, n):
    return itertools.combinations_with_replacement(range(lo, hi + 1), n)


def gen_exhaustive(quick):
    """Every cutting-stock instance of the listed boxes, default options, both solvers.  Two piece types: every ordered
    pair of sizes; one / three piece types: every multiset of sizes, written in non-increasing order (as the
    repository's own examples are)."""
    out = []
    if quick:
        plan = [(1, range(1, 9), 6, False), (2, range(1, 8), 3, True), (3, range(1, 5), 2, False)]
    else:
        plan = [(1, range(1, 11), 8, False), (2, range(1, 11), 5, True), (3, range(1, 9), 3, False), (3, range(9, 11), 2, False)]
    desc = []
    for n, widths, dmax, ordered in plan:
        cnt = 0
        for W in widths:
            hi = min(8, W)
            if ordered:
                tuples = [list(t) for t in itertools.product(range(1, hi + 1), repeat=n)]
            else:
                tuples = [list(reversed(ms)) for ms in multisets(1, hi, n)]
            for sizes in tuples:
                for dem in itertools.product(range(dmax + 1), repeat=n):
                    out.append({"mode": "cs", "sizes": sizes, "width": W, "demands": list(dem)})
                    cnt += 1
        desc.append({"pieces": n, "widths": f"{widths[0]}..{widths[-1]}",
                     "sizes": "1..min(8,width), " + ("all ordered tuples" if ordered else "all multisets (non-increasing order)"),
                     "demands": f"0..{dmax} each", "instances": cnt})
    return out, desc


def rand_cs(rng):
    """Seeded random cutting stock, ordered size tuples, aimed at ties/duplicates/degenerate shapes."""
    shape = rng.randrange(10)
    W = rng.randint(2, 12)
    n = rng.randint(1, 4)
    if shape == 0:      # all sizes equal (duplicate piece types: ties everywhere)
        s = rng.randint(1, W)
        sizes = [s] * n
    elif shape == 1:    # one piece per roll for some types
        sizes = [rng.choice([W, W, max(1, W - 1), rng.randint(1, W)]) for _ in range(n)]
    elif shape == 2:    # unit pieces and divisors of the width (LP is integral/degenerate)
        divs = [d for d in range(1, W + 1) if W % d == 0]
        sizes = [rng.choice(divs) for _ in range(n)]
    elif shape == 3:    # sizes just above width/2, width/3 (classic rounding gaps)
        sizes = [min(W, rng.choice([W // 2 + 1, W // 3 + 1, W // 2, max(1, W // 3)])) for _ in range(n)]
        sizes = [max(1, x) for x in sizes]
    else:
        sizes = [rng.randint(1, W) for _ in range(n)]
    dk = rng.randrange(6)
    if dk == 0:
        dem = [1] * n                                   # bin packing
    elif dk == 1:
        dem = [rng.choice([0, 0, 1, rng.randint(0, 6)]) for _ in range(n)]   # zeros
    elif dk == 2:
        d = rng.randint(1, 6)
        dem = [d] * n                                   # equal demands
    elif dk == 3:
        # multiples of the per-roll count, +-1: LP values k +- 1/per, branching bounds that make a demand row tight
        dem = []
        for sz in sizes:
            per = W // sz
            k = rng.randint(0, 3)
            dem.append(max(0, min(9, rng.choice([per, per * k + 1, per * k - 1, per * k, per * k + 1]))))
    else:
        dem = [rng.randint(0, 6) for _ in range(n)]
    if n == 4:  # keep the oracle's state space small
        dem = [min(d, 4) for d in dem]
    return {"mode": "cs", "sizes": sizes, "width": W, "demands": dem}


def rand_opts(rng, solver_hint=None):
    k = rng.randrange(4)
    if k == 0:
        return {"max_iter": rng.choice([0, 1, 1, 2, 3])}
    if k == 1:
        return {"max_nodes": rng.choice([0, 1, 2, 3, 5])}
    if k == 2:
        return {"stop_after": rng.choice([1, 1, 2, 3, 4])}
    return {"max_iter": rng.choice([1, 2, 4]), "max_nodes": rng.choice([1, 2, 4])}


def rand_custom(rng):
    """Custom pricing over an explicit column set."""
    from oracles.cutting_stock import all_patterns, maximal_patterns
    kind = rng.randrange(5)
    m = rng.randint(1, 3)
    if kind <= 1:
        # the column set of a cutting-stock instance (all patterns or the maximal ones), single-piece initial columns
        W = rng.randint(2, 9)
        sizes = [rng.randint(1, W) for _ in range(m)]
        cols = all_patterns(sizes, W) if kind == 0 else maximal_patterns(sizes, W)
        cols = [c for c in cols if any(c)]
        rng.shuffle(cols)
        initial = [tuple((W // sizes[j]) if i == j else 0 for i in range(m)) for j in range(m)]
        if rng.random() < 0.3:
            initial = [tuple(1 if i == j else 0 for i in range(m)) for j in range(m)]
    else:
        ncol = rng.randint(1, 6)
        hi = rng.choice([1, 2, 3])
        cols = []
        for _ in range(ncol):
            c = tuple(rng.randint(0, hi) for _ in range(m))
            cols.append(c)
        if kind == 2:
            # initial = unit columns (always feasible), set may or may not contain them
            initial = [tuple(1 if i == j else 0 for i in range(m)) for j in range(m)]
            if rng.random() < 0.5:
                cols += initial
        elif kind == 3:
            # initial = a prefix of the set (may be infeasible alone, may contain duplicates / the zero column)
            k = rng.randint(1, len(cols))
            initial = cols[:k]
            if rng.random() < 0.3:
                initial = initial + [initial[0]]
        else:
            initial = [tuple(max(c[i] for c in cols) if i == j else 0 for i in range(m)) for j in range(m)]
            initial = [c for c in initial if any(c)] or [cols[0]]
            cols = cols + initial
    dk = rng.randrange(4)
    if dk == 0:
        dem = [1] * m
    elif dk == 1:
        dem = [rng.choice([0, 1, rng.randint(0, 5)]) for _ in range(m)]
    else:
        dem = [rng.randint(0, 5) for _ in range(m)]
    return {"mode": "custom", "columns": [list(c) for c in cols], "initial": [list(c) for c in initial], "demands": dem,
            "pricer": rng.choice(["best", "best", "first", "last"])}


def chunks(lst, size):
    return [lst[i:i + size] for i in range(0, len(lst), size)]


# ------------------------------------------------------------------ round 2: width ladder, type-count ladder, history mode
# Families aimed at what small-scope enumeration cannot reach: code paths that depend on the SIZE of the roll width
# (DP tables, scaling), on the NUMBER of piece types (long degenerate column-generation runs), and on state kept between
# calls.  Verdicts come from exact or certifying oracles only: BFS over patterns where the instance has few types and
# small demands (width ladder), optimum-by-construction (planted perfect packing + volume bound) where it has many.
FIT_SHAPES = {2: [(1, 1), (2,)], 3: [(1, 1, 1), (2, 1), (1, 2), (3,)],
              4: [(1, 1, 1, 1), (2, 1, 1), (1, 1, 2), (2, 2), (3, 1), (1, 3), (4,)]}
WIDTHS_QUICK = [100, 128, 250, 256, 499, 500, 501, 511, 512, 513, 520, 600, 640, 700, 800, 900, 999, 1000, 1001, 1023, 1024,
                1025, 1100]
WIDTHS_QUICK_WIDE = [2048, 4096]          # a few instances with <= 3 piece types
WIDTHS_FULL = WIDTHS_QUICK + [505, 550, 625, 750, 1200, 1500, 2000, 2047, 2048, 2049, 2500, 3000, 4095, 4096, 4097, 5000]
BP_NODE_LIMIT = 30           # solve_bp on planted instances whose root LP is fractional (triples, mixed rolls)
LADDER_BUDGET_QUICK = 40     # CPU seconds per call (unchanged tree: <= 2 s on the quick instances)
LADDER_BUDGET_FULL = 200     # (unchanged tree: <= 10 s at width 4096..5000)


def plant_fit(rng, W, shape, taken, lo):
    """Distinct sizes (one per entry of `shape`, none in `taken`, each in lo..W) with sum shape_j*size_j == W exactly:
    a zero-trim pattern of sum(shape) pieces.  None when the draw fails."""
    p, t = sum(shape), len(shape)
    base = W // p
    spread = rng.choice([1, 2, 3, 5, max(1, W // 100), max(1, W // 25), max(1, W // 10)])
    for _ in range(60):
        ss = [base + rng.randint(-spread, spread) for _ in range(t - 1)]
        rest = W - sum(c * x for c, x in zip(shape, ss))
        if rest <= 0 or rest % shape[-1]:
            continue
        ss.append(rest // shape[-1])
        if min(ss) < lo or max(ss) > W or len(set(ss)) < t or set(ss) & taken:
            continue
        return ss
    return None


def width_instance(rng, W, nmax=5):
    """Few piece types (2..nmax), sizes >= W/8 (W/6 from 4 types on), one or more planted zero-trim patterns of 2..4
    pieces (also patterns sharing types: complement of two pieces, of one piece, of twice a piece), demands = small
    multiples of planted patterns (+ sometimes a few extra pieces), capped so that the BFS oracle stays small."""
    for _ in range(300):
        n = rng.randint(2, nmax)
        lo = max(1, W // (8 if n <= 3 else 6))
        p1 = rng.choice([2, 3, 3, 3, 4, 4])
        sh = rng.choice([x for x in FIT_SHAPES[p1] if len(x) <= n])
        ss = plant_fit(rng, W, sh, set(), lo)
        if ss is None:
            continue
        sizes = list(ss)
        fits = [(list(range(len(ss))), sh)]
        ok = True
        while ok and len(sizes) < n:
            r = n - len(sizes)
            k = rng.randrange(4)
            if k == 0:
                sh2 = rng.choice([x for q in (2, 3, 4) for x in FIT_SHAPES[q] if len(x) <= r])
                s2 = plant_fit(rng, W, sh2, set(sizes), lo)
                if s2 is None:
                    ok = False
                else:
                    fits.append((list(range(len(sizes), len(sizes) + len(s2))), sh2))
                    sizes += s2
            elif k == 1 and len(sizes) >= 2:
                a, b = rng.sample(range(len(sizes)), 2)
                c = W - sizes[a] - sizes[b]
                if c < lo or c in sizes:
                    ok = False
                else:
                    fits.append(([a, b, len(sizes)], (1, 1, 1)))
                    sizes.append(c)
            elif k == 2:
                a = rng.randrange(len(sizes))
                mult = rng.choice([1, 2])
                c = W - mult * sizes[a]
                if c < lo or c in sizes:
                    ok = False
                else:
                    fits.append(([a, len(sizes)], (mult, 1)))
                    sizes.append(c)
            else:
                c = rng.randint(lo, W)
                if c in sizes:
                    ok = False
                else:
                    sizes.append(c)
        if not ok:
            continue
        dmax = {2: 6, 3: 6, 4: 4}.get(n, 3)
        dem = [0] * n
        chosen = [f for f in fits if rng.random() < 0.7] or [fits[0]]
        for idx, shp in chosen:
            k = rng.randint(1, 3)
            for i, c in zip(idx, shp):
                dem[i] += k * c
        pure = True
        if rng.random() < 0.4:
            pure = False
            for _x in range(rng.randint(1, 2)):
                dem[rng.randrange(n)] += rng.randint(1, 2)
        if any(d > dmax for d in dem):
            pure = False
        dem = [min(d, dmax) for d in dem]
        perm = list(range(n))
        rng.shuffle(perm)
        return {"mode": "cs", "sizes": [sizes[i] for i in perm], "width": W, "demands": [dem[i] for i in perm],
                "family": "width-ladder" + ("/pure" if pure else "")}
    return None


def gen_width_ladder(rng, quick):
    out = []
    if quick:
        for W in WIDTHS_QUICK:
            for _ in range(3 if W <= 500 else 5):
                out.append(width_instance(rng, W))
        for W in WIDTHS_QUICK_WIDE:
            for _ in range(2):
                out.append(width_instance(rng, W, nmax=3))
    else:
        for W in WIDTHS_FULL:
            cnt = 16 if W <= 1100 else (8 if W <= 2100 else 5)
            for _ in range(cnt):
                out.append(width_instance(rng, W, nmax=5 if W <= 2100 else 4))
    out = [x for x in out if x is not None]
    for x in out:
        x["cpu_budget"] = LADDER_BUDGET_QUICK if quick else LADDER_BUDGET_FULL
    return out


TYPE_FAMILIES = ("pairs", "pairs-demands", "triples", "mixed-distinct", "mixed-shared")


def planted_rolls(rng, W, k, family, types=None, frac=6):
    """k rolls (or, with `types`, as many rolls as it takes to have that many distinct sizes), each filled EXACTLY by
    2..4 pieces, every piece longer than W/frac (frac 3: a roll holds at most two pieces - bin packing seen as cutting
    stock; frac 4: at most three; ...).  pairs*: one piece > W/2 plus its complement; triples: 3 pieces; mixed-*: 2..4
    pieces.  pairs/triples/mixed-distinct: all sizes distinct and every roll cut once (demand 1); pairs-demands: every
    roll cut 1..3 times; mixed-shared: pieces are re-used between rolls (small demands add up)."""
    lo = max(2, W // frac + 1)
    rolls, used, pool = [], set(), []
    distinct = family != "mixed-shared"
    for _ in range(k if types is None else 10 * types):
        if types is not None and len(used) >= types:
            break
        for _try in range(600):
            if family.startswith("pairs"):
                p = 2
            elif family == "triples":
                p = 3
            else:
                p = rng.choice([q for q in (2, 2, 3, 3, 4) if q * lo <= W])
            if p == 2 and distinct:
                if W - lo < W // 2 + 1:
                    return None
                a = rng.randint(W // 2 + 1, W - lo)
                roll = [a, W - a]
            elif distinct:
                if p * lo > W:
                    return None
                # p pieces >= lo summing to W: lo each plus a random composition of the rest
                rest = W - p * lo
                cuts = sorted(rng.randint(0, rest) for _c in range(p - 1))
                roll = [lo + (y - x) for x, y in zip([0] + cuts, cuts + [rest])]
            else:
                roll = [rng.choice(pool) if pool and rng.random() < 0.6 else rng.randint(lo, W - lo) for _ in range(p - 1)]
                roll.append(W - sum(roll))
            if min(roll) < lo:
                continue
            if distinct and (len(set(roll)) < p or set(roll) & used):
                continue
            break
        else:
            return None
        used |= set(roll)
        pool += [x for x in roll if x not in pool]
        mult = rng.randint(1, 3) if family == "pairs-demands" else (rng.randint(1, 2) if family == "mixed-shared" else 1)
        rolls.append([roll, mult])
    return rolls


def instance_from_rolls(rolls, W, order, rng, family):
    sizes = sorted({x for r, _ in rolls for x in r})
    if order == "desc":
        sizes.reverse()
    elif order == "shuffled":
        rng.shuffle(sizes)
    idx = {x: i for i, x in enumerate(sizes)}
    dem = [0] * len(sizes)
    for r, mult in rolls:
        for x in r:
            dem[idx[x]] += mult
    return {"mode": "cs", "sizes": sizes, "width": W, "demands": dem, "planted": [[list(r), m] for r, m in rolls],
            "family": f"type-ladder/{family}/{order}"}


def type_instance(rng, family, ntypes, W, frac=6):
    """Planted perfect packing with about `ntypes` piece types (exactly, for the distinct families), pieces > W/frac."""
    per = 2 if family.startswith("pairs") else 3
    for _ in range(50):
        if family.startswith("mixed"):
            rolls = planted_rolls(rng, W, 0, family, types=ntypes, frac=frac)  # rolls are added until the type count is reached
        else:
            rolls = planted_rolls(rng, W, max(2, -(-ntypes // per)), family, frac=frac)
        if rolls is None:
            continue
        inst = instance_from_rolls(rolls, W, rng.choice(["asc", "asc", "desc", "shuffled"]), rng, family)
        inst["family"] += f"/pieces>width/{frac}"
        return inst
    return None


def gen_type_ladder(rng, quick):
    """plan rows: (family, type counts, [(width, frac), ...] cycled over the type counts (quick) / all (thorough), repetitions)"""
    out = []
    if quick:
        plan = [("pairs", tuple(range(8, 31, 2)), [(128, 3)], 1),
                ("pairs", (10, 16, 20, 26, 30), [(80, 4), (100, 6)], 1),
                ("pairs-demands", (8, 12, 16, 20, 24), [(128, 3), (64, 6), (100, 4)], 1),
                ("triples", (9, 15, 21), [(200, 4), (100, 6)], 1),
                ("mixed-distinct", (8, 14, 20, 26), [(100, 6), (128, 5)], 1),
                ("mixed-shared", (8, 12, 16, 20), [(60, 6), (100, 4)], 1)]
        cycle = True
    else:
        plan = [("pairs", tuple(range(8, 31, 2)), [(100, 3), (128, 3), (200, 3), (80, 4), (127, 4), (60, 6), (100, 6), (257, 5)], 1),
                ("pairs-demands", tuple(range(8, 31, 2)), [(128, 3), (200, 3), (80, 4), (64, 6), (128, 6)], 1),
                ("triples", (9, 12, 15, 18, 21, 24, 27, 30), [(200, 4), (300, 4), (100, 6), (127, 6), (128, 5)], 1),
                ("mixed-distinct", tuple(range(8, 31, 2)), [(100, 6), (128, 5), (200, 5), (300, 4)], 1),
                ("mixed-shared", tuple(range(8, 31, 2)), [(60, 6), (100, 4), (128, 5), (200, 6)], 1)]
        cycle = False
    for family, counts, wf, reps in plan:
        for j, nt in enumerate(counts):
            for W, frac in ([wf[j % len(wf)]] if cycle else wf):
                for _ in range(reps):
                    inst = type_instance(rng, family, nt, W, frac)
                    if inst is not None:
                        inst["cpu_budget"] = LADDER_BUDGET_QUICK if quick else LADDER_BUDGET_FULL
                        if not family.startswith("pairs") and not (not quick and len(inst["sizes"]) <= 10):
                            # fractional root LP: default solve_bp walks through its 10 000 nodes (measured 415 CPU s at 18 types,
                            # answer FEASIBLE); the call is made with a node limit instead and the obligation says so
                            inst["bp_opts"] = {"max_nodes": BP_NODE_LIMIT}
                        out.append(inst)
    return out


def est_cost(inst):
    """Rough cost rank (bigger first in the pool): width x types x pieces per roll."""
    if inst.get("mode") != "cs":
        return 0
    return inst["width"] * sum(inst["width"] // s for s in inst["sizes"]) * len(inst["sizes"])


# ---- history mode
def assign_in_place(dst, src):
    """Make list `dst` equal to `src` by element assignments / append / del on the SAME list object."""
    for i in range(min(len(dst), len(src))):
        if dst[i] != src[i]:
            dst[i] = src[i]
    if len(dst) > len(src):
        del dst[len(src):]
    else:
        dst.extend(src[len(dst):])


def make_live_pricer(cols, kind):
    """Like make_pricer, but reads the list object `cols` at every call (the list is edited between solver calls)."""
    def price(duals):
        return make_pricer(list(cols), kind)(duals)
    return price


def edit_cs(rng, inst):
    """A small edit of a small cutting-stock instance (result is again inside the quantifier)."""
    sizes, dem, W = list(inst["sizes"]), list(inst["demands"]), inst["width"]
    n = len(sizes)
    k = rng.randrange(7)
    if k == 0 or n == 0:
        if n < 4:
            sizes.append(rng.randint(1, W))
            dem.append(rng.randint(0, 4))
        else:
            dem[rng.randrange(n)] = rng.randint(0, 4)
    elif k == 1:
        dem[rng.randrange(n)] = rng.randint(0, 6 if n < 4 else 4)
    elif k == 2 and n > 1:
        i = rng.randrange(n)
        del sizes[i], dem[i]
    elif k == 3 and n > 1:
        i, j = rng.sample(range(n), 2)
        sizes[i], sizes[j] = sizes[j], sizes[i]
        dem[i], dem[j] = dem[j], dem[i]
    elif k == 4:
        W = max(max(sizes), min(16, W + rng.choice([-2, -1, 1, 2, 3])))
    elif k == 5:
        sizes[rng.randrange(n)] = rng.randint(1, W)
    else:
        dem = [min(d + 1, 6 if n < 4 else 4) for d in dem]
    return {"mode": "cs", "sizes": sizes, "width": W, "demands": dem}


def edit_custom(rng, inst):
    cols = [list(c) for c in inst["columns"]]
    ini = [list(c) for c in inst["initial"]]
    dem = list(inst["demands"])
    m = len(dem)
    k = rng.randrange(5)
    if k == 0:
        cols.append([rng.randint(0, 3) for _ in range(m)])
    elif k == 1 and len(cols) > 1:
        del cols[rng.randrange(len(cols))]
    elif k == 2:
        dem[rng.randrange(m)] = rng.randint(0, 5)
    elif k == 3:
        c = cols[rng.randrange(len(cols))]
        c[rng.randrange(m)] = rng.randint(0, 3)
    else:
        ini.append([rng.randint(0, 2) for _ in range(m)])
    return {"mode": "custom", "columns": cols, "initial": ini, "demands": dem}


CALL_PLANS = (["cg"], ["bp"], ["cg", "bp"], ["bp", "bp"], ["cg", "cg"], ["bp", "cg"])


def gen_histories(rng, quick):
    """Histories: a list of steps {inst, calls}; the argument lists of the first step are created once and edited in
    place to every later instance; the last step always repeats its last call."""
    out = []

    def finish(kind, steps, budget, family, pricer=None):
        for st in steps:
            st["calls"] = list(rng.choice(CALL_PLANS))
        last = steps[-1]["calls"]
        last.append(last[-1])
        h = {"mode": "history", "kind": kind, "steps": steps, "cpu_budget": budget, "family": family}
        if pricer:
            h["pricer"] = pricer
        out.append(h)

    # (1) small instances with the BFS oracle, 3..6 edits
    for _ in range(120 if quick else 1500):
        inst = rand_cs(rng)
        steps = [{"inst": inst}]
        for _e in range(rng.randint(2, 5)):
            inst = edit_cs(rng, inst)
            steps.append({"inst": inst})
        finish("cs", steps, 3 if quick else CALL_TIMEOUT, "small-edits")
    # (2) custom pricing: the column list read by the (one) pricing function, the initial-column list and the demands are edited
    for _ in range(60 if quick else 800):
        inst = rand_custom(rng)
        pricer = inst.pop("pricer")
        steps = [{"inst": inst}]
        for _e in range(rng.randint(2, 4)):
            inst = edit_custom(rng, inst)
            steps.append({"inst": inst})
        finish("custom", steps, 3 if quick else CALL_TIMEOUT, "custom-edits", pricer)
    # (3) planted perfect packings with many types: rolls dropped / added / all counts doubled / types reversed
    for _ in range(8 if quick else 80):
        W = rng.choice([100, 128])
        fam = rng.choice(["pairs", "pairs", "pairs", "triples", "mixed-distinct"])
        frac = rng.choice([3, 3, 4, 6]) if fam == "pairs" else 6
        rolls = planted_rolls(rng, W, rng.randint(4, 9 if fam == "pairs" else 6), fam, frac=frac)
        if rolls is None:
            continue
        order = rng.choice(["asc", "desc", "shuffled"])
        steps = [{"inst": instance_from_rolls(rolls, W, order, rng, fam)}]
        for _e in range(rng.randint(2, 3)):
            k = rng.randrange(4)
            rolls = [[list(r), m] for r, m in rolls]
            if k == 0 and len(rolls) > 2:
                del rolls[rng.randrange(len(rolls))]
            elif k == 1:
                extra = planted_rolls(rng, W, 1, fam, frac=frac)
                if extra and not (set(extra[0][0]) & {x for r, _ in rolls for x in r}):
                    rolls.append(extra[0])
            elif k == 2:
                rolls = [[r, 2 * m] for r, m in rolls] if max(m for _, m in rolls) <= 2 else rolls
            else:
                rolls.reverse()
                order = {"asc": "desc", "desc": "asc"}.get(order, order)
            steps.append({"inst": instance_from_rolls(rolls, W, order, rng, fam)})
        finish("cs", steps, LADDER_BUDGET_QUICK if quick else LADDER_BUDGET_FULL, "planted-rolls-edited")
        if fam != "pairs":
            out[-1]["bp_opts"] = {"max_nodes": 10}
    # (4) wide rolls: independent width-ladder instances written one after the other into the same lists
    for _ in range(6 if quick else 60):
        Ws = [rng.choice([w for w in WIDTHS_QUICK if w >= 499]) for _x in range(rng.randint(2, 3))]
        if rng.random() < 0.5:
            Ws = [Ws[0]] * len(Ws)
        steps = []
        for W in Ws:
            inst = width_instance(rng, W, nmax=4)
            if inst is not None:
                steps.append({"inst": inst})
        if len(steps) >= 2:
            finish("cs", steps, LADDER_BUDGET_QUICK if quick else LADDER_BUDGET_FULL, "wide-rolls-rewritten")
    return out


def run_history(hist, want_last=False):
    """Execute a history in this process.  Returns (records, last) with records = list of
    (step index, call index, snapshot case, opt, check_case output, detail of a same-arguments-different-answer event or None)."""
    kind = hist["kind"]
    live = None
    recs = []
    last = None
    mutated = 0
    for si, step in enumerate(hist["steps"]):
        inst = {k: v for k, v in step["inst"].items() if k != "family"}
        if kind == "cs":
            if live is None:
                live = {"demands": list(inst["demands"]), "sizes": list(inst["sizes"])}
        else:
            inst = dict(inst, pricer=hist.get("pricer", "best"))
            if live is None:
                live = {"demands": list(inst["demands"]), "initial": [tuple(c) for c in inst["initial"]],
                        "columns": [tuple(c) for c in inst["columns"]]}
                live["pricer"] = make_live_pricer(live["columns"], inst["pricer"])
        opt = oracle_opt(inst)[0]
        seen = {}
        for ci, solver in enumerate(step["calls"]):
            # (re)write the instance into the SAME objects: the edit between calls, and the repair of anything a
            # previous call may have done to its arguments (counted)
            before = repr(sorted((k, v) for k, v in live.items() if k != "pricer"))
            assign_in_place(live["demands"], list(inst["demands"]))
            if kind == "cs":
                assign_in_place(live["sizes"], list(inst["sizes"]))
            else:
                assign_in_place(live["initial"], [tuple(c) for c in inst["initial"]])
                assign_in_place(live["columns"], [tuple(c) for c in inst["columns"]])
            if ci > 0 and before != repr(sorted((k, v) for k, v in live.items() if k != "pricer")):
                mutated += 1
            snap = dict(inst, solver=solver, cpu_budget=hist.get("cpu_budget", CALL_TIMEOUT))
            if solver == "bp" and hist.get("bp_opts"):
                snap["opts"] = dict(hist["bp_opts"])
            o = check_case(snap, opt, live)
            diff = None
            if solver in seen and seen[solver] != o["summary"] and "timeout" not in (seen[solver][0], o["summary"][0]):
                diff = f"call {ci} of step {si} answers {o['summary']}, the same call just before answered {seen[solver]}"
            seen[solver] = o["summary"]
            recs.append((si, ci, snap, opt, o, diff))
            last = (snap, o["summary"])
    if want_last:
        return recs, last, mutated
    return recs


def hist_prefix(hist, si, ci):
    steps = [dict(st) for st in hist["steps"][:si + 1]]
    steps[-1] = dict(steps[-1], calls=list(steps[-1]["calls"][:ci + 1]))
    return dict(hist, steps=steps)


def fn_name(snap):
    return ("solve_bp" if snap["solver"] == "bp" else "solve_cg") + ("" if snap["mode"] == "cs" else "[custom]")


def fresh_process(snaps):
    """The answers of a NEW interpreter (same tree) to the listed single calls."""
    import json
    import os
    import subprocess
    import sys
    from vf.core import VERIF
    if not snaps:
        return []
    p = subprocess.run([sys.executable, "-m", "checks.C17", "--fresh"], input=json.dumps(snaps), capture_output=True, text=True,
                       cwd=VERIF, env=dict(os.environ))
    if p.returncode != 0:
        raise RuntimeError("fresh-process helper failed: " + p.stderr[-600:])
    return json.loads(p.stdout)


def fresh_main():
    import json
    import sys
    snaps = json.loads(sys.stdin.read())
    out = []
    for snap in snaps:
        kind, r, _ = call_solver(snap)
        out.append(summary(kind, r))
    print(json.dumps(out))


def history_worker(chunk):
    """chunk: list of histories -> dict of counters + violations."""
    acc = {"histories": 0, "calls": 0, "usable": 0, "viol": [], "repeated_compared": 0, "fresh_compared": 0, "defects": [],
           "arguments_modified_by_solver": 0, "timeouts": 0, "exceptions": 0, "keys": [], "cpu": 0.0, "by_family": {}}
    lasts = []
    for hist in chunk:
        acc["histories"] += 1
        fam = acc["by_family"].setdefault(hist.get("family", "?"), {"histories": 0, "calls": 0, "usable": 0, "violating_calls": 0})
        fam["histories"] += 1
        try:
            recs, last, mutated = run_history(hist, want_last=True)
        except Exception as e:  # noqa: BLE001  (oracle / generator trouble: a checker defect, not a verdict)
            acc["defects"].append(f"history {hist.get('family')}: {type(e).__name__}: {e}")
            continue
        acc["arguments_modified_by_solver"] += mutated
        for si, ci, snap, opt, o, diff in recs:
            acc["calls"] += 1
            fam["calls"] += 1
            acc["cpu"] += o["seconds"]
            if o["kind"] == "timeout":
                acc["timeouts"] += 1
            elif o["kind"] == "exception":
                acc["exceptions"] += 1
            if o["usable"]:
                acc["usable"] += 1
                fam["usable"] += 1
                if any(d > 0 for d in snap["demands"]) and si > 0:
                    acc["keys"].append(repr((hist.get("family"), sorted((k, repr(v)) for k, v in hist_prefix(hist, si, ci).items()))))
            if ci > 0:
                acc["repeated_compared"] += 1
            case = hist_prefix(hist, si, ci)
            if o["bad"] or diff:
                fam["violating_calls"] += 1
            for obn, detail in o["bad"]:
                acc["viol"].append((obn, case, f"history step {si} call {ci} ({snap['solver']}): " + detail))
            if diff:
                acc["viol"].append((f"C17/{fn_name(snap)}/history:same-arguments-same-answer", case, diff))
        if last is not None and last[1][0] == "result":
            lasts.append((hist, last))
    try:
        answers = fresh_process([snap for _h, (snap, _s) in lasts])
        for (hist, (snap, here)), there in zip(lasts, answers):
            if there[0] != "result":
                continue
            acc["fresh_compared"] += 1
            if here != there:
                acc["viol"].append((f"C17/{fn_name(snap)}/history:same-arguments-same-answer", dict(hist, fresh=True),
                                    f"last call of the history answers {here}; a fresh interpreter answers {there} to the same arguments"))
    except Exception as e:  # noqa: BLE001
        acc["defects"].append(f"fresh-process comparison not run: {e}")
    return acc


# ---- lemma on the ladder: knapsack_pricing on wide rolls against exhaustive enumeration
def pricing_ladder_worker(chunk):
    use_repo()
    from fractions import Fraction
    from oracles.cutting_stock import all_patterns
    from solvor.utils.pricing import knapsack_pricing
    out = []
    for sizes, W, dual_list in chunk:
        pats = all_patterns(sizes, W)
        for duals in dual_list:
            fr = [Fraction(a, b) for a, b in duals]
            best = max(sum(f * q for f, q in zip(fr, pat)) for pat in pats)
            case = {"mode": "pricing", "sizes": list(sizes), "width": W, "duals": [list(d) for d in duals]}
            out.append((case, best > 1, check_pricing(case, knapsack_pricing, best)))
    return out


def gen_pricing_ladder(rng, insts, per):
    """Dual vectors for wide instances: grid values, 1/p on every type, size/width (the LP duals of a perfect packing:
    every zero-trim pattern has value exactly 1), and size/width scaled up by 1/64 (zero-trim patterns just above 1)."""
    items = []
    for inst in insts:
        sizes, W = inst["sizes"], inst["width"]
        n = len(sizes)
        cands = [[rng.choice(DUAL_GRID_FULL) for _ in range(n)] for _ in range(2)]
        p = rng.choice([2, 3, 4])
        cands.append([(1, p)] * n)
        cands.append([(s, W) for s in sizes])
        cands.append([(65 * s, 64 * W) for s in sizes])
        rng.shuffle(cands)
        items.append((list(sizes), W, [[tuple(d) for d in c] for c in cands[:per]]))
    return items


# ------------------------------------------------------------------ lemma: knapsack pricing is exact
# The LP value is a lower bound on the number of rolls only if pricing really proves that no pattern has reduced
# cost < 0 (DESIGN 7/C17 inner contract).  A pricing routine that overlooks patterns makes column generation stop early,
# and 'OPTIMAL' is then derived from a number that is not a bound; at top level this shows only on the rare instances
# where the rounded-up wrong bound differs from the right one, so the lemma is checked directly as well.
DUAL_GRID_QUICK = ((0, 1), (1, 4), (1, 3), (1, 2), (1, 1))
DUAL_GRID_FULL = ((0, 1), (1, 6), (1, 4), (1, 3), (1, 2), (2, 3), (1, 1))


def pricing_worker(chunk):
    use_repo()
    from fractions import Fraction
    from oracles.cutting_stock import all_patterns
    from solvor.utils.pricing import knapsack_pricing
    out = []
    for sizes, W, grid in chunk:
        pats = all_patterns(sizes, W)
        for duals in itertools.product(grid, repeat=len(sizes)):
            fr = [Fraction(a, b) for a, b in duals]
            vals = [a / b for a, b in duals]
            best = max(sum(f * q for f, q in zip(fr, pat)) for pat in pats)
            case = {"mode": "pricing", "sizes": list(sizes), "width": W, "duals": [list(d) for d in duals]}
            bad = check_pricing(case, knapsack_pricing, best)
            out.append((case, best > 1, bad))
    return out


def check_pricing(case, knapsack_pricing=None, best=None):
    from fractions import Fraction
    if knapsack_pricing is None:
        use_repo()
        from solvor.utils.pricing import knapsack_pricing
    sizes, W = case["sizes"], case["width"]
    fr = [Fraction(a, b) for a, b in case["duals"]]
    vals = [a / b for a, b in case["duals"]]
    if best is None:
        from oracles.cutting_stock import all_patterns
        best = max(sum(f * q for f, q in zip(fr, pat)) for pat in all_patterns(sizes, W))
    bad = []
    try:
        pat, val = knapsack_pricing(list(sizes), W, vals, 1e-9)
    except Exception as e:  # noqa: BLE001
        return [("C17/knapsack_pricing/lemma:returns", f"{type(e).__name__}: {e}")]
    desc = f"returned pattern {pat!r} value {val!r}; best pattern value is {best} = {float(best):.6f}"
    if not (isinstance(pat, tuple) and len(pat) == len(sizes) and all(isinstance(a, int) and a >= 0 for a in pat)):
        return [("C17/knapsack_pricing/lemma:pattern-wellformed", desc)]
    if sum(a * sz for a, sz in zip(pat, sizes)) > W:
        bad.append(("C17/knapsack_pricing/lemma:pattern-fits", desc))
    true_val = sum(f * a for f, a in zip(fr, pat))
    if abs(float(true_val) - val) > TOL:
        bad.append(("C17/knapsack_pricing/lemma:value-is-dual-value-of-pattern", desc))
    if val < float(best) - TOL:
        bad.append(("C17/knapsack_pricing/lemma:no-better-pattern-exists", desc))
    return bad


def gen_pricing(quick):
    grid = DUAL_GRID_QUICK if quick else DUAL_GRID_FULL
    items = []
    for W in range(1, (7 if quick else 11)):
        hi = min(8, W)
        for n in (1, 2, 3):
            if n <= 2:
                tuples = [list(t) for t in itertools.product(range(1, hi + 1), repeat=n)]
            else:
                tuples = [list(reversed(ms)) for ms in multisets(1, hi, n)]
            for sizes in tuples:
                items.append((sizes, W, grid))
    return items, len(grid)


# ------------------------------------------------------------------ driver
def run(ctx: Ctx):
    from vf.prove import prove
    prove(ctx, ["specs.cutting"], "C17")  # deductive part (specs/cutting.py)
    from vf.pool import pmap
    use_repo()
    rng = random.Random(ctx.seed)
    spaces = []  # (scope name, instances)

    ex, ex_desc = gen_exhaustive(ctx.quick)
    spaces.append(("cutting stock exhaustive, default options", ex))

    n_rand = 700 if ctx.quick else 6000
    spaces.append(("cutting stock seeded random (ordered sizes, duplicates, 1..4 pieces, width 2..12, demands 0..6 (targeted shapes up to 9)), default options",
                   [rand_cs(rng) for _ in range(n_rand)]))

    n_opt = 500 if ctx.quick else 4000
    lim = []
    for _ in range(n_opt):
        inst = rand_cs(rng)
        inst["opts"] = rand_opts(rng)
        lim.append(inst)
    # the exhaustive tiny instances under every budget option
    budget_grid = [{"max_iter": 0}, {"max_iter": 1}, {"max_iter": 2}, {"max_nodes": 0}, {"max_nodes": 1}, {"max_nodes": 2},
                   {"stop_after": 1}, {"stop_after": 2}, {"stop_after": 3}]
    tiny = []
    for W in (range(2, 6) if ctx.quick else range(2, 8)):
        for ms in multisets(1, W, 2):
            for dem in itertools.product(range(1, 4 if ctx.quick else 5), repeat=2):
                tiny.append((list(reversed(ms)), W, list(dem)))
    if ctx.quick:
        tiny = tiny[::3]
    for sizes, W, dem in tiny:
        for o in budget_grid:
            inst = {"mode": "cs", "sizes": sizes, "width": W, "demands": dem, "opts": dict(o)}
            if "max_nodes" in o:
                inst["solvers"] = ("bp",)
            lim.append(inst)
    spaces.append(("cutting stock under budgets (max_iter, max_nodes, stop through on_progress)", lim))

    n_cus = 700 if ctx.quick else 8000
    cus = []
    for i in range(n_cus):
        inst = rand_custom(rng)
        if i % 4 == 3:
            inst["opts"] = rand_opts(rng)
        cus.append(inst)
    spaces.append(("custom pricing over explicit column sets (seeded random; exact pricers best/first/last)", cus))

    # second random block with its own generator (added after the first measurements; the blocks above are unchanged):
    # 3-4 piece types at larger widths, where the LP value is an integer up to float noise or just above one
    rng2 = random.Random(ctx.seed + 17)
    n_r2 = 5000 if ctx.quick else 30000
    r2 = []
    for _ in range(n_r2):
        n = rng2.randint(3, 4)
        W = rng2.randint(5, 14)
        r2.append({"mode": "cs", "sizes": [rng2.randint(1, W) for _ in range(n)], "width": W,
                   "demands": [rng2.randint(0, 4) for _ in range(n)]})
    spaces.append(("cutting stock seeded random II (3-4 pieces, width 5..14, sizes 1..width, demands 0..4), default options", r2))

    all_items = []
    for si, (_, insts) in enumerate(spaces):
        for inst in insts:
            inst["_s"] = si
            all_items.append(inst)
    # interleave so that slow cases are spread over the workers
    order = list(range(len(all_items)))
    random.Random(ctx.seed + 1).shuffle(order)
    items = [all_items[i] for i in order]
    for it in items:
        it["timeout"] = 3 if ctx.quick else CALL_TIMEOUT

    # round-2 families (own generator: the blocks above are unchanged)
    rng3 = random.Random(ctx.seed + 29)
    wl = gen_width_ladder(rng3, ctx.quick)
    tl = gen_type_ladder(rng3, ctx.quick)
    hists = gen_histories(rng3, ctx.quick)
    n_small_spaces = len(spaces)
    spaces.append(("width ladder: roll widths " + ", ".join(str(w) for w in sorted(set(x["width"] for x in wl))) +
                   "; 2..5 piece types of size >= width/8, planted zero-trim patterns of 2..4 pieces, demands <= 6 "
                   "(<= 4 / 3 from 4 / 5 types); exact optimum by BFS over patterns; default options", wl))
    spaces.append(("type-count ladder: 8..30 piece types, planted perfect packings (families pairs, pairs-demands, triples, "
                   "mixed-distinct, mixed-shared; widths 60..300), optimum = number of planted rolls = volume bound; default options", tl))
    heavy = []
    for si in (n_small_spaces, n_small_spaces + 1):
        for inst in spaces[si][1]:
            inst["_s"] = si
            heavy.append(inst)
    heavy.sort(key=est_cost, reverse=True)
    pl_items = gen_pricing_ladder(rng3, [x for x in wl if ctx.quick is False or x["width"] <= 1100], 2 if ctx.quick else 3)
    pr_items, glen = gen_pricing(ctx.quick)
    big_h = [h for h in hists if h["family"] in ("planted-rolls-edited", "wide-rolls-rewritten")]
    small_h = [h for h in hists if h["family"] not in ("planted-rolls-edited", "wide-rolls-rewritten")]
    tasks = ([("hist", [h]) for h in big_h] + [("cases", [h]) for h in heavy] + [("pricing_ladder", [x]) for x in pl_items] +
             [("cases", c) for c in chunks(items, 8)] + [("hist", c) for c in chunks(small_h, 6)] +
             [("pricing", c) for c in chunks(pr_items, 4)])
    tagged = pmap(dispatch, tasks, chunksize=1)
    results = [r for t, r in tagged if t == "cases"]
    hist_res = [r for t, r in tagged if t == "hist"]
    pr_res = [r for t, r in tagged if t == "pricing"]
    pl_res = [r for t, r in tagged if t == "pricing_ladder"]

    per = {si: {"evals": 0, "usable": 0, "viol_cases": 0, "cpu": 0.0, "by_fn": {}, "by_ob": {}} for si in range(len(spaces))}
    nontriv = set()
    samples = []
    notes = {"timeouts": 0, "exceptions": 0, "unusable_status": {}, "inexact_objective_floats": 0, "examples": []}
    slow = []
    n_eval = 0
    viol_by_ob: dict[str, int] = {}
    allv: list = []
    for chunk_res in results:
        for (si, case, opt, kind, status, usable, secs, bad, what, inexact) in chunk_res:
            n_eval += 1
            p = per[si]
            p["evals"] += 1
            p["cpu"] += secs
            fn = ("solve_bp" if case["solver"] == "bp" else "solve_cg") + ("" if case["mode"] == "cs" else "[custom]")
            f = p["by_fn"].setdefault(fn, {"evals": 0, "usable": 0, "violating": 0, "labelled_OPTIMAL": 0})
            f["evals"] += 1
            pub = {k: v for k, v in case.items() if k not in ("_s", "timeout")}
            if kind == "timeout":
                notes["timeouts"] += 1
                if len(notes["examples"]) < 12:
                    notes["examples"].append({"what": f"no return within {case.get('cpu_budget', case.get('timeout'))} CPU s (or the wall-clock backstop)", "case": pub})
            elif kind == "exception":
                notes["exceptions"] += 1
                if len([e for e in notes["examples"] if e["what"] == what]) < 2 and len(notes["examples"]) < 12:
                    notes["examples"].append({"what": what, "case": pub})
            elif not usable:
                key = f"{fn}:{status}"
                notes["unusable_status"][key] = notes["unusable_status"].get(key, 0) + 1
            if usable:
                p["usable"] += 1
                f["usable"] += 1
                if status == "OPTIMAL":
                    f["labelled_OPTIMAL"] += 1
                if any(d > 0 for d in case["demands"]):
                    nontriv.add(repr(sorted(pub.items())))
                if len(samples) < 6 and any(d > 0 for d in case["demands"]):
                    samples.append(pub)
            if inexact:
                notes["inexact_objective_floats"] += 1
            if secs > 2.0:
                slow.append((secs, pub))
            if bad:
                p["viol_cases"] += 1
                f["violating"] += 1
            for obn, detail in bad:
                viol_by_ob[obn] = viol_by_ob.get(obn, 0) + 1
                p["by_ob"][obn] = p["by_ob"].get(obn, 0) + 1
                allv.append((obn, pub, detail))
    # history mode
    hagg = {"histories": 0, "calls": 0, "usable": 0, "repeated_compared": 0, "fresh_compared": 0, "arguments_modified_by_solver": 0,
            "timeouts": 0, "exceptions": 0, "cpu": 0.0}
    hfam: dict = {}
    hviol = 0
    for acc in hist_res:
        for k in hagg:
            hagg[k] += acc[k]
        for d in acc["defects"]:
            ctx.defects.append("C17 history: " + d)
        for k in acc["keys"]:
            nontriv.add(k)
        for fam, c in acc["by_family"].items():
            f = hfam.setdefault(fam, {"histories": 0, "calls": 0, "usable": 0, "violating_calls": 0})
            for k in f:
                f[k] += c[k]
        for obn, case, detail in acc["viol"]:
            hviol += 1
            viol_by_ob[obn] = viol_by_ob.get(obn, 0) + 1
            allv.append((obn, case, detail))
    n_eval += hagg["calls"]
    notes["timeouts"] += hagg["timeouts"]
    notes["exceptions"] += hagg["exceptions"]
    notes["history_mode_arguments_modified_by_solver"] = hagg["arguments_modified_by_solver"]
    # lemma block
    pr_eval = pr_improving = pr_bad = 0
    pl_eval = pl_improving = pl_bad = 0
    for chunk_res in pl_res:
        for case, improving, bad in chunk_res:
            pl_eval += 1
            n_eval += 1
            if improving:
                pl_improving += 1
                nontriv.add(repr(sorted(case.items())))
            if bad:
                pl_bad += 1
            for obn, detail in bad:
                viol_by_ob[obn] = viol_by_ob.get(obn, 0) + 1
                allv.append((obn, case, detail))
    for chunk_res in pr_res:
        for case, improving, bad in chunk_res:
            pr_eval += 1
            n_eval += 1
            if improving:
                pr_improving += 1
                nontriv.add(repr(sorted(case.items())))
            if bad:
                pr_bad += 1
            for obn, detail in bad:
                viol_by_ob[obn] = viol_by_ob.get(obn, 0) + 1
                allv.append((obn, case, detail))
    lemma_scope = dict(exhaustive=True, widths="1..6" if ctx.quick else "1..10",
                       pieces="1..3 (ordered size tuples for 1-2 pieces, multisets for 3), sizes 1..min(8,width)",
                       dual_grid=[f"{a}/{b}" for a, b in (DUAL_GRID_QUICK if ctx.quick else DUAL_GRID_FULL)], evaluations=pr_eval,
                       with_improving_pattern=pr_improving, violating_evaluations=pr_bad)
    report_violations(ctx, allv)
    slow.sort(key=lambda t: -t[0])
    notes["slowest_calls"] = [{"seconds": round(s, 2), "case": c} for s, c in slow[:5]]
    notes["calls_over_2s"] = len(slow)
    ctx.notes["C17_not_contract"] = notes
    ctx.notes["C17_violations_by_obligation"] = dict(sorted(viol_by_ob.items()))
    ctx.count(n_eval, nontriv, samples)
    for si, (name, insts) in enumerate(spaces):
        kw = dict(instances=len(insts), evaluations=per[si]["evals"], usable_results=per[si]["usable"],
                  violating_evaluations=per[si]["viol_cases"], solver_cpu_s=round(per[si]["cpu"], 1), per_function=per[si]["by_fn"],
                  violations_by_obligation=dict(sorted(per[si]["by_ob"].items())))
        if si == 0:
            kw["exhaustive"] = True
            kw["blocks"] = ex_desc
        ctx.scope(name, **kw)
    ctx.scope("lemma: knapsack_pricing against exhaustive pattern enumeration (exact rationals)", **lemma_scope)
    ctx.scope("lemma on the width ladder: knapsack_pricing on the width-ladder instances" + (" with width <= 1100" if ctx.quick else "") +
              " against exhaustive pattern enumeration; dual vectors: grid values, 1/p everywhere, size/width, 65/64*size/width",
              instances=len(pl_items), evaluations=pl_eval, with_improving_pattern=pl_improving, violating_evaluations=pl_bad)
    ctx.scope("history mode: one demands list / piece_sizes list (custom: demands, initial_columns, the column list read by one pricing "
              "function object) per history, edited in place between calls (element assignment, append, del); every call judged "
              "against the oracle of the instance as passed; consecutive equal calls and the last call vs a fresh interpreter must agree",
              histories=hagg["histories"], calls=hagg["calls"], usable_results=hagg["usable"], violations=hviol,
              repeated_calls_compared=hagg["repeated_compared"], last_calls_compared_with_fresh_process=hagg["fresh_compared"],
              solver_cpu_s=round(hagg["cpu"], 1), per_family=hfam)
    ctx.exhaustive = False
    ctx.rule = ("one evaluation = one call of solve_cg or solve_bp on one instance (+ options) with every clause of the contract "
                "checked against the exact optimum (lemma block: one call of knapsack_pricing against the best of all patterns); exhaustive block: "
                "all size tuples/multisets x all demand vectors of the listed boxes; "
                "random blocks: seeded generators biased to equal sizes, sizes = width, divisors, just-over-half sizes, zero/unit/equal "
                "demands, tiny budgets, custom column sets with infeasible/duplicate/zero initial columns. non-trivial = some demand "
                "> 0 and the call returned OPTIMAL or FEASIBLE (the antecedent of every clause holds), lemma block: a pattern of value > 1 "
                "exists; distinct = different "
                "(mode, solver, sizes/columns, width, demands, options, pricer). "
                "Round-2 families (own seeded generator): WIDTH LADDER = few piece types on wide rolls with planted zero-trim patterns of 2..4 "
                "pieces, exact optimum from the same BFS oracle; TYPE-COUNT LADDER = 8..30 piece types, every planted roll filled exactly "
                "(pieces longer than width/3, /4, /5 or /6), so the optimum is the number of planted rolls (= volume bound, checked "
                f"per instance); solve_bp gets max_nodes={BP_NODE_LIMIT} on the non-pair families (obligation suffix @limited(max_nodes)), default "
                "options elsewhere; HISTORY MODE = several calls on the same list objects edited in place, one evaluation per call, "
                "non-trivial = a usable result after at least one in-place edit; distinct = different history prefix. "
                "Per-call limits are CPU-time budgets (ITIMER_VIRTUAL); a call that exceeds its budget is counted, not judged")
    ctx.assumptions += [
        "objective is a float: 'equals' is taken as |objective - integer| <= 1e-6 (occurrences of inexact floats are counted in the notes)",
        "results with status other than OPTIMAL/FEASIBLE, exceptions and calls that do not return within the alarm are outside the statement "
        "(counted in coverage.C17_not_contract, not violations)",
        "custom mode: the pricing function is an exact pricer over the explicit column set (returns (None, 0.0) iff no column has reduced "
        "cost < -1e-7); the true minimum is over initial columns + that set",
        "bounded: nothing is claimed outside the enumerated/sampled scopes",
        "history mode: the statement quantifies over instances only, so the Result is taken to be a function of the arguments: two "
        "consecutive equal calls, and the last call of a history vs. the same call in a fresh interpreter, must return the same "
        "(status, objective, plan) (obligation history:same-arguments-same-answer); calls that ran out of budget are not compared",
        "type-count ladder: the optimum is not searched for; it is certified per instance by the planted plan (checked by check_plan) "
        "having exactly ceil(total demanded length / width) rolls",
    ]
    ctx.trusted += ["oracles/cutting_stock.py planted_optimum (volume bound + checked planted plan; cross-checked against the BFS on seeded "
                    "planted instances with <= 9 types in every run)",
                    "oracles/cutting_stock.py (BFS over residual demand vectors with witness plan; cross-checked in every run against an iterative-deepening search on seeded instances)"]
    oracle_selfcheck(ctx, rng, 200 if ctx.quick else 1500)


def case_size(case):
    if case.get("mode") == "history":
        return (3, sum(len(st["calls"]) for st in case["steps"]), len(case["steps"]), len(repr(case)), 0)
    if case.get("mode") == "cs":
        return (0, len(case["sizes"]), case["width"], sum(case["demands"]), len(case.get("opts") or {}))
    if case.get("mode") == "custom":
        return (1, len(case["demands"]), len(case["columns"]) + len(case["initial"]), sum(case["demands"]), len(case.get("opts") or {}))
    return (2, len(case["sizes"]), case["width"], 0, 0)


def report_violations(ctx, allv):
    """The driver prints / writes replays for the first violations only: hand them over so that every violated
    obligation comes first with its two smallest cases (default-option obligations before budget-limited ones)."""
    groups: dict[str, list] = {}
    for v in allv:
        groups.setdefault(v[0], []).append(v)
    for g in groups.values():
        g.sort(key=lambda v: (case_size(v[1]), repr(v[1])))
    names = sorted(groups, key=lambda n: ("@limited" in n, n))
    for n in names:
        for v in groups[n][:2]:
            ctx.violation(*v)
    for n in names:
        for v in groups[n][2:]:
            ctx.violation(*v)


def dispatch(task):
    tag, chunk = task
    fn = {"cases": worker_tagged, "hist": history_worker, "pricing": pricing_worker, "pricing_ladder": pricing_ladder_worker}[tag]
    return tag, fn(chunk)


def worker_tagged(chunk):
    out = []
    for inst in chunk:
        si = inst["_s"]
        for rec in worker([inst]):
            out.append((si,) + rec)
    return out


def oracle_selfcheck(ctx, rng, runs):
    from oracles.cutting_stock import all_patterns, check_plan, min_rolls, min_rolls_dfs, volume_bound
    # the two optimum-by-construction arguments against the exact search
    rng4 = random.Random(ctx.seed + 41)
    for j in range(max(12, runs // 12)):
        fam = TYPE_FAMILIES[j % len(TYPE_FAMILIES)]
        inst = type_instance(rng4, fam, rng4.randint(4, 9), rng4.choice([40, 60, 64]), rng4.choice([3, 4, 6]) if fam.startswith("pairs") else 6)
        if inst is None or len(inst["sizes"]) > 9 or max(inst["demands"]) > 3:
            continue
        k = oracle_opt(inst)[0]
        k2 = min_rolls(inst["sizes"], inst["width"], inst["demands"])[0]
        if k != k2:
            ctx.defects.append(f"oracle self-check failed: planted optimum {k} but BFS {k2} on {inst}")
            return
    for j in range(max(12, runs // 12)):
        inst = width_instance(rng4, rng4.choice([60, 100, 128, 250]))
        if inst is None or not inst["family"].endswith("/pure"):
            continue
        k2 = min_rolls(inst["sizes"], inst["width"], inst["demands"])[0]
        if volume_bound(inst["sizes"], inst["width"], inst["demands"]) != k2:
            ctx.defects.append(f"oracle self-check failed: zero-trim instance {inst}: BFS {k2} != volume bound")
            return
    for _ in range(runs):
        W = rng.randint(2, 10)
        n = rng.randint(1, 3)
        sizes = [rng.randint(1, W) for _ in range(n)]
        dem = [rng.randint(0, 4) for _ in range(n)]
        k, plan = min_rolls(sizes, W, dem)
        cols = [c for c in all_patterns(sizes, W) if any(c)]
        k2 = min_rolls_dfs(cols, dem)
        if k != k2 or check_plan(plan, dem, sizes, W) or sum(plan.values()) != k:
            ctx.defects.append(f"oracle self-check failed: sizes={sizes} W={W} demands={dem} bfs={k} dfs={k2} plan={plan}")
            return


# ------------------------------------------------------------------ replay
def replay(rec) -> int:
    use_repo()
    case = rec.get("case") or {}
    if case.get("mode") == "pricing":
        bad = check_pricing(case)
        print(f"case: {case}")
        for obn, detail in bad:
            print(f"  VIOLATED {obn}: {detail}")
        if not bad:
            print("  no violation")
        return 1 if bad else 0
    if case.get("mode") == "history":
        return replay_history(case, rec.get("obligation", ""))
    opt, plan = oracle_opt(case)
    o = check_case(case, opt)
    print(f"case: {case}")
    print(f"exact minimum: {opt}   witness plan: {plan}")
    print(f"call: {o['kind']} status={o['status']} seconds={o['seconds']:.3f} {o.get('what') or ''}")
    for obn, detail in o["bad"]:
        print(f"  VIOLATED {obn}: {detail}")
    if not o["bad"]:
        print("  no violation")
    return 1 if o["bad"] else 0


def replay_history(hist, obligation):
    recs, last, mutated = run_history(hist, want_last=True)
    bad = False
    for si, ci, snap, opt, o, diff in recs:
        shown = {k: v for k, v in snap.items() if k not in ("cpu_budget", "planted")}
        print(f"step {si} call {ci}: {shown}")
        print(f"   exact minimum {opt}; {o['kind']} status={o['status']} answer={o['summary']} cpu={o['seconds']:.3f}s {o.get('what') or ''}")
        for obn, detail in o["bad"]:
            bad = True
            print(f"   VIOLATED {obn}: {detail}")
        if diff:
            bad = True
            print(f"   VIOLATED C17/{fn_name(snap)}/history:same-arguments-same-answer: {diff}")
    if hist.get("fresh") and last is not None:
        there = fresh_process([last[0]])[0]
        same = there == last[1]
        print(f"fresh interpreter on the last call: {there}  ({'same answer' if same else 'DIFFERENT from ' + repr(last[1])})")
        if not same and there[0] == "result" and last[1][0] == "result":
            bad = True
            print(f"   VIOLATED C17/{fn_name(last[0])}/history:same-arguments-same-answer")
    if mutated:
        print(f"note: the solver modified its argument lists {mutated} time(s) (rewritten before the next call)")
    if not bad:
        print("  no violation")
    return 1 if bad else 0


if __name__ == "__main__":
    import sys
    if "--fresh" in sys.argv:
        fresh_main()

"""Presentation diversity (round 3), shared by checks/C13_round3.py and checks/C14_round3.py.

A *presentation* is a way of writing down one and the same abstract instance: which Python values stand for the nodes,
which values stand for things that are not nodes, which container kinds carry the iterables, which numeric types carry
the numbers.  This module has the value side of it:

* a JSON codec for hashable labels (None, bool, int, float, str, tuple, frozenset, a user-defined hashable class), so that
  a reported case is concrete and replayable;
* label universes: seeded draws of n pairwise different (under ==) node labels - None, falsy values (0, "", (),
  frozenset(), a falsy object), strings next to ints ("1" next to 1), tuples, nested tuples, tuples holding None,
  PAIRS WHOSE FIRST ENTRY IS ITSELF A NODE, frozensets, floats incl. inf, bools, user-defined hashable objects that are
  falsy and cannot be ordered;
* aliases: an equal but differently typed way of writing a label at a point of use (1 / 1.0 / True, (1, 2) / (1.0, 2.0));
* outside labels: values that are not equal to any node (None, tuples, pairs (node, tag) and (node, node), strings that
  look like a node, frozensets holding a node, ...).
"""
from __future__ import annotations


class Opaque:
    """user-defined hashable label: equality by key, falsy, no ordering"""
    __slots__ = ("k",)

    def __init__(self, k):
        self.k = k

    def __hash__(self):
        return hash(("Opaque", self.k))

    def __eq__(self, other):
        return isinstance(other, Opaque) and other.k == self.k

    def __bool__(self):
        return False

    def __repr__(self):
        return f"Opaque({self.k!r})"


# ------------------------------------------------------------------ codec
def enc(x):
    """hashable label -> JSON value (None, bool, int, float, str stay; containers are tagged)"""
    if x is None or isinstance(x, (bool, int, str)):
        return x
    if isinstance(x, float):
        if x != x or x in (float("inf"), float("-inf")):
            return {"f": repr(x)}
        return x
    if isinstance(x, tuple):
        return {"T": [enc(y) for y in x]}
    if isinstance(x, frozenset):
        return {"F": sorted((enc(y) for y in x), key=repr)}
    if isinstance(x, Opaque):
        return {"O": enc(x.k)}
    raise TypeError(f"cannot encode label {x!r}")


def dec(j):
    if isinstance(j, dict):
        if "T" in j:
            return tuple(dec(y) for y in j["T"])
        if "F" in j:
            return frozenset(dec(y) for y in j["F"])
        if "O" in j:
            return Opaque(dec(j["O"]))
        if "f" in j:
            return float(j["f"])
        raise ValueError(j)
    if isinstance(j, list):  # tolerate a case that went through JSON without tags
        return tuple(dec(y) for y in j)
    return j


# ------------------------------------------------------------------ label universes
def _one(rng, kind, i, prev):
    if kind == "int":
        return rng.choice((i, i, -i - 1, 3 * i + 7, 10 ** 6 + i))
    if kind == "str":
        return rng.choice(("v%d" % i, str(i), "n" * (i + 1), " %d" % i, "None%d" % i))
    if kind == "float":
        return rng.choice((i + 0.5, -i - 0.25, float("inf"), float("-inf"), 1e300 * (i + 1)))
    if kind == "bool":
        return bool(i % 2)
    if kind == "none":
        return None
    if kind == "tuple":
        return rng.choice(((i,), (i, i + 1), (i, None), (None, i), ((i,), i), (i, "t", i), (i, (None,)), ("a%d" % i,),
                           (i, i)))
    if kind == "pair":  # a pair whose first entry is itself a node
        if not prev:
            return (i, "w")
        x = rng.choice(prev)
        return (x, rng.choice((i, "w", None, 1.5, x, rng.choice(prev))))
    if kind == "fs":
        return frozenset(rng.sample(range(i + 3), rng.randint(1, 2)))
    if kind == "opaque":
        return Opaque(rng.choice((i, "k%d" % i, (i,))))
    if kind == "falsy":
        return rng.choice((0, "", (), frozenset(), None, Opaque(0), 0.0, False))
    raise ValueError(kind)


UNIVERSES = {
    # name: (forced specials (each used at most once, at seeded positions), kinds drawn for the rest)
    "int+None": (("none",), ("int",)),
    "str+None": (("none",), ("str",)),
    "falsy": (("falsy", "falsy", "falsy", "falsy", "none"), ("int", "str")),
    "pairs": ((), ("int", "str", "pair", "pair")),
    "pairs+None": (("none",), ("int", "pair", "pair")),
    "tuples": ((), ("tuple", "tuple", "fs")),
    "str-next-to-int": ((), ("int", "str")),
    "numbers": ((), ("int", "float", "bool")),
    "opaque": ((), ("opaque", "opaque", "int")),
    "everything": (("none", "falsy"), ("int", "str", "float", "bool", "tuple", "pair", "fs", "opaque", "falsy")),
    "int-0..n-1": ((), ()),  # plain positions; interesting through aliases (1 / 1.0 / True) and outside labels
}
UNIVERSE_NAMES = tuple(UNIVERSES)


def draw_labels(rng, n, universe):
    """n labels, pairwise different under == (so True and 1, 0 and 0.0 never both), as Python values"""
    forced, kinds = UNIVERSES[universe]
    if universe == "int-0..n-1":
        return list(range(n))
    out = []
    have = set()
    slots = set(rng.sample(range(n), min(n, len(forced)))) if n else set()
    todo = list(forced)
    for i in range(n):
        x = None
        ok = False
        for _ in range(12):
            k = todo[-1] if (i in slots and todo) else rng.choice(kinds)
            x = _one(rng, k, i, out)
            if x not in have:
                ok = True
                break
        if i in slots and todo:
            todo.pop()
        if not ok:
            x = ("fallback", i)
        have.add(x)
        out.append(x)
    return out


def alias(rng, x):
    """an equal (==, same hash) but differently typed spelling of x, or x itself when there is none"""
    if isinstance(x, bool):
        return int(x)
    if isinstance(x, int):
        if x in (0, 1) and rng.random() < 0.5:
            return bool(x)
        return float(x) if abs(x) < 2 ** 52 else x
    if isinstance(x, float):
        if x == x and abs(x) < 2 ** 52 and x == int(x):
            return int(x)
        return x
    if isinstance(x, tuple):
        return tuple(alias(rng, y) for y in x)
    return x


OUTSIDE_KINDS = ("none", "pair-node-tag", "pair-node-node", "tuple", "looks-like", "fs-of-node", "number", "opaque",
                 "str", "triple-node")


def draw_outside(rng, labels, kind):
    """a hashable value that is not equal to any of `labels` (the node set), of the given kind if there is one (the
    value None is a legitimate answer: it is an outside neighbour whenever no node is labelled None)"""
    nodes = set(labels)
    for _ in range(12):
        x = _outside(rng, labels, kind)
        if x not in nodes:
            return x
    x = ("outside", len(labels), kind)
    while x in nodes:
        x = (x,)
    return x


def _outside(rng, labels, kind):
    some = rng.choice(labels) if labels else 0
    if kind == "none":
        return None
    if kind == "pair-node-tag":
        return (some, rng.choice((">=2.0", 7, None, 0.5, "w", -1)))
    if kind == "pair-node-node":
        return (some, rng.choice(labels) if labels else 1)
    if kind == "triple-node":
        return (some, some, 0)
    if kind == "tuple":
        return rng.choice(((), (None,), (None, None), ("x", "y"), (-1, -1), ((), ())))
    if kind == "looks-like":  # a string that prints like a node, a 1-tuple around a node
        return rng.choice((repr(some), str(some), (some,)))
    if kind == "fs-of-node":
        try:
            return frozenset((some,))
        except TypeError:
            return frozenset()
    if kind == "number":
        return rng.choice((-1, len(labels) + 3, 0.5, len(labels) + 0.25, float("inf"), 1e9))
    if kind == "opaque":
        return Opaque(("out", rng.randrange(3)))
    if kind == "str":
        return rng.choice(("", "x", "outside", "None"))
    raise ValueError(kind)

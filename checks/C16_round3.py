"""C16, third-round families (imported by checks/C16.py): MULTIPLICITY instances - few distinct items, many copies of each.

Same contract as checks/C16.py (judge_knap / judge_bin); only the inputs and the oracle differ.

bin packing   a *template* is a capacity and 2..5 distinct sizes drawn from the classes that make packing hard: just over 1/2, 1/3,
              1/4 of the capacity, exactly 1/2, 1/3, 1/4, complements that close a bin exactly (c - a, c - 2a, c - a - b), tiny
              fillers, anything.  For a template EVERY multiplicity vector of a box 0..N_1 x .. x 0..N_d (N_i up to 12) is an
              instance: long runs of identical items.  Item order: non-increasing, non-decreasing, grouped by size in a random
              group order, interleaved, shuffled.  All four algorithms.  Integer and decimal (unit 1/10 .. 1/1000) data.
              Optimum: oracles/binpack_mult.py (pattern DP over the whole box: exact for every vector of the box at once).
              Thorough tier also: ALL templates of three sizes (one above 1/2, one in (1/4, 1/2], one at most 1/3) for
              capacities 10..20.
knapsack      a template is 2..5 item types (value, weight) whose value/weight ratios are equal, nearly equal or spread, weights
              on a decimal grid (unit 1 .. 1/10^4, some types one or a few units off a coarser grid), every type repeated 1..12
              times; capacities: the total weight of a prefix of the items in value/weight order (whole runs and part of the next
              run), that plus / minus a hair (one unit of the finest grid, e.g. the 4th decimal), a fraction of the total.
              Exhaustive over the multiplicity vectors of a small box for every template; orders: by ratio, grouped, shuffled.
              Optimum: complete enumeration up to 12 items, capacity DP on the integer units (oracles/knapsack_dp.py) above.
"""
from __future__ import annotations

import itertools
import random

P = "C16"


def base():
    from checks import C16
    return C16


# ====================================================================================== bin packing
def size_classes(rng, cu, chosen):
    """one size (units) from a randomly picked class; `chosen`: the sizes picked so far (for complements)."""
    k = rng.choice(["half+", "half+", "third+", "third+", "quarter+", "quarter+", "exact", "complement", "complement", "tiny", "any"])
    if k == "half+":
        return cu // 2 + rng.randint(1, max(1, rng.choice([1, 2, 3, cu // 4])))
    if k == "third+":
        return cu // 3 + rng.randint(1, max(1, rng.choice([1, 2, 3, cu // 12])))
    if k == "quarter+":
        return cu // 4 + rng.randint(1, max(1, rng.choice([1, 2, cu // 16])))
    if k == "exact":
        return cu // rng.choice([2, 3, 4, 5])
    if k == "complement" and chosen:
        a = rng.choice(chosen)
        b = rng.choice(chosen)
        return rng.choice([cu - a, cu - 2 * a, cu - a - b, cu - 3 * a, a - b])
    if k == "tiny":
        return rng.randint(1, max(1, cu // 8))
    return rng.randint(1, cu)


def gen_bin_template(rng, box_max):
    """-> (den, cu, sizes (distinct, non-increasing), limits)"""
    den = rng.choice([1, 1, 1, 1, 10, 10, 100, 1000])
    cu = rng.choice([rng.randint(7, 24), rng.randint(7, 24), rng.randint(10, 40), rng.randint(25, 120), 100, 1000])
    d = rng.choice([2, 3, 3, 3, 4, 4, 5])
    sizes = []
    for _ in range(40):
        s = size_classes(rng, cu, sizes)
        if 1 <= s <= cu and s not in sizes:
            sizes.append(s)
        if len(sizes) == d:
            break
    sizes.sort(reverse=True)
    limits = []
    for s in sizes:
        if 2 * s > cu:
            limits.append(rng.randint(3, 6))
        elif 4 * s > cu:
            limits.append(rng.randint(2, 6))
        else:
            limits.append(rng.randint(5, 12))
    while box_size(limits) > box_max:
        i = max(range(len(limits)), key=lambda t: limits[t])
        limits[i] -= 1
    return den, cu, tuple(sizes), tuple(limits)


def box_size(limits):
    n = 1
    for l in limits:
        n *= l + 1
    return n


ORDERS = ("descending", "ascending", "grouped", "interleaved", "shuffled")


def lay_out(rng, sizes, n, order):
    """the item list of multiplicity vector n in the given order"""
    runs = [[s] * k for s, k in zip(sizes, n) if k]
    if order == "descending":
        runs.sort(key=lambda r: -r[0])
    elif order == "ascending":
        runs.sort(key=lambda r: r[0])
    elif order == "grouped":
        rng.shuffle(runs)
    elif order == "interleaved":
        out = []
        runs = [list(r) for r in runs]
        while any(runs):
            for r in runs:
                if r:
                    out.append(r.pop())
        return out
    items = [s for r in runs for s in r]
    if order == "shuffled":
        rng.shuffle(items)
    return items


def run_bin_box(acc, rng, den, cu, sizes, limits, as_float=False, vectors=None, tag="BM", light=False):
    """every multiplicity vector of the box (or the listed ones), 4 algorithms each (light: the two decreasing ones - the only ones
    with a quality clause - on every vector, all four on every fourth), exact optimum from the pattern DP."""
    from oracles import binpack_mult as bm
    B = base()
    tab = bm.opt_table(sizes, cu, limits)
    it = vectors if vectors is not None else itertools.product(*[range(l + 1) for l in limits])
    for n in it:
        if not any(n):
            continue
        opt = tab.opt(n)
        order = rng.choice(ORDERS)
        items = lay_out(rng, sizes, n, order)
        if rng.random() < 0.05:
            items.insert(rng.randrange(len(items) + 1), 0)  # a zero-size item does not change the optimum
        algos = B.ALGOS if rng.random() < 0.9 else tuple(B.ALIASES[a] for a in B.ALGOS)
        if light and rng.random() < 0.75:
            algos = algos[2:]
        for algo in algos:
            case = {"fn": "bin_pack", "sizes_u": items, "cap_u": cu, "den": den, "algorithm": algo, "as_float": as_float}
            fails, info = B.eval_bin(case, opt)
            acc.evals += 1
            if info:
                acc.stat("bin-mult:" + info["status"])
                if info["k"] > info["opt"]:
                    acc.stat("bin-mult:k>OPT")
                if len(items) >= 2 and opt >= 2:
                    acc.keys.append(f"{tag}{den}|{cu}|{sizes}|{n}|{order}|{algo}")
            if fails:
                # the replay file carries an optimal packing by value: oracles/binpack_cert checks it, which certifies OPT <= its length
                acc.fail(fails, dict(case, witness=tab.packing(n)), (len(items), cu, sum(items)))
    if not acc.samples:
        n = tuple(limits)
        acc.samples.append({"fn": "bin_pack multiplicity box", "unit": f"1/{den}", "capacity_units": cu, "sizes_units": list(sizes),
                            "multiplicities": "0.." + str(list(limits)), "patterns": tab.n_patterns, "optimum_of_the_largest_vector": tab.opt(n)})


def t_b_mult(seed, count, box_max):
    B = base()
    rng = random.Random(seed)
    acc = B.Acc()
    for _ in range(count):
        den, cu, sizes, limits = gen_bin_template(rng, box_max)
        if len(sizes) < 2:
            continue
        run_bin_box(acc, rng, den, cu, sizes, limits, as_float=(den == 1 and rng.random() < 0.2))
        acc.stat("bin-mult:templates")
    return acc.out()


def three_class_templates(cu):
    """all (a, b, c) with a > cu/2 >= b > cu/4 and c <= cu/3, c < b"""
    out = []
    for a in range(cu // 2 + 1, cu):
        for b in range(cu // 4 + 1, cu // 2 + 1):
            for c in range(1, cu // 3 + 1):
                if c < b:
                    out.append((a, b, c))
    return out


def t_b_mult_exh(seed, cu, part, parts, den, limits, light):
    """every three-class template of capacity cu (slice part/parts), every multiplicity vector of the box 0..limits"""
    B = base()
    rng = random.Random(seed)
    acc = B.Acc()
    for t, sizes in enumerate(three_class_templates(cu)):
        if t % parts == part:
            run_bin_box(acc, rng, den, cu, sizes, tuple(limits), tag="BX", light=light)
            acc.stat("bin-mult:templates (systematic)")
    return acc.out()


# ====================================================================================== knapsack
def gen_knap_template(rng):
    """-> (den, vden, types [(value_u, weight_u)] in value/weight order (best first), limits)"""
    den = rng.choice([1, 1, 10, 100, 1000, 10 ** 4, 10 ** 4, 10 ** 4])
    vden = rng.choice([1, 1, 10, 100, 1000])
    d = rng.choice([2, 3, 3, 4, 5])
    coarse = {1: 1, 10: 1, 100: 10, 1000: 10, 10 ** 4: 10}[den]  # most weights on a grid `coarse` units wide (3 decimals for 1/10^4)
    wtop = {1: rng.choice([6, 15, 40]), 10: rng.choice([8, 25]), 100: rng.choice([40, 90]), 1000: rng.choice([60, 500]),
            10 ** 4: rng.choice([60, 500, 4000])}[den]
    spread = rng.choice(["equal", "near", "near", "near", "far"])
    rho = rng.randint(2, 9) * vden  # value units per weight unit, before the per-type deviation
    types = []
    for _ in range(60):
        w = max(1, rng.randint(1, max(1, wtop // coarse))) * coarse
        if coarse > 1 and rng.random() < 0.35:
            w += rng.randint(1, min(9, coarse - 1))  # off the coarse grid by a few fine units (a 4th decimal)
        if spread == "equal":
            v = rho * w
        elif spread == "near":
            v = rho * w + rng.randint(-max(1, rho * w // 200), max(1, rho * w // 200))
        else:
            v = rng.randint(1, 12) * vden * w // rng.choice([1, 2, 3]) + rng.randint(0, 3)
        v = max(0, v // max(1, coarse))  # keep the values' magnitude moderate
        if rng.random() < 0.06:
            w = 0
        if (v, w) not in types:
            types.append((v, w))
        if len(types) == d:
            break
    from fractions import Fraction
    types.sort(key=lambda t: (Fraction(t[0], t[1]) if t[1] else Fraction(10 ** 9)), reverse=True)
    limits = [rng.randint(1, rng.choice([2, 3, 4])) for _ in types]
    while box_size(limits) > 40:
        i = max(range(len(limits)), key=lambda t: limits[t])
        limits[i] -= 1
    return den, vden, types, limits


def knap_layout(rng, types, n, order):
    groups = [[t] * k for t, k in zip(types, n) if k]
    if order == "grouped":
        rng.shuffle(groups)
    elif order == "reversed":
        groups.reverse()
    items = [t for g in groups for t in g]
    if order == "shuffled":
        rng.shuffle(items)
    return items


def prefix_capacities(rng, types, n, hair):
    """capacities (units) at which a prefix of the items in value/weight order fills the knapsack exactly, +- a hair"""
    caps = set()
    run = 0
    for (v, w), k in zip(types, n):
        for j in range(1, k + 1):
            run += w
            if j == k or rng.random() < 0.4:
                caps.add(run)
    out = set()
    for c in caps:
        out.add(c)
        if rng.random() < 0.7:
            out.add(c + rng.choice(hair))
        if rng.random() < 0.2:
            out.add(max(0, c - rng.choice(hair)))
    total = sum(w * k for (v, w), k in zip(types, n))
    if total:
        out.add(rng.randint(0, total))
    return sorted(out)


def lib_cost(n_items, cu, den, all_int):
    """cells of the library's DP table (see C16_round2.lib_width)"""
    from checks import C16_round2 as r2
    return n_items * (cu + 1 if all_int else r2.lib_width(cu, den))


def run_knap_box(acc, rng, den, vden, types, limits, scale=1, cell_budget=30_000):
    """every multiplicity vector of the box (each multiplicity times `scale`: long runs), capacities at the exact fills of the
    prefixes in value/weight order."""
    from oracles import knapsack_dp as kd
    B = base()
    hair = [1] if den < 10 ** 4 else [1, 1, 2, 3, 5, 9]
    for n0 in itertools.product(*[range(l + 1) for l in limits]):
        n = tuple(k * scale for k in n0)
        if sum(n) < 1:
            continue
        order = rng.choice(["by-ratio", "by-ratio", "grouped", "reversed", "shuffled"])
        items = knap_layout(rng, types, n, order)
        vu = [v for v, _ in items]
        wu = [w for _, w in items]
        caps = prefix_capacities(rng, types, n, hair)
        if len(caps) > 3:
            caps = sorted(rng.sample(caps, 3))
        tab = None
        if len(items) <= 12:
            from oracles import knapsack_bf as kb
            tab = kb.subset_table(vu, wu)
        for cu in caps:
            all_int = den == 1
            if lib_cost(len(items), cu, den, all_int) > cell_budget or len(items) * cu > 20 * cell_budget:
                acc.stat("knap-mult:skipped (table too large for the budget)")
                continue
            mini = rng.random() < 0.08
            case = {"fn": "knapsack", "values_u": vu, "weights_u": wu, "cap_u": cu, "den": den, "vden": vden, "minimize": mini,
                    "as_float": den == 1 and rng.random() < 0.2}
            opt = None
            if tab is None and not mini:
                opt = kd.dp_max(vu, wu, cu)
            fails, info = B.eval_knap(case, tab, opt)
            acc.evals += 1
            if info:
                acc.stat("knap-mult:" + info["status"])
            if fails:
                acc.fail(fails, case, (len(items), cu, sum(wu), sum(vu)))
            if not mini and B.knap_nontrivial(vu, wu, cu, info):
                acc.keys.append(f"KM{den}/{vden}|{types}|{n}|{order}|{cu}")
            if not acc.samples:
                acc.samples.append({"fn": "knapsack multiplicity", "unit": f"1/{den}", "types_value_weight_units": [list(t) for t in types],
                                    "multiplicities": list(n), "order": order, "capacity_units": cu})


def t_k_mult(seed, count):
    B = base()
    rng = random.Random(seed)
    acc = B.Acc()
    for _ in range(count):
        den, vden, types, limits = gen_knap_template(rng)
        if len(types) < 2:
            continue
        scale = rng.choice([1, 1, 1, 2, 3, 4])
        while max(limits) * scale > 12:
            scale -= 1
        run_knap_box(acc, rng, den, vden, types, limits, scale)
        acc.stat("knap-mult:templates")
    return acc.out()


# ====================================================================================== oracle self-test
def selftest(seed):
    """binpack_mult against complete subset decomposition (<= 9 items) and against the certificate checker (witness
    packings, volume / big-item bounds) on larger vectors. -> number of comparisons"""
    from oracles import binpack_cert as bc
    from oracles import binpack_exact as be
    from oracles import binpack_mult as bm
    rng = random.Random(seed * 7919 + 3)
    cnt = 0
    for _ in range(40):
        den, cu, sizes, limits = gen_bin_template(rng, 300)
        if len(sizes) < 2:
            continue
        tab = bm.opt_table(sizes, cu, limits)
        vecs = list(itertools.product(*[range(l + 1) for l in limits]))
        for n in rng.sample(vecs, min(len(vecs), 40)):
            items = [s for s, k in zip(sizes, n) for _ in range(k)]
            o = tab.opt(n)
            if len(items) <= 9:
                if be.opt_value(tuple(items), cu) != o:
                    raise AssertionError(f"oracle self-test: binpack_mult says {o} for sizes {sizes} x {n} cap {cu}, enumeration disagrees")
            wit = tab.packing(n)
            lo, hi = bc.opt_range(items, cu, wit)
            if items and (hi is None or hi != o or lo > o or len(wit) != o):
                raise AssertionError(f"oracle self-test: binpack_mult optimum {o} is not certified by its own packing for {sizes} x {n} cap {cu}")
            cnt += 1
    return cnt


TASKS = {f.__name__: f for f in (t_b_mult, t_b_mult_exh, t_k_mult)}


# ====================================================================================== plan
def plan(ctx):
    q = ctx.quick
    rng = random.Random(ctx.seed * 1000003 + 1603)  # its own generator: the tasks of rounds 1 and 2 keep their seeds
    tasks = []
    nt, box = (64, 250) if q else (960, 1000)
    chunks = 32 if q else 64
    tasks += [("t_b_mult", rng.getrandbits(48), nt // chunks, box) for _ in range(chunks)]
    ctx.scope("bin packing multiplicity boxes (few distinct sizes, long runs of identical items)", templates=nt,
              distinct_sizes="2..5 from the classes just over 1/2, 1/3, 1/4 of the capacity, exactly 1/2..1/5, complements closing a bin "
                             "exactly (c-a, c-2a, c-a-b), tiny fillers, any",
              multiplicities=f"every vector of a box 0..N_i, N_i <= 12, at most {box} vectors per template",
              capacity_units="7..120, 100, 1000", unit="1, 1/10, 1/100, 1/1000", orders=list(ORDERS), algorithms="all four (10%: alias spellings)",
              oracle="oracles/binpack_mult.py (pattern DP over the whole box, exact)", exhaustive="over the multiplicity box of every template")
    caps = range(10, 18) if q else range(8, 25)
    lim = (4, 2, 8) if q else (6, 4, 12)
    dec = {12: (10,), 17: (100,)} if q else {c: (10, 100, 1000)[c % 3:][:1] for c in caps}
    n_sys = 0
    for cu in caps:
        parts = 2 if q else 8
        for den in (1,) + tuple(dec.get(cu, ())):
            tasks += [("t_b_mult_exh", rng.getrandbits(48), cu, p, parts, den, lim, q) for p in range(parts)]
            n_sys += len(three_class_templates(cu))
    ctx.scope("bin packing multiplicity boxes, systematic three-class templates", capacity_units=f"{caps[0]}..{caps[-1]}", templates=n_sys,
              template="EVERY (a, b, c) with a > capacity/2 >= b > capacity/4, c <= capacity/3, c < b",
              multiplicities="every vector of 0..%d x 0..%d x 0..%d" % lim, decimal_variants={str(c): [f"1/{d}" for d in v] for c, v in dec.items()},
              algorithms="both decreasing variants on every vector, all four on every fourth" if q else "all four on every vector",
              orders=list(ORDERS), exhaustive=True, oracle="oracles/binpack_mult.py")
    nk = 192 if q else 6400
    chunks = 32 if q else 64
    tasks += [("t_k_mult", rng.getrandbits(48), nk // chunks) for _ in range(chunks)]
    ctx.scope("knapsack multiplicity boxes (few distinct item types, repeated identical items)", templates=nk,
              types="2..5 (value, weight) types, value/weight ratios equal / within 0.5% / spread",
              unit="1, 1/10, 1/100, 1/1000, 1/10^4 (weights mostly on a grid 10 units wide, 35% a few units off it: 4th decimal)",
              multiplicities="every vector of a box 0..N_i (N_i <= 4), times 1..4 (runs of up to 12 identical items)",
              capacities="exact fills of prefixes in value/weight order (whole runs / part of a run), the same + or - a hair (1..9 units), "
                         "a random part of the total", orders=["by-ratio", "grouped", "reversed", "shuffled"],
              oracle="complete enumeration up to 12 items, capacity DP on the integer units above")
    return tasks

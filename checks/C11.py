"""C11 - shortest-path solvers return true shortest distances and real paths (bounded back end).

Contract (from the property statement, nothing more):
  * dijkstra / astar (admissible+consistent h, weight 1) / astar_grid / bfs / bellman_ford / floyd_warshall
    (+ the edge-list entry points dijkstra_edges / bfs_edges / dfs_edges of the same files, backend="python"):
      found  => reported distance == delta(s, T) exactly, path starts at s, ends in T, every step is an offered
                arc, the arc weights sum to the reported distance
      INFEASIBLE <=> T unreachable (with max_cost=M: "unreachable within M" is also accepted when delta > M)
      UNBOUNDED  <=> negative cycle reachable from start (bellman_ford) / present (floyd_warshall)
      MAX_ITER only when a max_iter was given that is <= the number of reachable nodes
  * dfs: genuine path <=> one exists;  all solvers agree on shared inputs;  reconstruct_path / _reconstruct_indexed
    follow the parent map from the target back to the root.
Oracle: oracles/shortest_paths.py (exact; walk-DP, simple-path brute force, dense Dijkstra, certificate check).

Beyond the small scope (checks/C11_round2.py, same judges): size ladder (10..2000 nodes, up to ~50000 arcs, polynomial
oracle + certificate), magnitude ladder (weights c*2^k, c*10^k, c*B+e, gaps of 2^-k; exhaustive n=3 at B=1e10), history
mode (one adjacency dict / edge list / callables edited in place between calls; fresh-process comparison), grid ladder,
long runs.  Round 3 (checks/C11_round3.py, same judges): presentation diversity - the small-scope and mid-size generators again
under unusual but legal node labels (None, falsy values, pairs whose head is a node, frozensets, "1" next to 1), fresh equal copies of
labels (1 / 1.0 / True), container kinds for neighbour-callback results and edge lists, kinds of goal predicates, goal values that
are no node, int weights shown as floats; plus the frame clause 'caller-owned inputs unchanged' and 'the same call repeated gives the
same answer'.  Every call of a function under check runs under a CPU-time budget (ITIMER_VIRTUAL): the statement promises a
report for every query, so "does not return" is the obligation ensures:returns-a-result.
"""
from __future__ import annotations

import hashlib
import itertools
import math
import random
import signal

from vf.core import Ctx, use_repo
from oracles import shortest_paths as O

LEVEL = "exploration"
P = "C11"
FINF = float("inf")
MAXV = 12  # violations kept per work item


# ====================================================================== helpers
def _mods():
    use_repo()
    from solvor.dijkstra import dijkstra, dijkstra_edges
    from solvor.a_star import astar, astar_grid
    from solvor.bfs import bfs, dfs, bfs_edges, dfs_edges
    from solvor.bellman_ford import bellman_ford, _reconstruct_indexed
    from solvor.floyd_warshall import floyd_warshall
    from solvor.utils.helpers import reconstruct_path
    from solvor.types import Status
    d = dict(locals())
    signal.signal(signal.SIGVTALRM, _on_vtalrm)
    for k, f in list(d.items()):
        if k != "Status":
            d[k] = _guard(f)
    return d


class SolverRaised(Exception):
    """the function under check raised on an input of the property's domain"""


class SolverHung(SolverRaised):
    """no result within the CPU-time budget (the statement promises a report for every query)"""


class _CpuBudget(BaseException):
    pass


def _on_vtalrm(signum, frame):
    raise _CpuBudget()


# CPU seconds (ITIMER_VIRTUAL: user time of this process only, so machine load cannot decide a verdict) granted to ONE
# call of a function under check.  On the unchanged tree the slowest small-scope call needs < 1 ms; the size-ladder
# families raise the budget (cpu_budget) to >= 20x what their largest call needs.
BUDGET = [1.0]


class cpu_budget:
    def __init__(self, seconds):
        self.seconds = seconds

    def __enter__(self):
        self.old = BUDGET[0]
        BUDGET[0] = self.seconds

    def __exit__(self, *a):
        BUDGET[0] = self.old
        return False


def _guard(f):
    def g(*a, **kw):
        try:
            signal.setitimer(signal.ITIMER_VIRTUAL, BUDGET[0])
            try:
                return f(*a, **kw)
            finally:
                signal.setitimer(signal.ITIMER_VIRTUAL, 0)
        except _CpuBudget:
            raise SolverHung(f"{f.__name__} did not return within {BUDGET[0]} s of CPU time") from None
        except Exception as e:  # noqa: BLE001
            raise SolverRaised(f"{f.__name__} raised {type(e).__name__}: {e}") from None
    g.__name__ = f.__name__
    return g


_M = None


def M():
    global _M
    if _M is None:
        _M = _mods()
    return _M


def key64(x) -> int:
    return int.from_bytes(hashlib.blake2b(repr(x).encode(), digest_size=8).digest(), "big")


MIXED = ["a", ("x", 1), -3, 2.5, frozenset({1}), (), "", 10 ** 20, ("a", "b"), b"z", 7, "é"]


def make_labels(scheme, n):
    if scheme == "int":
        return list(range(n))
    if scheme == "str":
        return [f"n{i}" for i in range(n)]
    if scheme == "tuple":
        return [(i // 3, i % 3) for i in range(n)]
    if scheme == "neg":
        return [-(i + 1) * 7 for i in range(n)]
    if scheme == "rev":
        return [n - 1 - i for i in range(n)]
    if scheme == "mixed":
        return MIXED[:n]
    if scheme.startswith("r3:"):  # round 3 label schemes (None, falsy values, pairs, frozensets, ...), "r3:<scheme>:<rotation>"
        from checks import C11_round3
        _, sch, rot = scheme.split(":")
        return C11_round3.labels3(sch, n, int(rot))
    raise ValueError(scheme)


def fnum(x):
    """exact value of a reported objective, or None for inf/nan/non-number"""
    if isinstance(x, bool) or not isinstance(x, (int, float)):
        return None
    if isinstance(x, float) and (math.isinf(x) or math.isnan(x)):
        return None
    return O.exact(x)


class Inconsistent(Exception):
    """a candidate heuristic failed the exact admissible+consistent test: the probe is outside the property's domain"""


class G:
    """One digraph instance: n nodes 0..n-1, edge list in the order given to the code, node labels."""

    def __init__(self, d):
        self.d = d
        self.n = d["n"]
        self.edges = [tuple(e) for e in d["edges"]]
        self.labels = make_labels(d.get("labels", "int"), self.n)
        self.idx = {l: i for i, l in enumerate(self.labels)}
        self.gen = bool(d.get("gen"))
        self.arcs = [(u, v, O.exact(w)) for u, v, w in self.edges]
        self.unit_arcs = [(u, v, 1) for u, v, _ in self.edges]
        self.nonneg = all(w >= 0 for _, _, w in self.arcs)
        self.wmap, self.umap = {}, {}
        for u, v, w in self.arcs:
            self.wmap.setdefault((u, v), []).append(w)
            self.umap[(u, v)] = [1]
        L = self.labels
        self.adj_w = {L[i]: [] for i in range(self.n)}
        self.adj_u = {L[i]: [] for i in range(self.n)}
        for u, v, w in self.edges:
            self.adj_w[L[u]].append((L[v], w))
            self.adj_u[L[u]].append(L[v])
        self._dist, self._hops, self._und = {}, {}, {}
        self._hok = {}

    def h_arg(self, h):
        """the heuristic callable handed to astar for the table h (history mode hands over one shared callable)"""
        idx = self.idx
        return lambda x: h[idx[x]]

    def goal_arg(self, T, pred):
        L = self.labels
        if pred:
            return (lambda Ls: (lambda x: x in Ls))({L[t] for t in T})
        (t,) = T
        return L[t]

    def nb_w(self):
        a = self.adj_w
        if self.gen:
            return lambda x: ((y, w) for y, w in a[x])
        return lambda x: a[x]

    def nb_u(self):
        a = self.adj_u
        if self.gen:
            return lambda x: iter(a[x])
        return lambda x: a[x]

    def edge_arg(self):
        """the `edges` argument handed to the edge-list entry points (history mode hands over one shared list)"""
        return list(self.edges)

    def uedge_arg(self):
        return [(u, v) for u, v, _ in self.edges]

    def dist(self, s):
        if s not in self._dist:
            self._dist[s] = O.walk_dp(self.n, self.arcs, s)
        return self._dist[s]

    def hops(self, s):
        if s not in self._hops:
            self._hops[s] = O.walk_dp(self.n, self.unit_arcs, s)[0]
        return self._hops[s]

    def und(self, s):
        if s not in self._und:
            arcs = self.arcs + [(v, u, w) for u, v, w in self.arcs]
            self._und[s] = O.walk_dp(self.n, arcs, s)
        return self._und[s]

    def nreach(self, s):
        return sum(1 for x in self.hops(s) if x is not None)

    def to_goal(self, T):
        """delta(u, T) for every u (None if T unreachable from u); non-negative graphs only"""
        out = []
        for u in range(self.n):
            d = self.dist(u)[0]
            c = [d[t] for t in T if d[t] is not None]
            out.append(min(c) if c else None)
        return out

    def selfcheck(self, brute=True):
        """oracle cross-check (checker defect if it fails)"""
        for s in range(self.n):
            d, neg = self.dist(s)
            if brute:
                bn = O.brute_negative_cycle(self.n, self.arcs, [s])
                if bn != neg:
                    raise AssertionError(f"oracle disagreement on negative cycle: {self.d} s={s}")
                if not neg and O.brute_simple(self.n, self.arcs, s) != d:
                    raise AssertionError(f"oracle disagreement on distances: {self.d} s={s}")
            if not neg and not O.certify(self.n, self.arcs, s, d):
                raise AssertionError(f"oracle certificate rejected: {self.d} s={s}")

    def nontrivial(self, sources):
        for s in sources:
            d, neg = self.dist(s)
            if neg:
                return True
            for t in range(self.n):
                if t != s and d[t] is not None:
                    direct = self.wmap.get((s, t))
                    if not direct or d[t] < min(direct):
                        return True
        return False


def h_values(Gr, T, name, rng=None):
    """heuristic table (floats) for goal set T; None if not available"""
    dT = Gr.to_goal(T)
    if name == "zero":
        return [0.0] * Gr.n
    if name == "exact":
        return [FINF if x is None else float(x) for x in dT]
    if name == "exact0":  # exact where finite, 0 where the goal is unreachable
        return [0.0 if x is None else float(x) for x in dT]
    if name == "half":
        return [FINF if x is None else float(x) / 2 for x in dT]
    if name == "cap1":
        return [1.0 if x is None else float(min(x, 1)) for x in dT]
    if name == "cap2":
        return [2.0 if x is None else float(min(x, 2)) for x in dT]
    if name == "floor2":
        return [FINF if x is None else float(math.floor(x / 2)) for x in dT]
    if name == "rand":
        for _ in range(20):
            h = [0.0 if x is None else float(rng.choice([0, x, x, rng.randint(0, int(x))])) for x in dT]
            if h_ok(Gr, T, h):
                return h
        return None
    raise ValueError(name)


def h_ok(Gr, T, h):
    """admissible and consistent: h >= 0, h(goal) = 0, h(u) <= w(u,v) + h(v) on every arc (exact arithmetic)"""
    key = (id(h), tuple(sorted(T)))
    c = Gr._hok.get(key)
    if c is None or c[0] is not h:
        c = Gr._hok[key] = (h, _h_ok(Gr, T, h))  # keeps h alive, so the id stays its own
    return c[1]


def _h_ok(Gr, T, h):
    for t in T:
        if h[t] != 0:
            return False
    for x in h:
        if not x >= 0:
            return False
    eh = [None if x == FINF else O.exact(x) for x in h]
    for u, v, w in Gr.arcs:
        if eh[u] is None:
            if eh[v] is not None:
                return False
        elif eh[v] is not None and eh[u] > w + eh[v]:
            return False
    dT = Gr.to_goal(T)  # admissible (follows from the two above when T reachable; inf only where unreachable)
    for u in range(Gr.n):
        if eh[u] is None:
            if dT[u] is not None:
                return False
        elif dT[u] is not None and eh[u] > dT[u]:
            return False
    return True


# ====================================================================== judging one result
def judge_path(name, Gr, res, s, T, *, unit=False, max_cost=None, max_iter=None, optimal=True, neg_ok=False):
    """contract of one s -> T query answered with a path; returns [(obligation, detail)]"""
    St = M()["Status"]
    out = []
    if unit:
        d, neg, wm = Gr.hops(s), False, Gr.umap
    else:
        (d, neg), wm = Gr.dist(s), Gr.wmap
    if neg_ok:
        if neg:
            if res.status != St.UNBOUNDED:
                out.append((f"{P}/{name}/ensures:UNBOUNDED-iff-negative-cycle",
                            f"negative cycle reachable from {s} but status={res.status.name} objective={res.objective}"))
            return out
        if res.status == St.UNBOUNDED:
            return [(f"{P}/{name}/ensures:UNBOUNDED-iff-negative-cycle", f"no negative cycle reachable from {s} but UNBOUNDED")]
    elif res.status == St.UNBOUNDED:
        return [(f"{P}/{name}/ensures:status", "UNBOUNDED from a solver without negative weights")]
    cand = [d[t] for t in T if d[t] is not None]
    delta = min(cand) if cand else None
    if res.status == St.MAX_ITER:
        if max_iter is None or max_iter > Gr.nreach(s):
            out.append((f"{P}/{name}/ensures:MAX_ITER-only-when-budget-binds",
                        f"MAX_ITER with max_iter={max_iter}, only {Gr.nreach(s)} nodes reachable"))
        return out
    if res.solution is None or res.status == St.INFEASIBLE:
        if res.status != St.INFEASIBLE:
            out.append((f"{P}/{name}/ensures:status", f"no path returned but status={res.status.name}"))
        if delta is not None and (max_cost is None or delta <= max_cost):
            out.append((f"{P}/{name}/ensures:INFEASIBLE-iff-unreachable",
                        f"reported INFEASIBLE but delta({s},{sorted(T)})={delta}" + (f" <= max_cost={max_cost}" if max_cost is not None else "")))
        return out
    # a path is reported
    path = res.solution
    obj = fnum(res.objective)
    if delta is None:
        out.append((f"{P}/{name}/ensures:INFEASIBLE-iff-unreachable", f"target unreachable from {s} but got {path!r} objective={res.objective}"))
    if not isinstance(path, list) or not path:
        out.append((f"{P}/{name}/ensures:path-valid", f"solution is not a non-empty node list: {path!r}"))
        return out
    try:
        ip = [Gr.idx[x] for x in path]
    except (KeyError, TypeError):
        out.append((f"{P}/{name}/ensures:path-valid", f"path has a node that is not in the graph: {path!r}"))
        return out
    if ip[0] != s:
        out.append((f"{P}/{name}/ensures:path-starts-at-source", f"path {ip} does not start at {s}"))
    if ip[-1] not in T:
        out.append((f"{P}/{name}/ensures:path-ends-at-target", f"path {ip} does not end in {sorted(T)}"))
    sums = O.path_sums(lambda a, b: wm.get((a, b), ()), ip)
    if sums is None:
        out.append((f"{P}/{name}/ensures:path-uses-existing-edges", f"path {ip} uses a non-existing arc"))
    elif obj is None or obj not in sums:
        out.append((f"{P}/{name}/ensures:path-weights-sum-to-distance", f"path {ip} sums to {sorted(sums)[:4]}, reported {res.objective}"))
    if optimal and delta is not None and (obj is None or obj != delta):
        # separate name for the one case where the true shortest distance lies beyond the max_cost limit (the solver
        # may then say INFEASIBLE, but a distance it does report must still be the shortest one)
        beyond = max_cost is not None and delta > max_cost
        out.append((f"{P}/{name}/ensures:" + ("distance-beyond-max_cost-is-shortest" if beyond else "distance-is-shortest"),
                    f"reported {res.objective} for {s}->{sorted(T)}, shortest is {delta}" + (f" (max_cost={max_cost})" if max_cost is not None else "")))
    return out


def judge_distmap(name, Gr, sol, s, d):
    out = []
    if not isinstance(sol, dict):
        return [(f"{P}/{name}/ensures:distances", f"solution is not a dict: {sol!r}")]
    want = {v for v in range(Gr.n) if d[v] is not None}
    if set(sol) != want:
        out.append((f"{P}/{name}/ensures:INFEASIBLE-iff-unreachable", f"from {s}: finite entries {sorted(sol)}, reachable {sorted(want)}"))
    for v in want & set(sol):
        if fnum(sol[v]) != d[v]:
            out.append((f"{P}/{name}/ensures:distance-is-shortest", f"dist[{s}->{v}]={sol[v]}, shortest {d[v]}"))
            break
    return out


def summary(res):
    St = M()["Status"]
    if res.status in (St.OPTIMAL, St.FEASIBLE) and res.solution is not None:
        return ("found", fnum(res.objective))
    return (res.status.name, None)


# ====================================================================== probes on a graph
def run_probe(Gr, p):
    """-> (violations [(obligation, detail)], summary or None)"""
    m = M()
    St = m["Status"]
    k = p["k"]
    L = Gr.labels
    if k in ("dijkstra", "astar", "bfs", "dfs"):
        s = p["s"]
        T = set(p["T"])
        goal = Gr.goal_arg(T, p.get("pred"))
        kw = {}
        if p.get("max_iter") is not None:
            kw["max_iter"] = p["max_iter"]
        if k in ("dijkstra", "astar") and p.get("max_cost") is not None:
            kw["max_cost"] = p["max_cost"]
        if k == "dijkstra":
            res = m["dijkstra"](L[s], goal, Gr.nb_w(), **kw)
        elif k == "astar":
            h = p["h"]
            if not h_ok(Gr, T, h):
                raise Inconsistent(p)
            res = m["astar"](L[s], goal, Gr.nb_w(), Gr.h_arg(h), **kw)
        elif k == "bfs":
            res = m["bfs"](L[s], goal, Gr.nb_u(), **kw)
        else:
            res = m["dfs"](L[s], goal, Gr.nb_u(), **kw)
        v = judge_path(k, Gr, res, s, T, unit=k in ("bfs", "dfs"), max_cost=p.get("max_cost"), max_iter=p.get("max_iter"),
                       optimal=k != "dfs")
        return v, summary(res)
    if k in ("dijkstra_edges", "bfs_edges", "dfs_edges"):
        s, t = p["s"], p.get("t")
        if k == "dijkstra_edges":
            res = m[k](Gr.n, Gr.edge_arg(), s, target=t, backend="python")
        else:
            res = m[k](Gr.n, Gr.uedge_arg(), s, target=t, backend="python")
        if t is None:
            if k == "dijkstra_edges":
                return judge_distmap(k, Gr, res.solution, s, Gr.dist(s)[0]), None
            want = sorted(v for v in range(Gr.n) if Gr.hops(s)[v] is not None)
            if sorted(res.solution) != want:
                return [(f"{P}/{k}/ensures:INFEASIBLE-iff-unreachable", f"visited {res.solution!r}, reachable {want}")], None
            return [], None
        saved = Gr.labels, Gr.idx
        Gr.labels, Gr.idx = list(range(Gr.n)), {i: i for i in range(Gr.n)}
        try:
            v = judge_path(k, Gr, res, s, {t}, unit=k != "dijkstra_edges", optimal=k != "dfs_edges")
        finally:
            Gr.labels, Gr.idx = saved
        return v, summary(res)
    if k == "bf":
        s, t = p["s"], p.get("t")
        res = m["bellman_ford"](s, Gr.edge_arg(), Gr.n, target=t, backend="python")
        d, neg = Gr.dist(s)
        if t is None:
            name = "bellman_ford"
            if neg:
                if res.status != St.UNBOUNDED:
                    return [(f"{P}/{name}/ensures:UNBOUNDED-iff-negative-cycle", f"negative cycle reachable from {s}, status={res.status.name}")], None
                return [], ("UNBOUNDED", None)
            if res.status == St.UNBOUNDED:
                return [(f"{P}/{name}/ensures:UNBOUNDED-iff-negative-cycle", f"no negative cycle reachable from {s} but UNBOUNDED")], None
            return judge_distmap(name, Gr, res.solution, s, d), None
        saved = Gr.labels, Gr.idx
        Gr.labels, Gr.idx = list(range(Gr.n)), {i: i for i in range(Gr.n)}
        try:
            v = judge_path("bellman_ford", Gr, res, s, {t}, neg_ok=True)
        finally:
            Gr.labels, Gr.idx = saved
        return v, summary(res)
    if k == "fw":
        directed = p.get("directed", True)
        res = m["floyd_warshall"](Gr.n, Gr.edge_arg(), directed=directed, backend="python")
        rows = [(Gr.dist(s) if directed else Gr.und(s)) for s in range(Gr.n)]
        anyneg = any(neg for _, neg in rows)
        name = "floyd_warshall"
        if anyneg:
            if res.status != St.UNBOUNDED:
                return [(f"{P}/{name}/ensures:UNBOUNDED-iff-negative-cycle", f"negative cycle present (directed={directed}), status={res.status.name}")], None
            return [], ("UNBOUNDED", None)
        if res.status == St.UNBOUNDED or res.solution is None:
            return [(f"{P}/{name}/ensures:UNBOUNDED-iff-negative-cycle", f"no negative cycle (directed={directed}) but status={res.status.name}")], None
        mat = res.solution
        for s in range(Gr.n):
            d = rows[s][0]
            for t in range(Gr.n):
                x = mat[s][t]
                if d[t] is None:
                    if x != FINF:
                        return [(f"{P}/{name}/ensures:INFEASIBLE-iff-unreachable", f"dist[{s}][{t}]={x} but unreachable (directed={directed})")], None
                elif fnum(x) != d[t]:
                    return [(f"{P}/{name}/ensures:distance-is-shortest", f"dist[{s}][{t}]={x}, shortest {d[t]} (directed={directed})")], None
        return [], ("matrix", [[None if x == FINF else fnum(x) for x in r] for r in mat])
    if k == "agree":
        return agree(Gr, p["s"], p["t"]), None
    raise ValueError(k)


def agree(Gr, s, t, have=None):
    """all solvers give the same answer for s -> t (direct comparison of their outputs, no oracle)"""
    have = dict(have or {})
    if getattr(Gr, "skip_fw", False):
        have.setdefault("fw", None)  # size ladder: floyd_warshall is only run (and compared) up to a node limit
    unit = all(w == 1 for _, _, w in Gr.arcs)

    def get(name, probe):
        if name not in have:
            have[name] = run_probe(Gr, probe)[1]
        return have[name]

    ans = {}
    if Gr.nonneg:
        ans["dijkstra"] = get("dijkstra", {"k": "dijkstra", "s": s, "T": [t]})
        ans["astar"] = get("astar", {"k": "astar", "s": s, "T": [t], "h": [0.0] * Gr.n})
        ans["dijkstra_edges"] = get("dijkstra_edges", {"k": "dijkstra_edges", "s": s, "t": t})
        if unit:
            ans["bfs"] = get("bfs", {"k": "bfs", "s": s, "T": [t]})
            ans["bfs_edges"] = get("bfs_edges", {"k": "bfs_edges", "s": s, "t": t})
    ans["bellman_ford"] = get("bf", {"k": "bf", "s": s, "t": t})
    fw = get("fw", {"k": "fw", "directed": True})
    if fw is not None:
        if fw[0] == "matrix":
            x = fw[1][s][t]
            ans["floyd_warshall"] = ("INFEASIBLE", None) if x is None else ("found", x)
        elif ans["bellman_ford"] is not None and ans["bellman_ford"][0] == "UNBOUNDED":
            ans["floyd_warshall"] = fw  # both see the cycle; FW may be UNBOUNDED alone when the cycle is unreachable
    vals = {repr(v) for v in ans.values() if v is not None}
    out = []
    if len(vals) > 1:
        out.append((f"{P}/agreement/ensures:same-answer", f"{s}->{t}: " + ", ".join(f"{a}={b}" for a, b in sorted(ans.items()))))
    if Gr.nonneg:
        df = get("dfs", {"k": "dfs", "s": s, "T": [t]})
        dj = ans["dijkstra"]
        if df is not None and dj is not None and (df[0] == "found") != (dj[0] == "found"):
            out.append((f"{P}/agreement/ensures:dfs-finds-path-iff-others", f"{s}->{t}: dfs={df} dijkstra={dj}"))
    return out


def battery(Gr, mode, rng):
    """the probes run on one graph. mode: full | lite | neg | rand"""
    n = Gr.n
    probes = []
    srcs = [0] if mode in ("full", "lite") else ([0] + ([rng.randrange(n)] if n > 1 else []))
    unit = all(w == 1 for _, _, w in Gr.arcs)
    if Gr.nonneg and mode != "neg":
        for s in srcs:
            d = Gr.dist(s)[0]
            tg = list(range(n)) if mode != "rand" else sorted({rng.randrange(n) for _ in range(3)} | {s})
            for t in tg:
                probes.append({"k": "dijkstra", "s": s, "T": [t]})
                names = ("zero", "exact", "half", "cap1", "floor2") if mode == "full" else \
                    ("exact", "half", "cap1") if mode == "lite" else ("zero", "exact", "half", "cap2", "floor2", "rand")
                for hn in names:
                    h = h_values(Gr, [t], hn, rng)
                    if h is not None:
                        probes.append({"k": "astar", "s": s, "T": [t], "h": h})
                probes.append({"k": "dijkstra_edges", "s": s, "t": t})
            probes.append({"k": "dijkstra_edges", "s": s, "t": None})
            # goal as predicate: goal sets
            if mode == "full":
                subsets = [list(c) for r in range(0, n + 1) for c in itertools.combinations(range(n), r)]
            else:
                subsets = [[], [rng.randrange(n)]] + [sorted(rng.sample(range(n), rng.randint(1, n))) for _ in range(2)]
            for T in subsets:
                probes.append({"k": "dijkstra", "s": s, "T": T, "pred": True})
                h = h_values(Gr, T, rng.choice(("exact", "half", "exact0", "floor2")))
                probes.append({"k": "astar", "s": s, "T": T, "pred": True, "h": h})
            # max_cost around every distance value
            fin = sorted({x for x in d if x is not None})
            Ms = sorted({0} | set(fin) | {x - 1 for x in fin} | ({fin[-1] + 1} if fin else set()))
            if mode != "full" and len(Ms) > 4:
                Ms = sorted(rng.sample(Ms, 4))
            for t in (tg if mode != "rand" else tg[:2]):
                for Mx in Ms:
                    Mv = float(Mx) if not isinstance(Mx, int) else Mx
                    probes.append({"k": "dijkstra", "s": s, "T": [t], "max_cost": Mv})
                    hn = ("exact", "half", "zero")[(t + len(probes)) % 3]
                    probes.append({"k": "astar", "s": s, "T": [t], "max_cost": Mv, "h": h_values(Gr, [t], hn)})
            # max_iter
            nr = Gr.nreach(s)
            ms = sorted({0, 1, 2, nr - 1, nr, nr + 1} - {-1})
            if mode == "rand":
                ms = sorted(rng.sample(ms, min(3, len(ms))))
            for t in (tg if mode == "full" else tg[:2]):
                for mi in ms:
                    probes.append({"k": "dijkstra", "s": s, "T": [t], "max_iter": mi})
                    probes.append({"k": "astar", "s": s, "T": [t], "max_iter": mi, "h": h_values(Gr, [t], "exact")})
                    if unit or mode == "rand":
                        probes.append({"k": "bfs", "s": s, "T": [t], "max_iter": mi})
                        probes.append({"k": "dfs", "s": s, "T": [t], "max_iter": mi})
            if unit or mode == "rand":
                for t in tg:
                    for k in ("bfs", "dfs"):
                        probes.append({"k": k, "s": s, "T": [t]})
                        probes.append({"k": k + "_edges", "s": s, "t": t})
                for k in ("bfs_edges", "dfs_edges"):
                    probes.append({"k": k, "s": s, "t": None})
                for T in ([[], list(range(n))] + [sorted(rng.sample(range(n), rng.randint(1, n)))]):
                    probes.append({"k": "bfs", "s": s, "T": T, "pred": True})
                    probes.append({"k": "dfs", "s": s, "T": T, "pred": True})
    bsrc = range(n) if mode != "rand" else srcs
    for s in bsrc:
        probes.append({"k": "bf", "s": s, "t": None})
        for t in (range(n) if mode != "rand" else sorted({rng.randrange(n) for _ in range(3)})):
            probes.append({"k": "bf", "s": s, "t": t})
    probes.append({"k": "fw", "directed": True})
    probes.append({"k": "fw", "directed": False})
    return probes, srcs


def run_battery(Gr, probes, agree_srcs, mkcase, out):
    """run the probes on one graph, then the agreement comparison on the answers already computed (replay recomputes
    them).  mkcase(probe) -> the replayable case stored with a violation."""
    res = {}
    lost = set()  # sources from which bellman_ford already missed a negative cycle / did not return: the remaining
    #               per-target queries from there would only repeat that finding (and each burn a full CPU budget)
    for p in probes:
        if p["k"] == "bf" and p["s"] in lost:
            continue
        try:
            v, summ = run_probe(Gr, p)
        except Inconsistent:
            continue
        except SolverRaised as e:
            v, summ = [(f"{P}/{p['k']}/ensures:returns-a-result", str(e))], None
            if p["k"] == "bf" and isinstance(e, SolverHung):
                lost.add(p["s"])
        out["n"] += 1
        if p["k"] == "bf" and any("UNBOUNDED-iff" in o for o, _ in v):
            lost.add(p["s"])
        plain = not p.get("pred") and p.get("max_cost") is None and p.get("max_iter") is None
        if plain and summ is not None:
            if p["k"] == "fw":
                if p.get("directed", True):
                    res[("fw",)] = summ
            elif p["k"] == "astar":
                res.setdefault(("astar", p["s"], p["T"][0]), summ)
            elif "T" in p:
                res[(p["k"], p["s"], p["T"][0])] = summ
            elif p.get("t") is not None:
                res[(p["k"], p["s"], p["t"])] = summ
        for obl, det in v:
            if len(out["viol"]) < MAXV:
                out["viol"].append((obl, mkcase(p), det))
    for s in agree_srcs:
        if s in lost:
            continue
        for t in range(Gr.n):
            have = {k: res[(k, s, t)] for k in ("dijkstra", "astar", "dijkstra_edges", "bfs", "bfs_edges", "bf", "dfs") if (k, s, t) in res}
            if ("bf", s, t) not in res:
                continue
            if ("fw",) in res:
                have["fw"] = res[("fw",)]
            out["n"] += 1
            try:
                ag = agree(Gr, s, t, have)
            except SolverRaised as e:
                ag = [(f"{P}/agreement/ensures:returns-a-result", str(e))]
            for obl, det in ag:
                if len(out["viol"]) < MAXV:
                    out["viol"].append((obl, mkcase({"k": "agree", "s": s, "t": t}), det))


def check_graph(gd, mode, rng, out, brute=True):
    Gr = G(gd)
    Gr.selfcheck(brute)
    probes, srcs = battery(Gr, mode, rng)
    run_battery(Gr, probes, srcs if mode != "neg" else range(Gr.n), lambda p: {"kind": "graph", "graph": gd, "probe": p}, out)
    if Gr.nontrivial(srcs if mode != "neg" else range(Gr.n)):
        out["keys"].append(key64((gd["n"], gd["edges"])))
    if out["sample"] is None and len(gd["edges"]) >= 3:
        out["sample"] = {"kind": "graph", "graph": gd, "mode": mode}


# ====================================================================== grids
ADM = {4: ("auto", "manhattan", "octile", "euclidean", "chebyshev"), 8: ("auto", "octile", "euclidean", "chebyshev")}


class GridO:
    def __init__(self, grid, dirs, blocked, costs):
        self.grid, self.dirs = grid, dirs
        self.rows, self.cols = len(grid), len(grid[0]) if grid else 0
        self.blocked = {blocked} if isinstance(blocked, int) else set(blocked)
        self.costs = dict(costs or {})
        self.n, self.out = O.grid_graph(grid, dirs, self.blocked, self.costs)
        self.wm = {}
        for u, lst in enumerate(self.out):
            for v, w in lst:
                self.wm[(u, v)] = w
        self._d = {}

    def dist(self, s):
        if s not in self._d:
            d = O.dense_dijkstra(self.n, self.out, s, O.Q2())
            self._d[s] = d
        return self._d[s]

    def certify(self, s):
        arcs = [(u, v, w) for u, lst in enumerate(self.out) for v, w in lst]
        if not O.certify(self.n, arcs, s, self.dist(s), O.Q2()):
            raise AssertionError(f"grid oracle certificate rejected {self.grid} {self.dirs} {s}")


def judge_grid(go, res, start, goal, max_iter=None, name="astar_grid"):
    St = M()["Status"]
    cols = go.cols
    s, t = start[0] * cols + start[1], goal[0] * cols + goal[1]
    d = go.dist(s)
    delta = d[t]
    out = []
    if res.status == St.MAX_ITER:
        nr = sum(1 for x in d if x is not None)
        if max_iter is None or max_iter > nr:
            out.append((f"{P}/{name}/ensures:MAX_ITER-only-when-budget-binds", f"MAX_ITER with max_iter={max_iter}, {nr} cells reachable"))
        return out
    if res.status == St.UNBOUNDED:
        return [(f"{P}/{name}/ensures:status", "UNBOUNDED on a grid")]
    if res.solution is None or res.status == St.INFEASIBLE:
        if res.status != St.INFEASIBLE:
            out.append((f"{P}/{name}/ensures:status", f"no path but status={res.status.name}"))
        if delta is not None:
            out.append((f"{P}/{name}/ensures:INFEASIBLE-iff-unreachable", f"INFEASIBLE but shortest {start}->{goal} is {delta}"))
        return out
    path = res.solution
    if delta is None:
        out.append((f"{P}/{name}/ensures:INFEASIBLE-iff-unreachable", f"goal unreachable but got {path!r}"))
    if not isinstance(path, list) or not path:
        return out + [(f"{P}/{name}/ensures:path-valid", f"bad path {path!r}")]
    try:
        cells = [(int(r), int(c)) for r, c in path]
    except Exception:
        return out + [(f"{P}/{name}/ensures:path-valid", f"bad path {path!r}")]
    if any(not (0 <= r < go.rows and 0 <= c < go.cols) for r, c in cells):
        return out + [(f"{P}/{name}/ensures:path-uses-existing-edges", f"path leaves the grid: {cells}")]
    if cells[0] != tuple(start):
        out.append((f"{P}/{name}/ensures:path-starts-at-source", f"{cells}"))
    if cells[-1] != tuple(goal):
        out.append((f"{P}/{name}/ensures:path-ends-at-target", f"{cells}"))
    tot = O.Q2()
    for a, b in zip(cells, cells[1:]):
        w = go.wm.get((a[0] * cols + a[1], b[0] * cols + b[1]))
        if w is None:
            out.append((f"{P}/{name}/ensures:path-uses-existing-edges", f"step {a}->{b} is not a legal move; path {cells}"))
            return out
        tot = tot + w
    obj = res.objective
    if not isinstance(obj, (int, float)) or not abs(float(tot) - obj) <= 1e-9:
        out.append((f"{P}/{name}/ensures:path-weights-sum-to-distance", f"path sums to {tot}={float(tot)}, reported {obj}"))
    if delta is not None and (not isinstance(obj, (int, float)) or not abs(float(delta) - obj) <= 1e-9):
        out.append((f"{P}/{name}/ensures:distance-is-shortest", f"{start}->{goal} dirs={go.dirs}: reported {obj}, shortest {delta}={float(delta)}"))
    return out


def _run_grid_probe(grid, p, cache=None):
    m = M()
    dirs, blocked, costs = p["dirs"], p.get("blocked", 1), p.get("costs")
    cd = {int(a): b for a, b in costs} if costs else None
    bl = blocked if isinstance(blocked, int) else set(blocked)
    ck = (dirs, repr(blocked), repr(costs))
    if cache is not None and ck in cache:
        go = cache[ck]
    else:
        go = GridO(grid, dirs, bl, cd)
        if cache is not None:
            cache[ck] = go
    start, goal = tuple(p["start"]), tuple(p["goal"])
    k = p.get("k", "astar_grid")
    if k == "astar_grid":
        kw = {}
        if p.get("max_iter") is not None:
            kw["max_iter"] = p["max_iter"]
        if costs:
            kw["costs"] = cd
        if "blocked" in p:
            kw["blocked"] = bl
        gridarg = grid if not p.get("tuples") else tuple(tuple(r) for r in grid)
        res = m["astar_grid"](gridarg, start, goal, directions=dirs, heuristic=p.get("heuristic", "auto"), **kw)
        return judge_grid(go, res, start, goal, p.get("max_iter")), go
    # agreement: the real dijkstra / bfs on the explicit grid graph vs astar_grid
    cols = go.cols
    nb = lambda rc: [((v // cols, v % cols), float(w)) for v, w in go.out[rc[0] * cols + rc[1]]]
    r1 = m["astar_grid"](grid, start, goal, directions=dirs, **({"costs": cd} if costs else {}), **({"blocked": bl} if "blocked" in p else {}))
    r2 = m["dijkstra"](start, goal, nb)
    out = []
    a, b = summary(r1), summary(r2)
    if a[0] != b[0] or (a[0] == "found" and abs(r1.objective - r2.objective) > 1e-9):
        out.append((f"{P}/agreement/ensures:same-answer", f"grid {start}->{goal} dirs={dirs}: astar_grid={r1.status.name}/{r1.objective} dijkstra={r2.status.name}/{r2.objective}"))
    if dirs == 4 and not costs:
        r3 = m["bfs"](start, goal, lambda rc: [x for x, _ in nb(rc)])
        c = summary(r3)
        if a[0] != c[0] or (a[0] == "found" and abs(r1.objective - r3.objective) > 1e-9):
            out.append((f"{P}/agreement/ensures:same-answer", f"grid {start}->{goal}: astar_grid={r1.status.name}/{r1.objective} bfs={r3.status.name}/{r3.objective}"))
    return out, go


def run_grid_probe(grid, p, cache=None):
    try:
        return _run_grid_probe(grid, p, cache)
    except SolverRaised as e:
        go = GridO(grid, p["dirs"], p.get("blocked", 1) if isinstance(p.get("blocked", 1), int) else set(p["blocked"]),
                   {int(a): b for a, b in p["costs"]} if p.get("costs") else None)
        return [(f"{P}/{p.get('k', 'astar_grid')}/ensures:returns-a-result", str(e))], go


def grid_nontrivial(go, free):
    """some start/goal pair needs a detour (longer than on the empty grid) or is cut off"""
    cols = go.cols
    for s in free:
        d = go.dist(s[0] * cols + s[1])
        for t in free:
            x = d[t[0] * cols + t[1]]
            if x is None:
                return True
            dr, dc = abs(s[0] - t[0]), abs(s[1] - t[1])
            base = O.Q2(abs(dr - dc), min(dr, dc)) if go.dirs == 8 else O.Q2(dr + dc, 0)
            if not go.costs and x > base:
                return True
    return False


def check_grid_exhaustive(grid, out, certify=False):
    rows, cols = len(grid), len(grid[0])
    cells = [(r, c) for r in range(rows) for c in range(cols)]
    free = [rc for rc in cells if grid[rc[0]][rc[1]] != 1]
    for dirs in (4, 8):
        cache = {}
        go = None
        for s in free:
            for t in cells:
                p = {"dirs": dirs, "start": list(s), "goal": list(t)}
                v, go = run_grid_probe(grid, p, cache)
                out["n"] += 1
                for obl, det in v:
                    if len(out["viol"]) < MAXV:
                        out["viol"].append((obl, {"kind": "grid", "grid": grid, "probe": p}, det))
            if certify and go is not None:
                go.certify(s[0] * cols + s[1])
        if go is not None and len(free) < len(cells) and grid_nontrivial(go, free):
            out["keys"].append(key64((grid, dirs)))
    if out["sample"] is None and rows * cols >= 6 and 0 < len(free) < len(cells):
        out["sample"] = {"kind": "grid", "grid": grid}


def check_grid_random(gd, out):
    grid = gd["grid"]
    rng = random.Random(gd["seed"])
    rows, cols = len(grid), len(grid[0])
    cells = [(r, c) for r in range(rows) for c in range(cols)]
    cache = {}
    nt = False
    for opt in gd["opts"]:
        bl = opt.get("blocked", 1)
        bset = {bl} if isinstance(bl, int) else set(bl)
        free = [rc for rc in cells if grid[rc[0]][rc[1]] not in bset]
        if not free:
            continue
        for _ in range(gd.get("pairs", 6)):
            s = rng.choice(free)
            t = rng.choice(cells) if rng.random() < 0.15 else rng.choice(free)
            p = dict(opt)
            p.update(start=list(s), goal=list(t))
            v, go = run_grid_probe(grid, p, cache)
            out["n"] += 1
            for obl, det in v:
                if len(out["viol"]) < MAXV:
                    out["viol"].append((obl, {"kind": "grid", "grid": grid, "probe": p}, det))
            if not nt and go.dist(s[0] * cols + s[1])[t[0] * cols + t[1]] is not None and s != t:
                nt = True
        go.certify(free[0][0] * cols + free[0][1])
    if nt:
        out["keys"].append(key64(("g", grid, gd["opts"])))
    if out["sample"] is None:
        out["sample"] = {"kind": "grid", "grid": grid, "opts": gd["opts"][:2]}


# ====================================================================== reconstruct_path
def recon_check(case):
    """case: {"n", "parent": [p_i or -1], "labels"}; every node as `current`"""
    m = M()
    n, par, L = case["n"], case["parent"], make_labels(case["labels"], case["n"])
    pd = {L[i]: L[par[i]] for i in range(n) if par[i] >= 0}
    bad = []
    for cur in range(n):
        want, x = [cur], cur
        while par[x] >= 0:
            x = par[x]
            want.append(x)
        want.reverse()
        before = dict(pd)
        got = m["reconstruct_path"](pd, L[cur])
        if got != [L[i] for i in want]:
            bad.append((f"{P}/reconstruct_path/ensures:chain-from-root", f"current={cur}: got {got!r}, want {[L[i] for i in want]!r}"))
        if pd != before:
            bad.append((f"{P}/reconstruct_path/ensures:parent-unchanged", f"current={cur}"))
        got2 = m["_reconstruct_indexed"](list(par), cur)
        if got2 != want:
            bad.append((f"{P}/_reconstruct_indexed/ensures:chain-from-root", f"target={cur}: got {got2!r}, want {want!r}"))
    return bad


def forests(n):
    for par in itertools.product(range(-1, n), repeat=n):
        ok = True
        for i in range(n):
            x, steps = i, 0
            while x >= 0 and steps <= n:
                x = par[x]
                steps += 1
            if steps > n:
                ok = False
                break
        if ok:
            yield list(par)


# ====================================================================== work items (run in the pool)
def work(case):
    M()
    out = {"viol": [], "n": 0, "keys": [], "sample": None}
    kind = case["kind"]
    rng = random.Random(case.get("seed", 0))
    if kind == "enum":  # fixed arc sequence, all weightings
        arcs, n, mode = case["arcs"], case["n"], case["mode"]
        for ws in itertools.product(case["W"], repeat=len(arcs)):
            base = [[u, v, w] for (u, v), w in zip(arcs, ws)]
            for order in case["orders"]:
                gd = {"n": n, "edges": base if order == "fwd" else base[::-1], "labels": case.get("labels", "int")}
                check_graph(gd, mode, rng, out)
    elif kind == "graphs":
        for gd in case["graphs"]:
            check_graph(gd, case["mode"], rng, out, brute=case.get("brute", False))
    elif kind == "grids_enum":
        rows, cols = case["rows"], case["cols"]
        for bits in range(case["lo"], case["hi"]):
            grid = [[(bits >> (r * cols + c)) & 1 for c in range(cols)] for r in range(rows)]
            check_grid_exhaustive(grid, out, certify=case.get("certify", False))
    elif kind == "grids":
        for gd in case["grids"]:
            check_grid_random(gd, out)
    elif kind == "recon":
        for par in case["parents"]:
            c = {"kind": "recon", "n": len(par), "parent": par, "labels": case["labels"]}
            out["n"] += 3 * len(par)
            try:
                rc = recon_check(c)
            except SolverRaised as e:
                rc = [(f"{P}/reconstruct_path/ensures:returns-a-result", str(e))]
            for obl, det in rc:
                out["viol"].append((obl, c, det))
            if any(p >= 0 and par[p] >= 0 for p in par):
                out["keys"].append(key64(("r", par, case["labels"])))
    elif kind.startswith("pres"):  # presentation diversity (round 3)
        from checks import C11_round3
        return C11_round3.work3(case)
    else:  # size ladder / history / grid ladder / long runs
        from checks import C11_round2
        return C11_round2.work2(case)
    return out


# ====================================================================== generators
SCHEMES = ("int", "str", "tuple", "neg", "rev", "mixed")
WPOOLS = [(0, 1, 2, 5), (1,), (0, 1), (1, 2, 3), (0, 0, 0, 1), (1, 1, 2, 2, 4), (0.25, 0.5, 0.75, 1.0, 1.5), (3, 7, 10, 17, 20), (0, 5)]
NPOOLS = [(-2, -1, 0, 1, 2, 3), (-1, 1), (-3, 1, 2, 4), (-0.5, 0.25, 1.0, -1.25), (-1, 0, 0, 1), (-5, 2, 3, 4)]


def rand_graph(rng, neg=False):
    kind = rng.choice(("uniform", "uniform", "layered", "zero", "dupes", "unit", "dense", "twocomp" if neg else "layered", "cycle"))
    n = rng.randint(2, 9)
    W = rng.choice(NPOOLS if neg else WPOOLS)
    E = []
    if kind == "uniform":
        for _ in range(rng.randint(0, int(2.5 * n))):
            E.append([rng.randrange(n), rng.randrange(n), rng.choice(W)])
    elif kind == "dense":
        n = rng.randint(3, 6)
        for u in range(n):
            for v in range(n):
                if u != v and rng.random() < 0.8:
                    E.append([u, v, rng.choice(W)])
    elif kind == "layered":  # a cheap long chain against shortcuts that tie / barely win / barely lose
        perm = list(range(n))
        rng.shuffle(perm)
        cw = [rng.choice(W) for _ in range(n - 1)]
        for i in range(n - 1):
            E.append([perm[i], perm[i + 1], cw[i]])
        for _ in range(rng.randint(1, n + 2)):
            i = rng.randrange(n - 1)
            j = rng.randrange(i + 1, n)
            seg = sum(cw[i:j])
            E.append([perm[i], perm[j], seg + rng.choice((-1, 0, 0, 1, 2)) if (neg or seg > 0) else seg + rng.choice((0, 1))])
        if rng.random() < 0.5:
            E.append([perm[rng.randrange(n)], perm[rng.randrange(n)], rng.choice(W)])
        E.sort(key=lambda e: -perm.index(e[0]))  # worst relaxation order: far end of the chain first
        if rng.random() < 0.3:
            rng.shuffle(E)
    elif kind == "zero":
        for _ in range(rng.randint(1, 2 * n)):
            E.append([rng.randrange(n), rng.randrange(n), rng.choice((0, 0, 0, rng.choice(W)))])
    elif kind == "dupes":
        for _ in range(rng.randint(1, n)):
            u, v = rng.randrange(n), rng.randrange(n)
            for _ in range(rng.randint(1, 3)):
                E.append([u, v, rng.choice(W)])
        rng.shuffle(E)
    elif kind == "unit":
        for _ in range(rng.randint(0, 2 * n)):
            E.append([rng.randrange(n), rng.randrange(n), 1])
    elif kind == "twocomp":  # negative cycle in a part that the low-numbered nodes cannot reach
        a = rng.randint(1, n - 1)
        for _ in range(rng.randint(0, 2 * a)):
            E.append([rng.randrange(a), rng.randrange(a), abs(rng.choice(W))])
        cyc = list(range(a, n))
        rng.shuffle(cyc)
        tot = 0
        for i in range(len(cyc)):
            w = rng.choice(W)
            tot += w
            E.append([cyc[i], cyc[(i + 1) % len(cyc)], w])
        if tot >= 0 and rng.random() < 0.7:
            E[-1][2] -= tot + rng.choice((0, 1, 1))
        if rng.random() < 0.5:
            E.append([rng.choice(cyc), rng.randrange(a), rng.choice(W)])  # cycle side can reach the rest, not vice versa
        rng.shuffle(E)
    elif kind == "cycle":  # one cycle whose total is -1 / 0 / +1 plus a tail into it
        k = rng.randint(1, n)
        cyc = rng.sample(range(n), k)
        ws = [rng.choice(W) for _ in range(k)]
        target = rng.choice((-1, 0, 0, 1)) if neg else None
        if target is not None:
            ws[-1] += target - sum(ws)
        for i in range(k):
            E.append([cyc[i], cyc[(i + 1) % k], ws[i]])
        for _ in range(rng.randint(0, n)):
            E.append([rng.randrange(n), rng.randrange(n), abs(rng.choice(W))])
        rng.shuffle(E)
    if not neg:
        for e in E:
            if e[2] < 0:
                e[2] = 0
    return {"n": n, "edges": E, "labels": rng.choice(SCHEMES), "gen": rng.random() < 0.3}


def rand_grid(rng, big):
    rows, cols = (rng.randint(1, 7), rng.randint(1, 7)) if big else (rng.randint(1, 4), rng.randint(1, 5))
    style = rng.choice(("bin", "bin", "multi", "maze", "sparse"))
    if style == "bin":
        p = rng.choice((0.2, 0.35, 0.5))
        grid = [[1 if rng.random() < p else 0 for _ in range(cols)] for _ in range(rows)]
    elif style == "sparse":
        grid = [[1 if rng.random() < 0.1 else 0 for _ in range(cols)] for _ in range(rows)]
    elif style == "maze":  # walls with single gaps: long detours
        grid = [[0] * cols for _ in range(rows)]
        for r in range(1, rows, 2):
            gap = rng.randrange(cols)
            for c in range(cols):
                if c != gap:
                    grid[r][c] = 1
    else:
        grid = [[rng.choice((0, 0, 1, 2, 3)) for _ in range(cols)] for _ in range(rows)]
    opts = []
    for dirs in (4, 8):
        opts.append({"dirs": dirs})
        opts.append({"dirs": dirs, "heuristic": rng.choice(ADM[dirs]), "tuples": rng.random() < 0.3})
        opts.append({"dirs": dirs, "k": "agree"})
        if style == "multi":
            opts.append({"dirs": dirs, "blocked": [1, 2], "heuristic": rng.choice(ADM[dirs])})
            opts.append({"dirs": dirs, "blocked": [], "costs": [[0, 1.0], [1, 4], [2, 2.0], [3, 3]]})
            opts.append({"dirs": dirs, "costs": [[2, 1.5], [3, 2.5]], "heuristic": rng.choice(ADM[dirs])})
            opts.append({"dirs": dirs, "blocked": 3, "costs": [[1, 2], [2, 1]], "k": "agree"})
        opts.append({"dirs": dirs, "max_iter": rng.choice((0, 1, 2, 3, rows * cols // 2, rows * cols, rows * cols + 1))})
    return {"grid": grid, "opts": opts, "seed": rng.randrange(1 << 30), "pairs": 5}


def chunks(lst, k):
    return [lst[i:i + k] for i in range(0, len(lst), k)]


def build_cases(ctx: Ctx):
    rng = random.Random(ctx.seed)
    q = ctx.quick
    cases = []
    W = (0, 1, 2, 5)
    arcs3 = [(u, v) for u in range(3) for v in range(3)]
    arcs4 = [(u, v) for u in range(4) for v in range(4) if u != v]
    arcs4l = [(u, v) for u in range(4) for v in range(4)]
    arcs2 = [(u, v) for u in range(2) for v in range(2)]
    # -- A: n=3, arc *sets* incl. self loops, non-negative weights, two edge orders, full battery
    for k in range(0, 5):
        for sub in itertools.combinations(arcs3, k):
            Wk = W if (k <= 3 or not q) else (0, 1, 2)
            cases.append({"kind": "enum", "n": 3, "arcs": list(sub), "W": Wk, "orders": ["rev"] if (q and k == 4) else ["fwd", "rev"], "mode": "full"})
    ctx.scope("digraphs n=3, arc sets (self loops allowed) of size<=4, both edge orders (quick, size 4: reversed order only), every weighting", weights=W,
              weights_k4=(0, 1, 2) if q else W, queries="source 0, every target / goal set / max_cost threshold / max_iter; BF+FW all sources",
              exhaustive=True)
    # -- B: n=2, all edge *sequences* of length <=3 (duplicates, self loops, every order)
    for k in range(0, 4):
        for seq in itertools.product(arcs2, repeat=k):
            cases.append({"kind": "enum", "n": 2, "arcs": list(seq), "W": W, "orders": ["fwd"], "mode": "full", "labels": "mixed"})
    ctx.scope("multigraphs n=2, every edge sequence of length<=3 (parallel arcs, self loops)", weights=W, exhaustive=True)
    # -- C: n=3, two distinct arcs + a parallel copy of the first one, copy first or last
    for a, b in itertools.permutations(arcs3, 2):
        cases.append({"kind": "enum", "n": 3, "arcs": [a, b, a], "W": (0, 1, 2) if q else W, "orders": ["fwd", "rev"], "mode": "full", "labels": "str"})
    ctx.scope("multigraphs n=3: two arcs + a parallel copy", weights=(0, 1, 2) if q else W, exhaustive=True)
    # -- D: n=4, arc sets without self loops
    kmax = 3 if q else 5
    for k in range(1, kmax + 1):
        for sub in itertools.combinations(arcs4, k):
            Wk = W if k <= 3 else (0, 1, 2, 5) if k == 4 else (0, 1, 3)
            if q and k == 3:
                Wk = (0, 1, 2)
            cases.append({"kind": "enum", "n": 4, "arcs": list(sub), "W": Wk, "orders": ["rev"] if k >= 4 else ["fwd", "rev"], "mode": "lite",
                          "labels": "tuple"})
    if not q:
        for sub in itertools.combinations(arcs4, 6):
            cases.append({"kind": "enum", "n": 4, "arcs": list(sub), "W": (1, 2), "orders": ["rev"], "mode": "lite", "labels": "tuple"})
    ctx.scope("digraphs n=4, arc sets (no self loops) of size<=%d" % (kmax if q else 6), weights="{0,1,2,5}; k=3 quick {0,1,2}; k=5 {0,1,3}; k=6 {1,2}",
              exhaustive=True)
    # -- E: negative weights, bellman_ford + floyd_warshall only
    WN = (-2, -1, 0, 1, 2, 3)
    for k in range(0, 5):
        for sub in itertools.combinations(arcs3, k):
            Wk = WN if (k <= 2 or (k <= 3 and not q)) else (-2, -1, 1, 2) if (k == 3 or not q) else (-2, -1, 2)
            cases.append({"kind": "enum", "n": 3, "arcs": list(sub), "W": Wk, "orders": ["fwd", "rev"], "mode": "neg"})
    ctx.scope("negative weights n=3, arc sets size<=4 (bellman_ford every source/target, floyd_warshall directed+undirected)",
              weights="{-2..3} for k<=2 (k<=3 thorough), {-2,-1,1,2} k=3 (k=4 thorough), {-2,-1,2} k=4 quick", exhaustive=True)
    if not q:
        for k in range(1, 5):
            for sub in itertools.combinations(arcs4l, k):
                cases.append({"kind": "enum", "n": 4, "arcs": list(sub), "W": (-2, -1, 0, 1, 3) if k <= 3 else (-2, -1, 1, 3), "orders": ["fwd", "rev"], "mode": "neg"})
        ctx.scope("negative weights n=4, arc sets (self loops allowed) size<=4", weights="{-2,-1,0,1,3}; k=4 {-2,-1,1,3}", exhaustive=True)
    # -- F: random structured graphs up to 9 nodes
    R = 2600 if q else 60000
    gs = [rand_graph(rng, neg=(i % 3 == 2)) for i in range(R)]
    for ch in chunks(gs, 25):
        cases.append({"kind": "graphs", "graphs": ch, "mode": "rand", "seed": rng.randrange(1 << 30), "brute": False})
    ctx.scope("random structured graphs", runs=R, n="2..9", families="uniform, dense, layered chain vs shortcuts (ties, worst edge order), zero-weight, "
              "parallel arcs, unit, negative cycle unreachable from low nodes, cycle of total -1/0/+1", labels=SCHEMES, negative_share="1/3")
    # -- G: grids, every obstacle layout, every free start, every goal, 4 and 8 neighbours
    shapes = [(r, c) for r in range(1, 4) for c in range(1, 4)] + [(1, 4), (4, 1), (2, 4), (4, 2), (1, 5), (5, 1)]
    if not q:
        shapes += [(3, 4), (4, 3), (2, 5), (5, 2), (4, 4)]
    for r, c in shapes:
        tot = 1 << (r * c)
        step = max(1, min(tot, 64 if r * c <= 12 else 128))
        for lo in range(0, tot, step):
            cases.append({"kind": "grids_enum", "rows": r, "cols": c, "lo": lo, "hi": min(tot, lo + step), "certify": r * c <= 9})
    ctx.scope("grids: every 0/1 layout, every free start x every goal cell, directions 4 and 8", shapes=shapes, exhaustive=True)
    # -- H: random grids with options
    RG = 700 if q else 12000
    gr = [rand_grid(rng, big=(i % 2 == 0)) for i in range(RG)]
    for ch in chunks(gr, 10):
        cases.append({"kind": "grids", "grids": ch})
    ctx.scope("random grids up to 7x7 with options", runs=RG, options="heuristic (admissible for the mode), blocked int/set, costs>=1, max_iter, "
              "tuple grids, agreement with dijkstra/bfs on the explicit grid graph")
    # -- I: reconstruct_path on every parent forest
    for n in range(1, 5 if q else 6):
        fs = list(forests(n))
        for sch in ("int", "mixed", "tuple", "r3:falsy:0", "r3:falsy:%d" % (n // 2), "r3:none:%d" % (n - 1), "r3:pairs:1", "r3:fsets:0"):
            for ch in chunks(fs, 200):
                cases.append({"kind": "recon", "parents": ch, "labels": sch})
    ctx.scope("reconstruct_path/_reconstruct_indexed: every acyclic parent map", n="1..%d" % (4 if q else 5), exhaustive=True)
    rng.shuffle(cases)
    # -- round 2: size ladder, magnitude ladder, history mode, grid ladder, long runs (checks/C11_round2.py); the heavy
    #    items go first so that they never end up alone at the tail of the pool
    from checks import C11_round2
    heavy = C11_round2.build_cases2(ctx, random.Random(ctx.seed + 2))
    order = {"big": 0, "gridbig": 0, "implicit": 0, "hist": 1}
    heavy.sort(key=lambda c: (order.get(c["kind"], 2), -C11_round2.cost(c)))
    k = sum(1 for c in heavy if order.get(c["kind"], 2) == 0)
    from checks import C11_round3
    rest = cases + heavy[k:] + C11_round3.build_cases3(ctx, random.Random(ctx.seed + 3))
    rng.shuffle(rest)
    out = []  # pool.map hands out chunks of 4 consecutive items: at most one heavy item per chunk, the biggest first
    for i, h in enumerate(heavy[:k]):
        out.append(h)
        out.extend(rest[3 * i:3 * i + 3])
    out.extend(rest[3 * k:])
    return out


# ====================================================================== entry points
def run(ctx: Ctx):
    from vf.prove import prove
    prove(ctx, ["specs.helpers", "specs.paths"], "C11", lemma_groups=["bfslev"])  # deductive part (specs/paths.py, specs/helpers.py)
    from vf.pool import pmap
    use_repo()
    cases = build_cases(ctx)
    results = pmap(work, cases, chunksize=1 if len(cases) < 4000 else 4)
    by = {}
    for r in results:
        ctx.count(r["n"], r["keys"], [r["sample"]] if r["sample"] else [])
        for v in r["viol"]:
            by.setdefault(v[0], []).append(v)
    # report order: smallest case of every distinct obligation first (the driver only prints the head of the list);
    # the obligation names of the triaged max_cost defect go last so that they never hide anything else
    names = sorted(by, key=lambda o: ("beyond-max_cost" in o, o))
    for o in names:
        by[o].sort(key=lambda v: (len(repr(v[1])), repr(v[1])))
    ordered = [by[o][i] for i in range(2) for o in names if len(by[o]) > i]
    ordered += [v for o in names for v in by[o][2:]]
    for obl, case, det in ordered:
        ctx.violation(obl, case, det)
    ctx.notes["work_items"] = len(cases)
    ctx.rule = ("each evaluation = one solver call (or one agreement comparison) whose result is judged against the exact oracle. "
                "Graph instance non-trivial: for a queried source some target's shortest path needs >=2 arcs (no direct arc, or the direct "
                "arc is strictly longer), or a negative cycle is reachable; grid non-trivial: has an obstacle and some free pair is cut off "
                "or needs a detour; parent map non-trivial: depth>=2. distinct = different (n, edge list) / (grid, directions) / (parent map, labels). "
                "Round-2 families: one size-ladder / grid-ladder / long-run instance = one generator spec (family, n, density, seed), counted once "
                "as non-trivial (all have >= 10 nodes and multi-arc shortest paths by construction); magnitude-ladder graphs are counted by the same "
                "rule as the small scope; one history stream = one spec (seed, steps), every call in it is one evaluation judged against the oracle "
                "for the graph as it is at that call. Round-3 (presentation) families: one evaluation = one solver call on a presented instance "
                "(every probe is called twice); distinct = different (graph, presentation); non-trivial by the rule of the structural family.")
    ctx.assumptions += [
        "astar is only called with heuristics that pass an exact admissibility+consistency check; weight=1",
        "astar_grid: start on a free cell; costs >= 1 and a heuristic admissible for the neighbourhood (auto, or octile/euclidean/chebyshev, "
        "manhattan only with 4 neighbours); grid distances compared with tolerance 1e-9 (sqrt 2 sums), everything else exactly",
        "weights are ints or dyadic floats, so float sums are exact and '==' is the contract; on the magnitude ladder every label a solver can "
        "form stays below 2^51 (non-negative graphs, one spare bit for g + h/2) / 2^50 (negative weights: n*m*max|w|) times one common power of two",
        "every call runs under a CPU-time budget (1 s for graphs with <= 12 nodes, 600 s on the size ladder; the unchanged tree needs < 1 ms / < 20 s): "
        "the statement promises a report for every query, so exceeding it is reported as ensures:returns-a-result",
        "default max_iter (1 000 000) counts as a given limit: MAX_ITER is accepted on the implicit chain with more than 10^6 reachable nodes",
        "with max_cost=M a target with delta>M may be reported INFEASIBLE (unreachable within the limit); any *reported* distance must be the true shortest one",
        "MAX_ITER is accepted only if max_iter <= number of reachable nodes",
        "backend='python' forced for bellman_ford, floyd_warshall, dijkstra_edges, bfs_edges, dfs_edges (Rust equivalence is C12)",
        "presentation families: node labels are arbitrary hashable values and a node is what ==/hash say it is ('goal given as value': 1, 1.0 and True "
        "name the same node; a returned path may show any of the equal presentations); neighbors(x) may return any iterable (one-shot ones included), "
        "`edges` any list / tuple of triples; containers owned by the caller (adjacency lists / tuples / deques / dicts, edge containers, heuristic "
        "table, goal set) must be left as they were (<fn>/frame:caller-owned-inputs-unchanged); a call repeated on the same presentation returns the "
        "same status, objective and solution (<fn>/ensures:same-call-same-answer). Not covered by the statement and left out: goal VALUE None for "
        "bfs/dfs (API: None = no goal; such a node is asked for through a predicate), callable labels as goal value, unhashable labels, arcs of weight "
        "+inf, neighbours outside the node set, one-shot iterables as `edges`, predicates returning non-bools",
    ]
    ctx.trusted += ["oracles/shortest_paths.py (walk DP cross-checked with simple-path brute force on the exhaustive scopes and with the "
                    "potential/tight-arc certificate everywhere; Q2 exact arithmetic in Z[sqrt2] for grids; size ladder: array Dijkstra / Johnson / exact "
                    "integer Bellman-Ford, every distance vector handed to a judge has passed the certificate (the verdict 'negative cycle reachable' rests on the "
                    "exact Bellman-Ford alone); grid ladder: heap Dijkstra accepted only through "
                    "the certificate)", "checks/C11_round2.py generators (instances are regenerated from the spec on replay)"]


def replay(rec) -> int:
    use_repo()
    case = rec["case"]
    if case["kind"] == "graph":
        Gr = G(case["graph"])
        try:
            v, _ = run_probe(Gr, case["probe"])
        except SolverRaised as e:
            v = [(rec.get("obligation"), str(e))]
    elif case["kind"] == "grid":
        v, _ = run_grid_probe(case["grid"], case["probe"])
    elif case["kind"] in ("big", "history", "gridbig", "gridhist", "implicit"):
        from checks import C11_round2
        v = [(o or rec.get("obligation"), d) for o, d in C11_round2.replay2(case)]
    elif case["kind"].startswith("pres"):
        from checks import C11_round3
        v = C11_round3.replay3(case)
    else:
        try:
            v = recon_check(case)
        except SolverRaised as e:
            v = [(rec.get("obligation"), str(e))]
    want = rec.get("obligation")
    hit = [x for x in v if x[0] == want] or v
    print("replay:", hit or "no violation")
    return 1 if hit else 0

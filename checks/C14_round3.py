"""C14 round 3: presentation diversity (used by checks/C14.py; same contracts, same obligation names + frame clauses).

Every structural generator of the small scope and of the seeded families is run once more, each digraph through a
presentation drawn per instance (checks/present3.py), as far as the quantifier allows it ("node iterables plus neighbour
functions", "neighbours outside the node set", "any iteration order of nodes and neighbours"; the module promises "any
hashable node type"):

  node labels          None, falsy values (0, "", (), frozenset(), a falsy user-defined object), strings next to ints,
                       tuples, nested tuples, tuples holding None, PAIRS WHOSE FIRST ENTRY IS ITSELF A NODE, frozensets,
                       floats incl. inf, bools, user-defined hashable objects; a neighbour entry may spell a node as an
                       equal but differently typed value (1 / 1.0 / True, (1, 2) / (1.0, 2.0))
  outside neighbours   values equal to no node, placed anywhere in a neighbour list (in front of real successors too):
                       None, (), tuples, PAIRS (node, tag) AND (node, node), triples, a string that prints like a node,
                       1-tuple / frozenset around a node, numbers, user-defined objects
  containers           nodes as list (caller-owned, persistent), tuple, iterator, generator, map object, dict keys / values
                       view; neighbours as the callback's own PERSISTENT list, tuple, iterator, generator, map object,
                       itertools.chain, dict keys / values view, frozenset; lenient (returns ()) or strict (raises)
                       neighbour function for non-nodes
  back end             *_edges through backend="python" AND through the default call (no backend argument)
  frame clauses        the caller's node list and the callback's neighbour lists are unchanged after the call; the same
                       call repeated gives the same answer

The oracle (Boolean closure, oracles/digraph.py) sees the de-presented instance: labels mapped back to 0..n-1 through a
dict (equal spellings are one node), every value that is not a node dropped.
"""
from __future__ import annotations

import itertools
import random
import signal
import time
from collections import Counter

from checks import present3 as P
from vf.core import use_repo

NODES_AS = ("list", "list", "tuple", "iter", "gen", "map", "dictkeys", "dictvalues")
NBRS_AS = ("list", "list", "tuple", "iter", "gen", "map", "chain", "dictkeys", "dictvalues", "frozenset")
CPU_BUDGET = 20  # CPU-seconds (ITIMER_VIRTUAL) for all calls on one case of <= 40 nodes


def base():
    from checks import C14
    return C14


class CpuBudget(Exception):
    pass


class cpu_guard:
    def __init__(self, secs):
        self.secs = secs

    def _fire(self, *_a):
        raise CpuBudget(f"no answer within {self.secs} CPU-s")

    def __enter__(self):
        self.old = signal.signal(signal.SIGVTALRM, self._fire)
        signal.setitimer(signal.ITIMER_VIRTUAL, self.secs)

    def __exit__(self, *_a):
        signal.setitimer(signal.ITIMER_VIRTUAL, 0)
        signal.signal(signal.SIGVTALRM, self.old)
        return False


# ------------------------------------------------------------------ a structural instance -> a presented case
def make_case(n, adj, rng):
    """adj: neighbour lists in index space (entries >= n are outside neighbours).  -> concrete case (JSON)."""
    universe = rng.choice(P.UNIVERSE_NAMES)
    lab = P.draw_labels(rng, n, universe)
    use_alias = rng.random() < (0.6 if universe in ("int-0..n-1", "numbers") else 0.25)
    outs = {}
    used = []

    def outside(j=None):
        if j is not None and j in outs:
            return outs[j]
        x = P.draw_outside(rng, lab, rng.choice(P.OUTSIDE_KINDS))
        if j is not None:
            outs[j] = x
        used.append(x)
        return x

    def ref(i):
        x = lab[i]
        if use_alias and rng.random() < 0.5:
            return P.alias(rng, x)
        return x

    nbrs = [[ref(j) if j < n else outside(j) for j in a] for a in adj]
    if n and rng.random() < 0.7:  # more outside neighbours, anywhere in the lists (often in front of real successors)
        shared = [outside() for _ in range(rng.randint(1, 2))]
        for _ in range(rng.randint(1, 4)):
            a = nbrs[rng.randrange(n)]
            pos = 0 if rng.random() < 0.4 else rng.randint(0, len(a))
            a.insert(pos, rng.choice(shared) if rng.random() < 0.7 else outside())
    order = list(range(n))
    rng.shuffle(order)
    return {"api": "present", "n": n, "universe": universe, "labels": [P.enc(x) for x in lab], "order": order,
            "nbrs": [[P.enc(x) for x in a] for a in nbrs], "alias": use_alias,
            "nodes_as": rng.choice(NODES_AS), "nbrs_as": rng.choice(NBRS_AS),
            "outmode": "strict" if rng.random() < 0.35 else "lenient"}, used


def depresent(case):
    """(labels, label -> index, neighbour lists in index space with every non-node as index >= n)"""
    lab = [P.dec(x) for x in case["labels"]]
    idx = {l: i for i, l in enumerate(lab)}
    if len(idx) != len(lab):
        raise AssertionError(f"generator produced equal labels: {lab!r}")
    n = len(lab)
    outs = {}
    adj = []
    for a in case["nbrs"]:
        row = []
        for x in a:
            x = P.dec(x)
            i = idx.get(x)
            if i is None:
                i = outs.setdefault(x, n + len(outs))
            row.append(i)
        adj.append(row)
    return lab, idx, adj


def build(case, lab):
    """(nodes factory, neighbour function, persistent table owned by the callback, caller-owned node list)"""
    C = base()
    n = len(lab)
    table = {lab[i]: [P.dec(x) for x in case["nbrs"][i]] for i in range(n)}
    strict = case["outmode"] == "strict"
    kind = case["nbrs_as"]
    ident = lambda x: x  # noqa: E731

    def nb(v):
        lst = table.get(v)
        if lst is None:
            if strict:
                raise C.OutsideNodeSet(v)
            return ()
        if kind == "list":
            return lst  # the same list object every time
        if kind == "tuple":
            return tuple(lst)
        if kind == "iter":
            return iter(lst)
        if kind == "gen":
            return (x for x in lst)
        if kind == "map":
            return map(ident, lst)
        if kind == "chain":
            return itertools.chain(lst[:1], lst[1:])
        if kind == "dictkeys":
            return dict.fromkeys(lst).keys()
        if kind == "dictvalues":
            return dict(enumerate(lst)).values()
        if kind == "frozenset":
            return frozenset(lst)
        raise ValueError(kind)

    order = [lab[i] for i in case["order"]]
    na = case["nodes_as"]
    nodes = {"list": lambda: order, "tuple": lambda: tuple(order), "iter": lambda: iter(order),
             "gen": lambda: (x for x in order), "map": lambda: map(ident, order),
             "dictkeys": lambda: dict.fromkeys(order).keys(),
             "dictvalues": lambda: dict(enumerate(order)).values()}[na]
    return nodes, nb, table, order


def describe(case, lab=None):
    lab = lab if lab is not None else [P.dec(x) for x in case["labels"]]
    shown = {repr(lab[i]): [P.dec(x) for x in case["nbrs"][i]] for i in case["order"]}
    return (f"[presentation: labels '{case['universe']}', nodes {case['nodes_as']} {[lab[i] for i in case['order']]!r}, "
            f"neighbours ({case['nbrs_as']}, {case['outmode']} function) {shown!r}] ")


def same(a, b):
    try:
        return a.status == b.status and a.objective == b.objective and a.solution == b.solution
    except Exception:  # noqa: BLE001
        return False


def call_solver(f, fn=None, n=0):
    """one guarded call (CPU budget per call, see C14.call_guarded): a function that ran out of budget once in this worker is
    not called again (returns a _Skip marker)"""
    C = base()
    if fn in C._DEAD:
        return None, C._Skip()
    try:
        return C.call_guarded(fn, f, n), None
    except (KeyboardInterrupt, SystemExit):
        raise
    except BaseException as e:  # noqa: BLE001 - pyo3 panics derive from BaseException
        return None, e


def run_present(case, g, idx, lab, fns=("scc", "topo", "condense")):
    """[(fn, obligation suffix, detail)] for the callback functions on one presented case"""
    C = base()
    from solvor.scc import condense, strongly_connected_components, topological_sort
    F = {"scc": strongly_connected_components, "topo": topological_sort, "condense": condense}
    nodes, nb, table, order = build(case, lab)
    t0, o0 = repr(table), repr(order)
    out = []
    for fn in fns:
        res, exc = call_solver(lambda: F[fn](nodes(), nb), fn, g.n)
        if isinstance(exc, C._Skip):
            continue
        if exc is not None:
            o, d = C.exc_obl(exc, g)
            out.append((fn, o, d))
        else:
            out += [(fn, o, d) for o, d in C.CHK[fn](res, g, idx)]
            res2, exc2 = call_solver(lambda: F[fn](nodes(), nb), fn, g.n)
            if exc2 is not None or not same(res, res2):
                out.append((fn, "ensures:same-answer-when-the-call-is-repeated",
                            f"first call {res.status.name} {res.solution!r}, the same call again "
                            f"{'raised ' + repr(exc2) if exc2 is not None else (res2.status.name, res2.solution)!r}"))
        if repr(table) != t0:
            out.append((fn, "frame:callback-owned-neighbour-lists-unchanged", f"before the call {t0}, after it {table!r}"))
            t0 = repr(table)
        if repr(order) != o0:
            out.append((fn, "frame:caller-owned-node-list-unchanged", f"before the call {o0}, after it {order!r}"))
            o0 = repr(order)
    return out


def run_edges_default(case, g):
    """*_edges without a backend argument (the library's default path) on an int-labelled graph without outside neighbours"""
    C = base()
    from solvor.scc import strongly_connected_components_edges, topological_sort_edges
    F = {"scc_edges": strongly_connected_components_edges, "topo_edges": topological_sort_edges}
    edges = [tuple(e) for e in case["edges"]]
    before = repr(edges)
    idx = C.IDX if case["n"] <= len(C.IDX) else {i: i for i in range(case["n"])}
    out = []
    for fn in F:
        res, exc = call_solver(lambda: F[fn](case["n"], edges), fn, case["n"])
        if isinstance(exc, C._Skip):
            continue
        if exc is not None:
            out.append((fn, "ensures:returns", f"raised {type(exc).__name__}: {exc}"))
            continue
        out += [(fn, o, d) for o, d in C.CHK[fn](res, g, idx)]
        if repr(edges) != before:
            out.append((fn, "frame:caller-owned-edge-list-unchanged", f"before the call {before}, after it {edges!r}"))
    return out


def do_present(acc, n, adj0, rng, rust, tally=True):
    C = base()
    case, used = make_case(n, adj0, rng)
    lab, idx, adj = depresent(case)
    g = C.G(n, adj)
    r3 = acc.r3
    with cpu_guard(CPU_BUDGET):
        bad = run_present(case, g, idx, lab)
        acc.evals += 3
        acc.cases += 1
        if bad:
            d = describe(case, lab)
            acc.add([(fn, o, d + x) for fn, o, x in bad], case)
        if not g.has_out and n and rng.random() < 0.5:
            ec = C.edge_case(n, adj, rng)
            ec.update(api="present", kind="edges", backend="default",
                      default_is="rust extension" if rust else "python fallback (no extension)")
            bad = run_edges_default(ec, g)
            acc.evals += 2
            r3["edges-calls:default=" + ec["default_is"]] += 2
            if bad:
                acc.add([(fn, o, f"[presentation: default back end = {ec['default_is']}] " + x) for fn, o, x in bad], ec)
    r3["cases"] += 1
    r3["labels:" + case["universe"]] += 1
    r3["nodes-as:" + case["nodes_as"]] += 1
    r3["neighbours-as:" + case["nbrs_as"]] += 1
    r3["neighbour-function:" + case["outmode"]] += 1
    if case["alias"]:
        r3["with-equal-but-differently-typed-spellings"] += 1
    if g.has_out:
        acc.with_out += 1
        r3["cases-with-outside-neighbours"] += 1
        for x in used:
            if x is None:
                r3["outside:None"] += 1
            elif x == ():
                r3["outside:()"] += 1
            elif isinstance(x, tuple) and len(x) == 2 and x[0] in idx:
                r3["outside:pair-whose-first-entry-is-a-node"] += 1
            elif isinstance(x, tuple):
                r3["outside:other-tuple"] += 1
            else:
                r3["outside:" + type(x).__name__] += 1
    if any(x is None for x in lab):
        r3["cases-with-a-node-labelled-None"] += 1
    if any(isinstance(x, tuple) and len(x) == 2 and x[0] in idx for x in lab):
        r3["cases-with-a-pair-node-whose-first-entry-is-a-node"] += 1
    if not g.acyclic:
        acc.cyclic += 1
    if g.nontrivial:
        acc.keys.add(hash(("P", repr(case["labels"]), repr(case["nbrs"]), tuple(case["order"]), case["nodes_as"],
                           case["nbrs_as"], case["outmode"])))
        if not acc.samples:
            acc.samples.append(case)


# ------------------------------------------------------------------ structural generators (those of checks/C14.py)
def specs(quick, seed):
    out = []
    # small scope: every neighbour-list assignment over V + one outside slot, lists of length <= 2, 0..3 nodes
    C = base()
    for n in (0, 1, 2, 3):
        ns = len(C.seqs(list(range(n + 1)), 2))
        for f in (range(ns) if n else [0]):
            out.append(("P", "enum", n, 2, f, seed, 1 if quick else 4))
    nenum = len(out)
    plan = {"general": 500, "dag": 700, "chain": 700, "parts": 400, "tiny": 500, "five": 700}
    if not quick:
        plan = {k: 10 * v for k, v in plan.items()}
    for fam, cnt in plan.items():
        for lo in range(0, cnt, 250):
            out.append(("P", "R", fam, seed, lo, min(cnt, lo + 250)))
    return out, plan, nenum


def work_present(args):
    use_repo()
    C = base()
    from solvor.rust import rust_available
    rust = bool(rust_available())
    acc = C.Acc()
    acc.r3 = Counter()
    t0 = time.process_time()
    if args[1] == "enum":
        _, _, n, L, first, seed, reps = args
        S = C.seqs(list(range(n + 1)), L)
        for ti, tail in enumerate(itertools.product(*([S] * max(0, n - 1)))):
            adj = ([S[first]] + [list(t) for t in tail]) if n else []
            for rep in range(reps):
                rng = random.Random(f"{seed}/P/enum/{n}/{first}/{ti}/{rep}")
                do_present(acc, n, [list(a) for a in adj], rng, rust)
    else:
        _, _, fam, seed, lo, hi = args
        for i in range(lo, hi):
            rng = random.Random(f"{seed}/P/R/{fam}/{i}")
            n, adj = C.FAMILIES[fam](rng)
            adj = C.decorate(n, adj, rng)
            do_present(acc, n, adj, rng, rust)
    d = acc.data()
    acc.r3["cpu_ms"] = int(1000 * (time.process_time() - t0))
    d["r3"] = dict(acc.r3)
    return d


# ------------------------------------------------------------------ replay
def replay(rec) -> int:
    use_repo()
    C = base()
    case = rec["case"]
    fn = case["fn"]
    if case.get("kind") == "edges":
        adj = [[] for _ in range(case["n"])]
        for u, v in case["edges"]:
            adj[u].append(v)
        g = C.G(case["n"], adj)
        print(f"{C.FULL[fn]}({case['n']}, {[tuple(e) for e in case['edges']]!r})  # default back end = {case['default_is']}")
        bad = [b for b in run_edges_default(case, g) if b[0] == fn]
    else:
        lab, idx, adj = depresent(case)
        g = C.G(case["n"], adj)
        print(describe(case, lab))
        bad = run_present(case, g, idx, lab, (fn,))
    print(f"replay {C.FULL[fn]}: acyclic={g.acyclic} classes(by index)={sorted(C.bits(m) for m in g.classes)}")
    for f, o, d in bad:
        print(f"  violated C14/{C.FULL[f]}/{o}: {d}")
    print("replay:", "still violates" if bad else "no violation")
    return 1 if bad else 0

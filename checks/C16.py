"""C16 - knapsack / bin-packing answers are feasible, scored faithfully, labelled right (bounded back end).

Top-level contract (taken from the property statement) evaluated on the real solve_knapsack / solve_bin_pack:

solve_knapsack(values, weights, capacity, minimize)
  returns                       comes back with a Result whose status is OPTIMAL or FEASIBLE
  distinct-indices-in-range     solution = distinct ints in 0..n-1
  weight-within-capacity        sum of chosen weights <= capacity
  objective-is-sum-of-values    objective == sum of chosen values
  OPTIMAL-implies-optimal{..}   status OPTIMAL => no subset within capacity has a better value (max, or min when
                                minimize=True); tagged by an *input* predicate so that root causes can be told apart:
                                {integer data} {decimal data} {decimal data, >3 decimals}, each also with ", capacity 0"
solve_bin_pack(sizes, capacity, algorithm)
  returns / every-item-one-bin / bins-numbered-0..k-1 (k == objective, every number used) /
  load-within-capacity / k>=ceil(total/capacity) / decreasing-within-11/9-OPT+6/9{..} / OPTIMAL-implies-minimal

Decimal inputs: every instance is generated on an integer grid (units of 1/den); the functions receive the floats
nearest to k/den (what a user typing 0.35 passes); the contract and the oracles work on the integer units, so
"fits", "better" and "fewer bins" are decided exactly.
"""
from __future__ import annotations

import itertools
import random
from fractions import Fraction

from vf.core import Ctx, use_repo
from vf.pool import pmap

LEVEL = "exploration"
P = "C16"
ALGOS = ("first-fit", "best-fit", "first-fit-decreasing", "best-fit-decreasing")
ALIASES = {"first-fit": "ff", "best-fit": "BF", "first-fit-decreasing": "first_fit_decreasing", "best-fit-decreasing": "Best-Fit-Decreasing"}
EX_PER_TASK = 3


# ---------------------------------------------------------------------------------------------- numbers
def num(k, den, as_float=False):
    if den == 1:
        return float(k) if as_float else k
    return float(Fraction(k, den))


def close(x, exact: Fraction):
    try:
        return abs(Fraction(x) - exact) <= Fraction(1, 10**9) * (1 + abs(exact))
    except (TypeError, ValueError, OverflowError):
        return False


def is_int(x):
    return isinstance(x, int) and not isinstance(x, bool)


# ---------------------------------------------------------------------------------------------- knapsack contract
def knap_tag(wu, cu, den):
    if den == 1 or (cu % den == 0 and all(w % den == 0 for w in wu)):
        base = "integer data"
    else:
        base = "decimal data" if 1000 % den == 0 else "decimal data, >3 decimals"
    return "{" + base + (", capacity 0}" if cu == 0 else "}")


def eval_knap(case, tab=None):
    """-> (failures [(obligation, detail)], info dict)."""
    from solvor.knapsack import solve_knapsack
    from oracles import knapsack_bf as kb

    vu, wu, cu = case["values_u"], case["weights_u"], case["cap_u"]
    den, vden = case.get("den", 1), case.get("vden", 1)
    mini, af = bool(case.get("minimize", False)), bool(case.get("as_float", False))
    n = len(vu)
    values = [num(v, vden, af) for v in vu]
    weights = [num(w, den, af) for w in wu]
    cap = num(cu, den, af)
    pre = f"{P}/solve_knapsack/"
    shown = f"values={values} weights={weights} capacity={cap} minimize={mini}"
    try:
        r = solve_knapsack(values, weights, cap, minimize=mini)
        sol, obj, st = r.solution, r.objective, getattr(r.status, "name", str(r.status))
    except Exception as e:  # valid input: must come back
        return [(pre + "returns", f"{shown}: raised {type(e).__name__}: {e}")], {}
    fails = []
    if st not in ("OPTIMAL", "FEASIBLE") or not isinstance(sol, (tuple, list)):
        return [(pre + "returns", f"{shown}: status {st}, solution {sol!r}")], {}
    if not all(is_int(i) and 0 <= i < n for i in sol) or len(set(sol)) != len(sol):
        return [(pre + "ensures:distinct-indices-in-range", f"{shown}: solution {sol!r}")], {}
    tw = sum(wu[i] for i in sol)
    tv = sum(vu[i] for i in sol)
    if tw > cu:
        fails.append((pre + "ensures:weight-within-capacity",
                      f"{shown}: chose {tuple(sol)} with weight {Fraction(tw, den)} > capacity {Fraction(cu, den)} (status {st})"))
    if not close(obj, Fraction(tv, vden)):
        fails.append((pre + "ensures:objective-is-sum-of-values", f"{shown}: objective {obj!r}, chosen {tuple(sol)} sum to {Fraction(tv, vden)}"))
    if tab is None:
        tab = kb.subset_table(vu, wu)
    bv, bm = kb.best_from_table(tab, cu, mini)
    if st == "OPTIMAL" and tw <= cu and (tv > bv if mini else tv < bv):
        wit = tuple(i for i in range(n) if bm >> i & 1)
        fails.append((pre + "ensures:OPTIMAL-implies-optimal" + knap_tag(wu, cu, den),
                      f"{shown}: OPTIMAL with {tuple(sol)} value {Fraction(tv, vden)}, but subset {wit} "
                      f"(weight {Fraction(tab[bm][0], den)} <= {Fraction(cu, den)}) has value {Fraction(bv, vden)}"))
    return fails, {"status": st, "opt": bv, "total_w": sum(wu)}


def knap_nontrivial(vu, wu, cu, info):
    # a real choice exists: not everything fits together, and the optimum is not the empty set's value
    return bool(info) and len(vu) >= 2 and info["total_w"] > cu and info["opt"] > 0


# ---------------------------------------------------------------------------------------------- bin-pack contract
def eval_bin(case, opt_known=None):
    from solvor.bin_pack import solve_bin_pack
    from oracles import binpack_exact as be

    su, cu, den = case["sizes_u"], case["cap_u"], case.get("den", 1)
    af, algo = bool(case.get("as_float", False)), case["algorithm"]
    n = len(su)
    sizes = [num(s, den, af) for s in su]
    cap = num(cu, den, af)
    pre = f"{P}/solve_bin_pack/"
    shown = f"sizes={sizes} capacity={cap} algorithm={algo!r}"
    try:
        r = solve_bin_pack(sizes, cap, algorithm=algo)
        asg, obj, st = r.solution, r.objective, getattr(r.status, "name", str(r.status))
    except Exception as e:
        return [(pre + "returns", f"{shown}: raised {type(e).__name__}: {e}")], {}
    if st not in ("OPTIMAL", "FEASIBLE") or not isinstance(asg, (tuple, list)):
        return [(pre + "returns", f"{shown}: status {st}, solution {asg!r}")], {}
    fails = []
    if len(asg) != n or not all(is_int(b) for b in asg):
        return [(pre + "ensures:every-item-one-bin", f"{shown}: assignments {asg!r} for {n} items")], {}
    try:
        k = int(obj)
        k_ok = (k == obj)
    except (TypeError, ValueError, OverflowError):
        k, k_ok = -1, False
    if not k_ok or sorted(set(asg)) != list(range(k)):
        fails.append((pre + "ensures:bins-numbered-0..k-1", f"{shown}: objective {obj!r}, bin numbers used {sorted(set(asg))}"))
        k = len(set(asg))
    loads = {}
    for i, b in enumerate(asg):
        loads[b] = loads.get(b, 0) + su[i]
    over = {b: l for b, l in loads.items() if l > cu}
    if over:
        b = min(over)
        fails.append((pre + "ensures:load-within-capacity",
                      f"{shown}: bin {b} holds items {[i for i in range(n) if asg[i] == b]} with load {Fraction(over[b], den)} > {Fraction(cu, den)}"))
    total = sum(su)
    lb = -(-total // cu)
    if k < lb:
        fails.append((pre + "ensures:k>=ceil(total/capacity)", f"{shown}: k={k} < ceil({Fraction(total, den)}/{Fraction(cu, den)})={lb}"))
    opt = opt_known if opt_known is not None else be.opt_value(tuple(su), cu)
    dec_tag = "{integer data}" if den == 1 or (cu % den == 0 and all(s % den == 0 for s in su)) else "{decimal data}"
    if algo.lower().replace("_", "-").endswith("-decreasing") and 9 * k > 11 * opt + 6:
        fails.append((pre + "ensures:decreasing-within-11/9-OPT+6/9" + dec_tag,
                      f"{shown}: k={k} bins {tuple(asg)}, OPT={opt}, 11/9*OPT+6/9={Fraction(11 * opt + 6, 9)}"))
    if st == "OPTIMAL" and k > opt and not over:
        fails.append((pre + "ensures:OPTIMAL-implies-minimal", f"{shown}: OPTIMAL with k={k}, but {opt} bins suffice"))
    return fails, {"status": st, "opt": opt, "k": k}


# ---------------------------------------------------------------------------------------------- task plumbing
class Acc:
    def __init__(self):
        self.evals = 0
        self.keys = []
        self.viol = {}  # obligation -> [count, [(size, case, detail)]]
        self.samples = []
        self.stats = {}

    def fail(self, fails, case, size):
        for ob, det in fails:
            e = self.viol.setdefault(ob, [0, []])
            e[0] += 1
            e[1].append((size, case, det))
            if len(e[1]) > 2 * EX_PER_TASK:
                e[1].sort(key=lambda t: (t[0], repr(t[1])))
                del e[1][EX_PER_TASK:]

    def stat(self, k):
        self.stats[k] = self.stats.get(k, 0) + 1

    def out(self):
        for e in self.viol.values():
            e[1].sort(key=lambda t: (t[0], repr(t[1])))
            del e[1][EX_PER_TASK:]
        return {"evals": self.evals, "keys": self.keys, "viol": self.viol, "samples": self.samples[:1], "stats": self.stats}


K_ITEMS = [(v, w) for v in range(4) for w in range(5)]  # values 0..3, weights 0..4
K_CAPS = range(0, 7)


def kcase(items, cu, den=1, vden=1, minimize=False, as_float=False):
    return {"fn": "knapsack", "values_u": [v for v, _ in items], "weights_u": [w for _, w in items], "cap_u": cu,
            "den": den, "vden": vden, "minimize": minimize, "as_float": as_float}


def knap_items_all_caps(acc, items, caps, den=1, vden=1, variants=((False, False),), count_key=False):
    """One item list, every capacity in caps, every (minimize, as_float) in variants; subset table shared."""
    from oracles import knapsack_bf as kb
    vu = [v for v, _ in items]
    wu = [w for _, w in items]
    tab = kb.subset_table(vu, wu)
    for cu in caps:
        for mini, af in variants:
            case = kcase(items, cu, den, vden, mini, af)
            fails, info = eval_knap(case, tab)
            acc.evals += 1
            if info:
                acc.stat("knap:" + info["status"])
            if fails:
                acc.fail(fails, case, (len(items), cu, sum(wu), sum(vu)))
            if count_key and not mini and not af and knap_nontrivial(vu, wu, cu, info):
                acc.keys.append(f"K{den}/{vden}|{items}|{cu}")
    if not acc.samples:
        acc.samples.append(kcase(items, caps[len(caps) // 2], den, vden))


def t_k_int_ordered(n, prefix):
    """all ordered item lists of length n over K_ITEMS that start with prefix."""
    acc = Acc()
    for rest in itertools.product(K_ITEMS, repeat=n - len(prefix)):
        items = tuple(prefix) + rest
        srt = all(items[i] <= items[i + 1] for i in range(n - 1))
        variants = [(False, False)]
        if srt or n <= 3:
            variants.append((True, False))
        if srt:
            variants.append((False, True))
        knap_items_all_caps(acc, items, K_CAPS, variants=variants, count_key=srt)
    return acc.out()


def t_k_int_multiset(n, first, second):
    """sorted multisets of size n whose two smallest items are K_ITEMS[first], K_ITEMS[second]; sorted and reversed order."""
    acc = Acc()
    for rest in itertools.combinations_with_replacement(K_ITEMS[second:], n - 2):
        items = (K_ITEMS[first], K_ITEMS[second]) + rest
        knap_items_all_caps(acc, items, K_CAPS, variants=((False, False), (True, False)), count_key=True)
        rev = items[::-1]
        if rev != items:
            knap_items_all_caps(acc, rev, K_CAPS)
    return acc.out()


def t_k_dec(den, vden, n, wmax, cmax, ordered):
    """decimal grid: weights 0..wmax units, values 1..2 units, capacities 0..cmax units (unit = 1/den)."""
    acc = Acc()
    alpha = [(v, w) for v in (1, 2) for w in range(wmax + 1)]
    it = itertools.product(alpha, repeat=n) if ordered else itertools.combinations_with_replacement(alpha, n)
    for items in it:
        srt = all(items[i] <= items[i + 1] for i in range(n - 1))
        knap_items_all_caps(acc, items, range(cmax + 1), den=den, vden=vden, count_key=srt)
        if not ordered and items[::-1] != items:
            knap_items_all_caps(acc, items[::-1], range(cmax + 1), den=den, vden=vden)
    return acc.out()


def t_k_fill(den, lo, hi):
    """'items exactly filling the capacity': capacity c units, two items a and c-a (a in a few positions), value 1 each,
    plus a third item that does not fit with both; the optimum takes the exactly-filling pair."""
    acc = Acc()
    for cu in range(lo, hi):
        for a in sorted({1, cu // 2, min(den, cu - 1), cu // 3}):
            if not 0 < a < cu:
                continue
            for items in (((1, a), (1, cu - a)), ((1, a), (1, cu - a), (1, max(1, cu // 2)))):
                knap_items_all_caps(acc, items, (cu,), den=den, count_key=True)
    return acc.out()


def rand_knap_case(rng, flavor):
    if flavor == "int":
        n = rng.randint(1, 10)
        den, vden = 1, rng.choice([1, 1, 10])
        cu = rng.choice([0, 0, rng.randint(1, 6), rng.randint(1, 40), rng.randint(1, 40)])
        wmax = rng.choice([3, 8, 15])
        vmax = rng.choice([1, 2, 5, 20])
        wu = [rng.choice([0, rng.randint(0, wmax), rng.randint(1, wmax)]) for _ in range(n)]
        vu = [rng.randint(0, vmax) for _ in range(n)]
    else:
        if flavor == "dec":
            den = rng.choice([2, 4, 5, 8, 10, 20, 20, 25, 40, 50, 100, 100, 125, 200, 250, 500, 1000, 1000])
            cu = rng.choice([0, rng.randint(1, 12), rng.randint(1, 3 * den), rng.randint(1, min(30 * den, 20000))])
            n = rng.randint(1, 7)
        elif flavor == "fine":
            den = rng.choice([16, 32, 2000, 10000, 10000, 100000, 1000000])
            cu = rng.choice([0, rng.randint(1, 9), rng.randint(1, 40), rng.randint(1, 2 * den)])
            n = rng.randint(1, 6)
        else:  # "big": capacity above 100 => scale below 1000
            den = rng.choice([2, 4, 5, 10, 20, 100])
            cu = rng.randint(100 * den + 1, rng.choice([150, 400, 3000]) * den)
            n = rng.randint(2, 4)
        vden = rng.choice([1, 1, 10, 100])
        wmax = max(1, cu)
        wu = [rng.choice([0, rng.randint(0, wmax), rng.randint(0, wmax // 2 + 1), rng.randint(0, wmax // 4 + 1)]) for _ in range(n)]
        vu = [rng.randint(0, rng.choice([1, 3, 9])) for _ in range(n)]
    # nasty regions on purpose
    r = rng.random()
    if r < 0.35 and n >= 2 and cu >= 2:  # a planted subset that fills the capacity exactly
        m = rng.randint(2, min(n, 4))
        cuts = sorted(rng.randint(0, cu) for _ in range(m - 1))
        parts = [b - a for a, b in zip([0] + cuts, cuts + [cu])]
        for j, pw in zip(rng.sample(range(n), m), parts):
            wu[j] = pw
            vu[j] = max(vu[j], 1)
    elif r < 0.45 and n >= 2:  # duplicates / ties
        j = rng.randrange(n)
        for i in range(n):
            if rng.random() < 0.5:
                wu[i], vu[i] = wu[j], vu[j]
    elif r < 0.5:  # one item over capacity by one unit, one exactly at capacity
        wu[0] = cu + 1
        if n > 1:
            wu[1] = cu
    elif r < 0.7 and flavor in ("fine", "big") and n >= 2 and cu >= 2:
        # valuable items that together exceed the capacity by 1..3 units: below the resolution of the scaled DP, this is
        # what sends solve_knapsack into _greedy_fallback
        m = rng.randint(2, min(n, 4))
        tot = cu + rng.randint(1, 3)
        cuts = sorted(rng.randint(1, tot - 1) for _ in range(m - 1))
        parts = [b - a for a, b in zip([0] + cuts, cuts + [tot])]
        for j, pw in zip(rng.sample(range(n), m), parts):
            wu[j] = pw
            vu[j] = max(vu[j], 2)
    if rng.random() < 0.15:  # zero-weight valuable item
        j = rng.randrange(n)
        wu[j], vu[j] = 0, max(1, vu[j])
    return {"fn": "knapsack", "values_u": vu, "weights_u": wu, "cap_u": cu, "den": den, "vden": vden,
            "minimize": rng.random() < 0.12, "as_float": rng.random() < 0.3}


def t_k_rand(seed, count, flavor):
    rng = random.Random(seed)
    acc = Acc()
    for _ in range(count):
        case = rand_knap_case(rng, flavor)
        fails, info = eval_knap(case)
        acc.evals += 1
        if info:
            acc.stat("knap:" + info["status"])
            acc.stat(f"knap-{flavor}:" + info["status"])
        if fails:
            acc.fail(fails, case, (len(case["values_u"]), case["cap_u"], sum(case["weights_u"]), sum(case["values_u"])))
        if not case["minimize"] and knap_nontrivial(case["values_u"], case["weights_u"], case["cap_u"], info):
            acc.keys.append(f"Kr{case['den']}/{case['vden']}|{case['values_u']}|{case['weights_u']}|{case['cap_u']}")
        if not acc.samples:
            acc.samples.append(case)
    return acc.out()


# ---- bin packing tasks
def bcase(sizes, cu, algo, den=1, as_float=False):
    return {"fn": "bin_pack", "sizes_u": list(sizes), "cap_u": cu, "den": den, "algorithm": algo, "as_float": as_float}


def bin_all_algos(acc, sizes, cu, den=1, count_key=False, as_float=False, algos=ALGOS, opt_known=None):
    for algo in algos:
        case = bcase(sizes, cu, algo, den, as_float)
        fails, info = eval_bin(case, opt_known)
        acc.evals += 1
        if info:
            acc.stat("bin:" + info["status"])
            if info["k"] > info["opt"]:
                acc.stat("bin:k>OPT")
        if fails:
            acc.fail(fails, case, (len(sizes), cu, sum(sizes)))
        if count_key and info and len(sizes) >= 2 and info["opt"] >= 2:
            acc.keys.append(f"B{den}|{tuple(sizes)}|{cu}|{algo}")
    if not acc.samples:
        acc.samples.append(bcase(sizes, cu, algos[-1], den, as_float))


def t_b_exh(den, cu, n, prefix, ordered):
    """all size lists of length n over 0..cu units starting with prefix (ordered), or all sorted multisets in three
    orders (non-decreasing, non-increasing, interleaved)."""
    acc = Acc()
    if ordered:
        for rest in itertools.product(range(cu + 1), repeat=n - len(prefix)):
            sizes = tuple(prefix) + rest
            srt = all(sizes[i] <= sizes[i + 1] for i in range(n - 1))
            bin_all_algos(acc, sizes, cu, den, count_key=srt)
            if srt and den == 1:
                bin_all_algos(acc, sizes, cu, den, as_float=True, algos=ALGOS[2:])
    else:
        for ms in itertools.combinations_with_replacement(range(cu + 1), n):
            bin_all_algos(acc, ms, cu, den, count_key=True)
            rev = ms[::-1]
            lo, mix = list(ms), []
            while lo:  # largest, smallest, 2nd largest, 2nd smallest, ...
                mix.append(lo.pop())
                if lo:
                    mix.append(lo.pop(0))
            for o in sorted({rev, tuple(mix)} - {ms}):
                bin_all_algos(acc, o, cu, den)
    return acc.out()


def t_b_rand(seed, count):
    rng = random.Random(seed)
    acc = Acc()
    for _ in range(count):
        den = rng.choice([1, 1, 1, 2, 4, 10, 10, 20, 100, 1000])
        cu = rng.choice([rng.randint(1, 12), rng.randint(3, 40), rng.randint(1, 3) * den, 7 * den // 10 or 1, 3 * den // 10 or 1])
        n = rng.randint(1, 9)
        sizes = [rng.choice([0, rng.randint(0, cu), rng.randint(0, cu), rng.randint(1, max(1, cu // 2)), cu]) for _ in range(n)]
        if rng.random() < 0.5:  # complementary pairs that fill a bin exactly
            for j in range(0, n - 1, 2):
                if rng.random() < 0.6:
                    sizes[j + 1] = cu - sizes[j]
        if rng.random() < 0.15:  # ties
            sizes = [sizes[0] if rng.random() < 0.6 else s for s in sizes]
        af = den == 1 and rng.random() < 0.3
        algos = ALGOS if rng.random() < 0.8 else tuple(ALIASES[a] for a in ALGOS)
        bin_all_algos(acc, tuple(sizes), cu, den, count_key=True, as_float=af, algos=algos)
    return acc.out()


def t_b_perfect(seed, count):
    """instances cut from m completely full bins: OPT = m by construction (total = m*capacity, and the cut is a packing)."""
    from oracles import binpack_exact as be
    rng = random.Random(seed)
    acc = Acc()
    for _ in range(count):
        den = rng.choice([1, 1, 2, 10, 20, 100, 1000])
        m = rng.randint(1, 12)
        cu = rng.choice([rng.randint(2, 12), rng.randint(5, 60), den, 3 * den, 7 * den // 10 or 2, 3 * den // 10 or 2])
        cu = max(cu, 2)
        sizes, bins = [], []
        for _b in range(m):
            p = rng.randint(1, min(5, cu))
            cuts = sorted(rng.sample(range(1, cu), p - 1))
            parts = [b - a for a, b in zip([0] + cuts, cuts + [cu])]
            bins.append(list(range(len(sizes), len(sizes) + len(parts))))
            sizes += parts
        for _z in range(rng.choice([0, 0, 1, 3])):
            bins[0].append(len(sizes))
            sizes.append(0)
        perm = list(range(len(sizes)))
        rng.shuffle(perm)
        shuffled = [sizes[i] for i in perm]
        inv = {old: new for new, old in enumerate(perm)}
        wit = [[inv[i] for i in b] for b in bins]
        if not be.check_packing(shuffled, cu, wit) or sum(shuffled) != m * cu:
            raise AssertionError("perfect-packing generator is wrong")
        bin_all_algos(acc, tuple(shuffled), cu, den, count_key=True, opt_known=m)
    return acc.out()


TASKS = {f.__name__: f for f in (t_k_int_ordered, t_k_int_multiset, t_k_dec, t_k_fill, t_k_rand, t_b_exh, t_b_rand, t_b_perfect)}


def work(task):
    return task[0], TASKS[task[0]](*task[1:])


# ---------------------------------------------------------------------------------------------- driver
def plan(ctx: Ctx):
    q = ctx.quick
    rng = random.Random(ctx.seed)
    tasks = []
    # knapsack, integers, exhaustive
    nmax_ord = 4 if q else 5
    for n in range(0, nmax_ord + 1):
        if n <= 2:
            tasks.append(("t_k_int_ordered", n, ()))
        elif n <= 4:
            tasks += [("t_k_int_ordered", n, (a,)) for a in K_ITEMS] if n == 3 else [("t_k_int_ordered", n, (a, b)) for a in K_ITEMS for b in K_ITEMS]
        else:
            tasks += [("t_k_int_ordered", n, (a, b, c)) for a in K_ITEMS for b in K_ITEMS for c in K_ITEMS]
    ctx.scope("knapsack integer exhaustive (ordered lists)", items=f"0..{nmax_ord}", values="0..3", weights="0..4", capacity="0..6",
              modes="maximize for every list; minimize for lists with <=3 items and for sorted lists; float-typed (2.0) for sorted lists",
              exhaustive=True)
    ms_n = (5,) if q else (6,)
    for n in ms_n:
        tasks += [("t_k_int_multiset", n, f, g) for f in range(len(K_ITEMS)) for g in range(f, len(K_ITEMS))]
    ctx.scope("knapsack integer exhaustive (multisets, sorted + reversed order)", items=list(ms_n), values="0..3", weights="0..4",
              capacity="0..6", modes="max and min (sorted order), max (reversed order)", exhaustive=True)
    # knapsack, decimal grids, exhaustive
    dens = [2, 4, 5, 8, 10, 20, 100, 1000, 10000]
    for den in dens:
        for n in (1, 2, 3):
            tasks.append(("t_k_dec", den, 10 if den % 10 == 0 else 1, n, 8 if q else 10, 8 if q else 10, (not q) or n <= 2))
    ctx.scope("knapsack decimal grid exhaustive", unit=[f"1/{d}" for d in dens], items="1..3", weights_units="0..8" if q else "0..10",
              capacity_units="0..8" if q else "0..10", values_units="1..2 (value unit 0.1 when the grid is decimal)",
              order="ordered lists up to 2 items, 3 items as multisets (sorted + reversed)" if q else "ordered lists", exhaustive=True)
    fills = [(100, 2, 450 if q else 2000), (1000, 2, 1500 if q else 6000), (20, 2, 340 if q else 1320), (10, 2, 340 if q else 660), (4, 2, 80 if q else 200)]
    for den, lo, hi in fills:
        step = max(20, (hi - lo) // 24)
        tasks += [("t_k_fill", den, a, min(hi, a + step)) for a in range(lo, hi, step)]
    ctx.scope("knapsack decimal exact-fill sweep", family="capacity c units, items {a, c-a} (+ one more), a in {1, c/3, c/2, 1.0}",
              sweeps=[{"unit": f"1/{d}", "capacity_units": f"{lo}..{hi - 1}"} for d, lo, hi in fills], exhaustive=True)
    # knapsack random
    rk = {"int": 6000 if q else 120000, "dec": 5000 if q else 80000, "fine": 4000 if q else 40000, "big": 384 if q else 6400}
    for flavor, cnt in rk.items():
        chunks = 32 if flavor != "big" else 64
        tasks += [("t_k_rand", rng.getrandbits(48), cnt // chunks, flavor) for _ in range(chunks)]
    ctx.scope("knapsack random", runs=rk, int="n<=10, weights<=15, values<=20, capacity<=40", dec="unit 1/2..1/1000, n<=7, capacity<=30",
              fine="unit 1/16, 1/32, 1/2000..1/10^6, tiny capacities", big="capacity 100..3000 (scale < 1000), n<=4",
              planted="exact-fill subsets, duplicates, item = capacity, item = capacity + 1 unit, zero-weight valuable items, capacity 0")
    # bin packing, exhaustive
    nb = 5 if q else 6
    for cu in range(1, 7):
        for n in range(0, nb + 1):
            if n <= 3:
                tasks.append(("t_b_exh", 1, cu, n, (), True))
            else:
                tasks += [("t_b_exh", 1, cu, n, (a,), True) for a in range(cu + 1)]
        tasks.append(("t_b_exh", 1, cu, nb + 1, (), False))
    ctx.scope("bin packing integer exhaustive", items=f"0..{nb} ordered lists, {nb + 1} as multisets in 3 orders", sizes="0..capacity",
              capacity="1..6", algorithms=list(ALGOS), exhaustive=True)
    bdens = [10, 20, 100, 1000, 4]
    for den in bdens:
        for cu in (3, 6, 7, 9, 10) if q else range(1, 11):
            for n in (1, 2, 3, 4):
                if n <= 3 or q:
                    tasks.append(("t_b_exh", den, cu, n, (), True))
                else:
                    tasks += [("t_b_exh", den, cu, n, (a,), True) for a in range(cu + 1)]
            if not q:
                tasks += [("t_b_exh", den, cu, 5, (a,), True) for a in range(cu + 1)]
    ctx.scope("bin packing decimal grid exhaustive", unit=[f"1/{d}" for d in bdens], capacity_units=[3, 6, 7, 9, 10] if q else "1..10",
              items="1..4" if q else "1..5", sizes="0..capacity", algorithms=list(ALGOS), exhaustive=True)
    rb = 16000 if q else 200000
    rp = 24000 if q else 160000
    tasks += [("t_b_rand", rng.getrandbits(48), rb // 32) for _ in range(32)]
    tasks += [("t_b_perfect", rng.getrandbits(48), rp // 32) for _ in range(32)]
    ctx.scope("bin packing random", runs=rb, items="1..9 (exact optimum by enumeration)", unit="1, 1/2 .. 1/1000",
              planted="complementary pairs filling a bin, ties, zeros, items = capacity; algorithm aliases")
    ctx.scope("bin packing perfect-packing instances", runs=rp, bins="1..12 full bins cut into 1..5 pieces, shuffled, optional zero-size items",
              optimum="known by construction")
    return tasks


def run(ctx: Ctx):
    use_repo()
    tasks = plan(ctx)
    # long tasks first (better pool balance), deterministic order of results kept by pmap
    heavy = {"t_k_int_multiset": 0, "t_k_dec": 0, "t_k_fill": 1, "t_k_int_ordered": 2, "t_b_exh": 3}
    tasks.sort(key=lambda t: heavy.get(t[0], 4))  # stable: long tasks first for pool balance, still deterministic
    results = pmap(work, tasks, chunksize=1)
    viol = {}
    stats = {}
    for _name, res in results:
        ctx.count(res["evals"], res["keys"], res["samples"])
        for k, v in res["stats"].items():
            stats[k] = stats.get(k, 0) + v
        for ob, (cnt, exs) in res["viol"].items():
            e = viol.setdefault(ob, [0, []])
            e[0] += cnt
            e[1].extend(exs)
    for ob in sorted(viol):
        cnt, exs = viol[ob]
        exs.sort(key=lambda t: (tuple(t[0]), repr(t[1])))
        for _size, case, det in exs[:3]:
            ctx.violation(ob, case, det)
    ctx.notes["failing_evaluations_by_obligation"] = {ob: viol[ob][0] for ob in sorted(viol)}
    ctx.notes["result_statistics"] = dict(sorted(stats.items()))
    ctx.rule = ("cases are generated on an integer grid (unit 1/den) and handed to the real functions as ints or as the nearest floats; "
                "exhaustive scopes enumerate every list of the stated shape, random scopes plant exact fills, ties, zeros and "
                "over-by-one-unit items. Non-trivial knapsack case: maximize, >=2 items, not all items fit together and the optimum is "
                "positive. Non-trivial packing case: >=2 items and the optimum needs >=2 bins. Distinct = different (unit, multiset-sorted "
                "item list as generated, capacity[, algorithm]); permutations, minimize and float-typed variants of one list are evaluated "
                "but not counted as distinct")
    ctx.assumptions += [
        "decimal reading: a float argument stands for the decimal k/den it was generated from (den <= 10^6, magnitudes <= 3000); "
        "feasibility, optimality and bin loads are judged on those decimals exactly. The code's absolute 1e-9 slack is far below one grid unit",
        "values, weights, sizes are non-negative; capacity >= 0 (knapsack) / > 0 (bin packing); no NaN/inf",
        "11/9*OPT+6/9 is evaluated against the exact optimum (enumeration, <=9 items) or an optimum known by construction (perfect packings)",
    ]
    ctx.trusted += ["oracles/knapsack_bf.py (all 2^n subsets, integers)", "oracles/binpack_exact.py (subset decomposition, integers)",
                    "fractions.Fraction -> float conversion (correctly rounded)"]


def replay(rec) -> int:
    use_repo()
    case = rec["case"]
    fails, info = (eval_knap(case) if case.get("fn") == "knapsack" else eval_bin(case))
    print("replay case:", case)
    print("result info:", info)
    for ob, det in fails:
        print("  still violates:", ob, "::", det)
    if not fails:
        print("  no violation")
    want = rec.get("obligation")
    return 1 if any(ob == want for ob, _ in fails) or (fails and not want) else 0

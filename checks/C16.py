"""C16 - knapsack / bin-packing answers are feasible, scored faithfully, labelled right (bounded back end).

Top-level contract (taken from the property statement) evaluated on the real solve_knapsack / solve_bin_pack:

solve_knapsack(values, weights, capacity, minimize)
  returns                       comes back with a Result whose status is OPTIMAL or FEASIBLE
  distinct-indices-in-range     solution = distinct ints in 0..n-1
  weight-within-capacity        sum of chosen weights <= capacity
  objective-is-sum-of-values    objective == sum of chosen values
  OPTIMAL-implies-optimal{..}   status OPTIMAL => no subset within capacity has a better value (max, or min when
                                minimize=True); tagged by an *input* predicate so that root causes can be told apart:
                                {integer data} {decimal data} {decimal data, >3 decimals}, each also with ", capacity 0"
solve_bin_pack(sizes, capacity, algorithm)
  returns / every-item-one-bin / bins-numbered-0..k-1 (k == objective, every number used) /
  load-within-capacity / k>=ceil(total/capacity) / decreasing-within-11/9-OPT+6/9{..} / OPTIMAL-implies-minimal

Decimal inputs: every instance is generated on an integer grid (units of 1/den); the functions receive the floats
nearest to k/den (what a user typing 0.35 passes); the contract and the oracles work on the integer units, so
"fits", "better" and "fewer bins" are decided exactly.

Input spaces: small-scope exhaustive + seeded random (this file: every call on newly built arguments, optimum by complete
enumeration), and - checks/C16_round2.py - a size ladder (hundreds to thousands of items, optimum by an independent capacity DP
/ certified by planted packings), fine-grained numerics (dyadic grids, exact fits), and history mode (programs of calls and
in-place edits on the SAME argument objects inside one fresh process, every call judged on the contents at that call, last call
compared with an isolated call in another fresh process; obligation ensures:same-answer-in-a-fresh-process), and -
checks/C16_round3.py - multiplicity instances (2..5 distinct sizes / item types, long runs of identical items, every
multiplicity vector of a box, optimum by a pattern DP over the box).  The contract functions judge_knap / judge_bin are shared
by all of them.
"""
from __future__ import annotations

import itertools
import random
from fractions import Fraction

from vf.core import Ctx, use_repo
from vf.pool import pmap

LEVEL = "exploration"
P = "C16"
ALGOS = ("first-fit", "best-fit", "first-fit-decreasing", "best-fit-decreasing")
ALIASES = {"first-fit": "ff", "best-fit": "BF", "first-fit-decreasing": "first_fit_decreasing", "best-fit-decreasing": "Best-Fit-Decreasing"}
EX_PER_TASK = 3


# ---------------------------------------------------------------------------------------------- numbers
def num(k, den, as_float=False):
    if den == 1:
        return float(k) if as_float else k
    return float(Fraction(k, den))


def close(x, exact: Fraction):
    try:
        return abs(Fraction(x) - exact) <= Fraction(1, 10**9) * (1 + abs(exact))
    except (TypeError, ValueError, OverflowError):
        return False


def is_int(x):
    return isinstance(x, int) and not isinstance(x, bool)


# ---------------------------------------------------------------------------------------------- knapsack contract
def knap_tag(wu, cu, den):
    if den == 1 or (cu % den == 0 and all(w % den == 0 for w in wu)):
        base = "integer data"
    else:
        base = "decimal data" if 1000 % den == 0 else "decimal data, >3 decimals"
    return "{" + base + (", capacity 0}" if cu == 0 else "}")


BF_MAX = 14  # complete subset enumeration up to this many items, capacity DP (integer units) above


def make_seq(units, den, as_float, container):
    xs = [num(u, den, as_float) for u in units]
    return tuple(xs) if container == "tuple" else xs


def call_knap(case, values=None, weights=None):
    """Call the real function. values/weights: live argument objects (history mode); built fresh from the case otherwise.
    -> ("ok", solution, objective, status-name) | ("raised", text)"""
    from solvor.knapsack import solve_knapsack
    from checks.guard import guarded
    den, vden = case.get("den", 1), case.get("vden", 1)
    af, cont = bool(case.get("as_float", False)), case.get("container", "list")
    if values is None:
        values = make_seq(case["values_u"], vden, af, cont)
        weights = values if case.get("alias") else make_seq(case["weights_u"], den, af, cont)
    try:
        r = guarded("solve_knapsack", solve_knapsack, values, weights, num(case["cap_u"], den, af), minimize=bool(case.get("minimize", False)))
        return ("ok", r.solution, r.objective, getattr(r.status, "name", str(r.status)))
    except Exception as e:  # valid input: must come back
        return ("raised", f"{type(e).__name__}: {e}")


def brief(xs, limit=14):
    xs = list(xs)
    return repr(xs) if len(xs) <= limit else f"[{', '.join(map(repr, xs[:6]))}, ... {len(xs)} entries ..., {', '.join(map(repr, xs[-3:]))}]"


def judge_knap(case, outcome, tab=None, opt=None):
    """The contract of solve_knapsack on one call. -> (failures [(obligation, detail)], info dict)."""
    from oracles import knapsack_bf as kb
    from oracles import knapsack_dp as kd

    vu, wu, cu = case["values_u"], case["weights_u"], case["cap_u"]
    den, vden = case.get("den", 1), case.get("vden", 1)
    mini, af = bool(case.get("minimize", False)), bool(case.get("as_float", False))
    n = len(vu)
    pre = f"{P}/solve_knapsack/"
    shown = (f"values={brief(num(v, vden, af) for v in vu)} weights={brief(num(w, den, af) for w in wu)} "
             f"capacity={num(cu, den, af)} minimize={mini}")
    if outcome[0] != "ok":
        return [(pre + "returns", f"{shown}: raised {outcome[1]}")], {}
    _, sol, obj, st = outcome
    fails = []
    if st not in ("OPTIMAL", "FEASIBLE") or not isinstance(sol, (tuple, list)):
        return [(pre + "returns", f"{shown}: status {st}, solution {sol!r}")], {}
    if not all(is_int(i) and 0 <= i < n for i in sol) or len(set(sol)) != len(sol):
        return [(pre + "ensures:distinct-indices-in-range", f"{shown}: solution {brief(sol)}")], {}
    tw = sum(wu[i] for i in sol)
    tv = sum(vu[i] for i in sol)
    if tw > cu:
        fails.append((pre + "ensures:weight-within-capacity",
                      f"{shown}: chose {brief(sol)} with weight {Fraction(tw, den)} > capacity {Fraction(cu, den)} (status {st})"))
    if not close(obj, Fraction(tv, vden)):
        fails.append((pre + "ensures:objective-is-sum-of-values", f"{shown}: objective {obj!r}, chosen {brief(sol)} sum to {Fraction(tv, vden)}"))
    if tab is None and opt is None and n <= BF_MAX:
        tab = kb.subset_table(vu, wu)
    wit, ww, how = None, None, "complete enumeration"
    if tab is not None:
        bv, bm = kb.best_from_table(tab, cu, mini)
        wit, ww = tuple(i for i in range(n) if bm >> i & 1), tab[bm][0]
    elif mini:
        bv, wit, ww, how = 0, (), 0, "the empty set (values are non-negative)"
    else:
        bv, how = (opt if opt is not None else kd.dp_max(vu, wu, cu)), "capacity DP on the integer units"
    if tw <= cu and (tv < bv if mini else tv > bv):
        raise AssertionError(f"oracle defect: {how} says optimum {bv}, the library returned a feasible subset worth {tv}: {case}")
    if st == "OPTIMAL" and tw <= cu and (tv > bv if mini else tv < bv):
        if wit is None:
            bv2, w2 = kd.dp_witness(vu, wu, cu)
            if bv2 != bv or kb.best_dp_int(vu, wu, cu) != bv:
                raise AssertionError(f"oracle defect: the knapsack oracles disagree on {case}")
            if w2 is not None:
                wit, ww = tuple(w2), sum(wu[i] for i in w2)
        better = (f"subset {brief(wit)} (weight {Fraction(ww, den)} <= {Fraction(cu, den)}) has value {Fraction(bv, vden)}" if wit is not None
                  else f"a subset within capacity has value {Fraction(bv, vden)} (two independent DPs agree)")
        fails.append((pre + "ensures:OPTIMAL-implies-optimal" + knap_tag(wu, cu, den),
                      f"{shown}: OPTIMAL with {brief(sol)} value {Fraction(tv, vden)}, but {better} [{how}]"))
    return fails, {"status": st, "opt": bv, "total_w": sum(wu)}


def eval_knap(case, tab=None, opt=None):
    """-> (failures [(obligation, detail)], info dict)."""
    return judge_knap(case, call_knap(case), tab, opt)


def knap_nontrivial(vu, wu, cu, info):
    # a real choice exists: not everything fits together, and the optimum is not the empty set's value
    return bool(info) and len(vu) >= 2 and info["total_w"] > cu and info["opt"] > 0


# ---------------------------------------------------------------------------------------------- bin-pack contract
EXACT_BINS_MAX = 9  # exact optimum by subset decomposition up to this many positive items, certified bounds above


def call_bin(case, sizes=None):
    from solvor.bin_pack import solve_bin_pack
    from checks.guard import guarded
    den, af = case.get("den", 1), bool(case.get("as_float", False))
    if sizes is None:
        sizes = make_seq(case["sizes_u"], den, af, case.get("container", "list"))
    try:
        r = guarded("solve_bin_pack", solve_bin_pack, sizes, num(case["cap_u"], den, af), algorithm=case["algorithm"])
        return ("ok", r.solution, r.objective, getattr(r.status, "name", str(r.status)))
    except Exception as e:
        return ("raised", f"{type(e).__name__}: {e}")


def bin_opt_range(case, opt_known=None):
    """(lo, hi) with lo <= OPT <= hi (hi None: no upper bound known)."""
    from oracles import binpack_cert as bc
    from oracles import binpack_exact as be
    su, cu = case["sizes_u"], case["cap_u"]
    if isinstance(opt_known, (tuple, list)):
        return tuple(opt_known)
    if opt_known is not None:
        return opt_known, opt_known
    if sum(1 for s in su if s > 0) <= EXACT_BINS_MAX:
        o = be.opt_value(tuple(su), cu)
        return o, o
    return bc.opt_range(su, cu, case.get("witness"))


def judge_bin(case, outcome, opt_known=None):
    su, cu, den = case["sizes_u"], case["cap_u"], case.get("den", 1)
    af, algo = bool(case.get("as_float", False)), case["algorithm"]
    n = len(su)
    pre = f"{P}/solve_bin_pack/"
    shown = f"sizes={brief(num(s, den, af) for s in su)} capacity={num(cu, den, af)} algorithm={algo!r}"
    if outcome[0] != "ok":
        return [(pre + "returns", f"{shown}: raised {outcome[1]}")], {}
    _, asg, obj, st = outcome
    if st not in ("OPTIMAL", "FEASIBLE") or not isinstance(asg, (tuple, list)):
        return [(pre + "returns", f"{shown}: status {st}, solution {asg!r}")], {}
    fails = []
    if len(asg) != n or not all(is_int(b) for b in asg):
        return [(pre + "ensures:every-item-one-bin", f"{shown}: assignments {brief(asg)} for {n} items")], {}
    try:
        k = int(obj)
        k_ok = (k == obj)
    except (TypeError, ValueError, OverflowError):
        k, k_ok = -1, False
    if not k_ok or sorted(set(asg)) != list(range(k)):
        fails.append((pre + "ensures:bins-numbered-0..k-1", f"{shown}: objective {obj!r}, bin numbers used {brief(sorted(set(asg)))}"))
        k = len(set(asg))
    loads = {}
    for i, b in enumerate(asg):
        loads[b] = loads.get(b, 0) + su[i]
    over = {b: l for b, l in loads.items() if l > cu}
    if over:
        b = min(over)
        fails.append((pre + "ensures:load-within-capacity",
                      f"{shown}: bin {b} holds items {[i for i in range(n) if asg[i] == b]} with load {Fraction(over[b], den)} > {Fraction(cu, den)}"))
    total = sum(su)
    lb = -(-total // cu)
    if k < lb:
        fails.append((pre + "ensures:k>=ceil(total/capacity)", f"{shown}: k={k} < ceil({Fraction(total, den)}/{Fraction(cu, den)})={lb}"))
    lo, hi = bin_opt_range(case, opt_known)
    if not over and k_ok and k < lo:
        raise AssertionError(f"oracle defect: a valid packing into {k} bins, but the lower bound says {lo}: {case}")
    opt_txt = f"OPT={hi}" if lo == hi else f"OPT<={hi} (planted packing; proven lower bound {lo})"
    dec_tag = "{integer data}" if den == 1 or (cu % den == 0 and all(s % den == 0 for s in su)) else "{decimal data}"
    # sound with an upper bound only: k > 11/9*hi + 6/9 >= 11/9*OPT + 6/9
    if hi is not None and algo.lower().replace("_", "-").endswith("-decreasing") and 9 * k > 11 * hi + 6:
        fails.append((pre + "ensures:decreasing-within-11/9-OPT+6/9" + dec_tag,
                      f"{shown}: k={k} bins {brief(asg)}, {opt_txt}, 11/9*{hi}+6/9={Fraction(11 * hi + 6, 9)}"))
    if hi is not None and st == "OPTIMAL" and k > hi and not over:
        fails.append((pre + "ensures:OPTIMAL-implies-minimal", f"{shown}: OPTIMAL with k={k}, but {hi} bins suffice ({opt_txt})"))
    return fails, {"status": st, "opt": hi if hi is not None else lo, "opt_known": lo == hi, "k": k}


def eval_bin(case, opt_known=None):
    return judge_bin(case, call_bin(case), opt_known)


# ---------------------------------------------------------------------------------------------- task plumbing
class Acc:
    def __init__(self):
        self.evals = 0
        self.keys = []
        self.viol = {}  # obligation -> [count, [(size, case, detail)]]
        self.samples = []
        self.stats = {}

    def fail(self, fails, case, size):
        for ob, det in fails:
            e = self.viol.setdefault(ob, [0, []])
            e[0] += 1
            e[1].append((size, case, det))
            if len(e[1]) > 2 * EX_PER_TASK:
                e[1].sort(key=lambda t: (t[0], repr(t[1])))
                del e[1][EX_PER_TASK:]

    def stat(self, k):
        self.stats[k] = self.stats.get(k, 0) + 1

    def out(self):
        for e in self.viol.values():
            e[1].sort(key=lambda t: (t[0], repr(t[1])))
            del e[1][EX_PER_TASK:]
        return {"evals": self.evals, "keys": self.keys, "viol": self.viol, "samples": self.samples[:1], "stats": self.stats}


K_ITEMS = [(v, w) for v in range(4) for w in range(5)]  # values 0..3, weights 0..4
K_CAPS = range(0, 7)


def kcase(items, cu, den=1, vden=1, minimize=False, as_float=False):
    return {"fn": "knapsack", "values_u": [v for v, _ in items], "weights_u": [w for _, w in items], "cap_u": cu,
            "den": den, "vden": vden, "minimize": minimize, "as_float": as_float}


def knap_items_all_caps(acc, items, caps, den=1, vden=1, variants=((False, False),), count_key=False):
    """One item list, every capacity in caps, every (minimize, as_float) in variants; subset table shared."""
    from oracles import knapsack_bf as kb
    vu = [v for v, _ in items]
    wu = [w for _, w in items]
    tab = kb.subset_table(vu, wu)
    for cu in caps:
        for mini, af in variants:
            case = kcase(items, cu, den, vden, mini, af)
            fails, info = eval_knap(case, tab)
            acc.evals += 1
            if info:
                acc.stat("knap:" + info["status"])
            if fails:
                acc.fail(fails, case, (len(items), cu, sum(wu), sum(vu)))
            if count_key and not mini and not af and knap_nontrivial(vu, wu, cu, info):
                acc.keys.append(f"K{den}/{vden}|{items}|{cu}")
    if not acc.samples:
        acc.samples.append(kcase(items, caps[len(caps) // 2], den, vden))


def t_k_int_ordered(n, prefix):
    """all ordered item lists of length n over K_ITEMS that start with prefix."""
    acc = Acc()
    for rest in itertools.product(K_ITEMS, repeat=n - len(prefix)):
        items = tuple(prefix) + rest
        srt = all(items[i] <= items[i + 1] for i in range(n - 1))
        variants = [(False, False)]
        if srt or n <= 3:
            variants.append((True, False))
        if srt:
            variants.append((False, True))
        knap_items_all_caps(acc, items, K_CAPS, variants=variants, count_key=srt)
    return acc.out()


def t_k_int_multiset(n, first, second):
    """sorted multisets of size n whose two smallest items are K_ITEMS[first], K_ITEMS[second]; sorted and reversed order."""
    acc = Acc()
    for rest in itertools.combinations_with_replacement(K_ITEMS[second:], n - 2):
        items = (K_ITEMS[first], K_ITEMS[second]) + rest
        knap_items_all_caps(acc, items, K_CAPS, variants=((False, False), (True, False)), count_key=True)
        rev = items[::-1]
        if rev != items:
            knap_items_all_caps(acc, rev, K_CAPS)
    return acc.out()


def t_k_dec(den, vden, n, wmax, cmax, ordered):
    """decimal grid: weights 0..wmax units, values 1..2 units, capacities 0..cmax units (unit = 1/den)."""
    acc = Acc()
    alpha = [(v, w) for v in (1, 2) for w in range(wmax + 1)]
    it = itertools.product(alpha, repeat=n) if ordered else itertools.combinations_with_replacement(alpha, n)
    for items in it:
        srt = all(items[i] <= items[i + 1] for i in range(n - 1))
        knap_items_all_caps(acc, items, range(cmax + 1), den=den, vden=vden, count_key=srt)
        if not ordered and items[::-1] != items:
            knap_items_all_caps(acc, items[::-1], range(cmax + 1), den=den, vden=vden)
    return acc.out()


def t_k_fill(den, lo, hi):
    """'items exactly filling the capacity': capacity c units, two items a and c-a (a in a few positions), value 1 each,
    plus a third item that does not fit with both; the optimum takes the exactly-filling pair."""
    acc = Acc()
    for cu in range(lo, hi):
        for a in sorted({1, cu // 2, min(den, cu - 1), cu // 3}):
            if not 0 < a < cu:
                continue
            for items in (((1, a), (1, cu - a)), ((1, a), (1, cu - a), (1, max(1, cu // 2)))):
                knap_items_all_caps(acc, items, (cu,), den=den, count_key=True)
    return acc.out()


def rand_knap_case(rng, flavor):
    if flavor == "int":
        n = rng.randint(1, 10)
        den, vden = 1, rng.choice([1, 1, 10])
        cu = rng.choice([0, 0, rng.randint(1, 6), rng.randint(1, 40), rng.randint(1, 40)])
        wmax = rng.choice([3, 8, 15])
        vmax = rng.choice([1, 2, 5, 20])
        wu = [rng.choice([0, rng.randint(0, wmax), rng.randint(1, wmax)]) for _ in range(n)]
        vu = [rng.randint(0, vmax) for _ in range(n)]
    else:
        if flavor == "dec":
            den = rng.choice([2, 4, 5, 8, 10, 20, 20, 25, 40, 50, 100, 100, 125, 200, 250, 500, 1000, 1000])
            cu = rng.choice([0, rng.randint(1, 12), rng.randint(1, 3 * den), rng.randint(1, min(30 * den, 20000))])
            n = rng.randint(1, 7)
        elif flavor == "fine":
            den = rng.choice([16, 32, 2000, 10000, 10000, 100000, 1000000])
            cu = rng.choice([0, rng.randint(1, 9), rng.randint(1, 40), rng.randint(1, 2 * den)])
            n = rng.randint(1, 6)
        else:  # "big": capacity above 100 => scale below 1000
            den = rng.choice([2, 4, 5, 10, 20, 100])
            cu = rng.randint(100 * den + 1, rng.choice([150, 400, 3000]) * den)
            n = rng.randint(2, 4)
        vden = rng.choice([1, 1, 10, 100])
        wmax = max(1, cu)
        wu = [rng.choice([0, rng.randint(0, wmax), rng.randint(0, wmax // 2 + 1), rng.randint(0, wmax // 4 + 1)]) for _ in range(n)]
        vu = [rng.randint(0, rng.choice([1, 3, 9])) for _ in range(n)]
    # nasty regions on purpose
    r = rng.random()
    if r < 0.35 and n >= 2 and cu >= 2:  # a planted subset that fills the capacity exactly
        m = rng.randint(2, min(n, 4))
        cuts = sorted(rng.randint(0, cu) for _ in range(m - 1))
        parts = [b - a for a, b in zip([0] + cuts, cuts + [cu])]
        for j, pw in zip(rng.sample(range(n), m), parts):
            wu[j] = pw
            vu[j] = max(vu[j], 1)
    elif r < 0.45 and n >= 2:  # duplicates / ties
        j = rng.randrange(n)
        for i in range(n):
            if rng.random() < 0.5:
                wu[i], vu[i] = wu[j], vu[j]
    elif r < 0.5:  # one item over capacity by one unit, one exactly at capacity
        wu[0] = cu + 1
        if n > 1:
            wu[1] = cu
    elif r < 0.7 and flavor in ("fine", "big") and n >= 2 and cu >= 2:
        # valuable items that together exceed the capacity by 1..3 units: below the resolution of the scaled DP, this is
        # what sends solve_knapsack into _greedy_fallback
        m = rng.randint(2, min(n, 4))
        tot = cu + rng.randint(1, 3)
        cuts = sorted(rng.randint(1, tot - 1) for _ in range(m - 1))
        parts = [b - a for a, b in zip([0] + cuts, cuts + [tot])]
        for j, pw in zip(rng.sample(range(n), m), parts):
            wu[j] = pw
            vu[j] = max(vu[j], 2)
    if rng.random() < 0.15:  # zero-weight valuable item
        j = rng.randrange(n)
        wu[j], vu[j] = 0, max(1, vu[j])
    return {"fn": "knapsack", "values_u": vu, "weights_u": wu, "cap_u": cu, "den": den, "vden": vden,
            "minimize": rng.random() < 0.12, "as_float": rng.random() < 0.3}


def t_k_rand(seed, count, flavor):
    rng = random.Random(seed)
    acc = Acc()
    for _ in range(count):
        case = rand_knap_case(rng, flavor)
        fails, info = eval_knap(case)
        acc.evals += 1
        if info:
            acc.stat("knap:" + info["status"])
            acc.stat(f"knap-{flavor}:" + info["status"])
        if fails:
            acc.fail(fails, case, (len(case["values_u"]), case["cap_u"], sum(case["weights_u"]), sum(case["values_u"])))
        if not case["minimize"] and knap_nontrivial(case["values_u"], case["weights_u"], case["cap_u"], info):
            acc.keys.append(f"Kr{case['den']}/{case['vden']}|{case['values_u']}|{case['weights_u']}|{case['cap_u']}")
        if not acc.samples:
            acc.samples.append(case)
    return acc.out()


# ---- bin packing tasks
def bcase(sizes, cu, algo, den=1, as_float=False):
    return {"fn": "bin_pack", "sizes_u": list(sizes), "cap_u": cu, "den": den, "algorithm": algo, "as_float": as_float}


def bin_all_algos(acc, sizes, cu, den=1, count_key=False, as_float=False, algos=ALGOS, opt_known=None):
    for algo in algos:
        case = bcase(sizes, cu, algo, den, as_float)
        fails, info = eval_bin(case, opt_known)
        acc.evals += 1
        if info:
            acc.stat("bin:" + info["status"])
            if info["k"] > info["opt"]:
                acc.stat("bin:k>OPT")
        if fails:
            acc.fail(fails, case, (len(sizes), cu, sum(sizes)))
        if count_key and info and len(sizes) >= 2 and info["opt"] >= 2:
            acc.keys.append(f"B{den}|{tuple(sizes)}|{cu}|{algo}")
    if not acc.samples:
        acc.samples.append(bcase(sizes, cu, algos[-1], den, as_float))


def t_b_exh(den, cu, n, prefix, ordered):
    """all size lists of length n over 0..cu units starting with prefix (ordered), or all sorted multisets in three
    orders (non-decreasing, non-increasing, interleaved)."""
    acc = Acc()
    if ordered:
        for rest in itertools.product(range(cu + 1), repeat=n - len(prefix)):
            sizes = tuple(prefix) + rest
            srt = all(sizes[i] <= sizes[i + 1] for i in range(n - 1))
            bin_all_algos(acc, sizes, cu, den, count_key=srt)
            if srt and den == 1:
                bin_all_algos(acc, sizes, cu, den, as_float=True, algos=ALGOS[2:])
    else:
        for ms in itertools.combinations_with_replacement(range(cu + 1), n):
            bin_all_algos(acc, ms, cu, den, count_key=True)
            rev = ms[::-1]
            lo, mix = list(ms), []
            while lo:  # largest, smallest, 2nd largest, 2nd smallest, ...
                mix.append(lo.pop())
                if lo:
                    mix.append(lo.pop(0))
            for o in sorted({rev, tuple(mix)} - {ms}):
                bin_all_algos(acc, o, cu, den)
    return acc.out()


def t_b_rand(seed, count):
    rng = random.Random(seed)
    acc = Acc()
    for _ in range(count):
        den = rng.choice([1, 1, 1, 2, 4, 10, 10, 20, 100, 1000])
        cu = rng.choice([rng.randint(1, 12), rng.randint(3, 40), rng.randint(1, 3) * den, 7 * den // 10 or 1, 3 * den // 10 or 1])
        n = rng.randint(1, 9)
        sizes = [rng.choice([0, rng.randint(0, cu), rng.randint(0, cu), rng.randint(1, max(1, cu // 2)), cu]) for _ in range(n)]
        if rng.random() < 0.5:  # complementary pairs that fill a bin exactly
            for j in range(0, n - 1, 2):
                if rng.random() < 0.6:
                    sizes[j + 1] = cu - sizes[j]
        if rng.random() < 0.15:  # ties
            sizes = [sizes[0] if rng.random() < 0.6 else s for s in sizes]
        af = den == 1 and rng.random() < 0.3
        algos = ALGOS if rng.random() < 0.8 else tuple(ALIASES[a] for a in ALGOS)
        bin_all_algos(acc, tuple(sizes), cu, den, count_key=True, as_float=af, algos=algos)
    return acc.out()


def t_b_perfect(seed, count):
    """instances cut from m completely full bins: OPT = m by construction (total = m*capacity, and the cut is a packing)."""
    from oracles import binpack_exact as be
    rng = random.Random(seed)
    acc = Acc()
    for _ in range(count):
        den = rng.choice([1, 1, 2, 10, 20, 100, 1000])
        m = rng.randint(1, 12)
        cu = rng.choice([rng.randint(2, 12), rng.randint(5, 60), den, 3 * den, 7 * den // 10 or 2, 3 * den // 10 or 2])
        cu = max(cu, 2)
        sizes, bins = [], []
        for _b in range(m):
            p = rng.randint(1, min(5, cu))
            cuts = sorted(rng.sample(range(1, cu), p - 1))
            parts = [b - a for a, b in zip([0] + cuts, cuts + [cu])]
            bins.append(list(range(len(sizes), len(sizes) + len(parts))))
            sizes += parts
        for _z in range(rng.choice([0, 0, 1, 3])):
            bins[0].append(len(sizes))
            sizes.append(0)
        perm = list(range(len(sizes)))
        rng.shuffle(perm)
        shuffled = [sizes[i] for i in perm]
        inv = {old: new for new, old in enumerate(perm)}
        wit = [[inv[i] for i in b] for b in bins]
        if not be.check_packing(shuffled, cu, wit) or sum(shuffled) != m * cu:
            raise AssertionError("perfect-packing generator is wrong")
        bin_all_algos(acc, tuple(shuffled), cu, den, count_key=True, opt_known=m)
    return acc.out()


TASKS = {f.__name__: f for f in (t_k_int_ordered, t_k_int_multiset, t_k_dec, t_k_fill, t_k_rand, t_b_exh, t_b_rand, t_b_perfect)}


def work(task):
    import time
    from checks import C16_round2 as r2
    from checks import C16_round3 as r3
    t0 = time.process_time()
    res = (TASKS.get(task[0]) or r2.TASKS.get(task[0]) or r3.TASKS[task[0]])(*task[1:])
    res["cpu"] = time.process_time() - t0
    return task[0], res


# ---------------------------------------------------------------------------------------------- driver
def plan(ctx: Ctx):
    q = ctx.quick
    rng = random.Random(ctx.seed)
    tasks = []
    # knapsack, integers, exhaustive
    nmax_ord = 4 if q else 5
    for n in range(0, nmax_ord + 1):
        if n <= 2:
            tasks.append(("t_k_int_ordered", n, ()))
        elif n <= 4:
            tasks += [("t_k_int_ordered", n, (a,)) for a in K_ITEMS] if n == 3 else [("t_k_int_ordered", n, (a, b)) for a in K_ITEMS for b in K_ITEMS]
        else:
            tasks += [("t_k_int_ordered", n, (a, b, c)) for a in K_ITEMS for b in K_ITEMS for c in K_ITEMS]
    ctx.scope("knapsack integer exhaustive (ordered lists)", items=f"0..{nmax_ord}", values="0..3", weights="0..4", capacity="0..6",
              modes="maximize for every list; minimize for lists with <=3 items and for sorted lists; float-typed (2.0) for sorted lists",
              exhaustive=True)
    ms_n = (5,) if q else (6,)
    for n in ms_n:
        tasks += [("t_k_int_multiset", n, f, g) for f in range(len(K_ITEMS)) for g in range(f, len(K_ITEMS))]
    ctx.scope("knapsack integer exhaustive (multisets, sorted + reversed order)", items=list(ms_n), values="0..3", weights="0..4",
              capacity="0..6", modes="max and min (sorted order), max (reversed order)", exhaustive=True)
    # knapsack, decimal grids, exhaustive
    dens = [2, 4, 5, 8, 10, 20, 100, 1000, 10000]
    for den in dens:
        for n in (1, 2, 3):
            tasks.append(("t_k_dec", den, 10 if den % 10 == 0 else 1, n, 8 if q else 10, 8 if q else 10, (not q) or n <= 2))
    ctx.scope("knapsack decimal grid exhaustive", unit=[f"1/{d}" for d in dens], items="1..3", weights_units="0..8" if q else "0..10",
              capacity_units="0..8" if q else "0..10", values_units="1..2 (value unit 0.1 when the grid is decimal)",
              order="ordered lists up to 2 items, 3 items as multisets (sorted + reversed)" if q else "ordered lists", exhaustive=True)
    fills = [(100, 2, 450 if q else 2000), (1000, 2, 1500 if q else 6000), (20, 2, 340 if q else 1320), (10, 2, 340 if q else 660), (4, 2, 80 if q else 200)]
    for den, lo, hi in fills:
        step = max(20, (hi - lo) // 24)
        tasks += [("t_k_fill", den, a, min(hi, a + step)) for a in range(lo, hi, step)]
    ctx.scope("knapsack decimal exact-fill sweep", family="capacity c units, items {a, c-a} (+ one more), a in {1, c/3, c/2, 1.0}",
              sweeps=[{"unit": f"1/{d}", "capacity_units": f"{lo}..{hi - 1}"} for d, lo, hi in fills], exhaustive=True)
    # knapsack random
    rk = {"int": 6000 if q else 120000, "dec": 5000 if q else 80000, "fine": 4000 if q else 40000, "big": 384 if q else 6400}
    for flavor, cnt in rk.items():
        chunks = 32 if flavor != "big" else 64
        tasks += [("t_k_rand", rng.getrandbits(48), cnt // chunks, flavor) for _ in range(chunks)]
    ctx.scope("knapsack random", runs=rk, int="n<=10, weights<=15, values<=20, capacity<=40", dec="unit 1/2..1/1000, n<=7, capacity<=30",
              fine="unit 1/16, 1/32, 1/2000..1/10^6, tiny capacities", big="capacity 100..3000 (scale < 1000), n<=4",
              planted="exact-fill subsets, duplicates, item = capacity, item = capacity + 1 unit, zero-weight valuable items, capacity 0")
    # bin packing, exhaustive
    nb = 5 if q else 6
    for cu in range(1, 7):
        for n in range(0, nb + 1):
            if n <= 3:
                tasks.append(("t_b_exh", 1, cu, n, (), True))
            else:
                tasks += [("t_b_exh", 1, cu, n, (a,), True) for a in range(cu + 1)]
        tasks.append(("t_b_exh", 1, cu, nb + 1, (), False))
    ctx.scope("bin packing integer exhaustive", items=f"0..{nb} ordered lists, {nb + 1} as multisets in 3 orders", sizes="0..capacity",
              capacity="1..6", algorithms=list(ALGOS), exhaustive=True)
    bdens = [10, 20, 100, 1000, 4]
    for den in bdens:
        for cu in (3, 6, 7, 9, 10) if q else range(1, 11):
            for n in (1, 2, 3, 4):
                if n <= 3 or q:
                    tasks.append(("t_b_exh", den, cu, n, (), True))
                else:
                    tasks += [("t_b_exh", den, cu, n, (a,), True) for a in range(cu + 1)]
            if not q:
                tasks += [("t_b_exh", den, cu, 5, (a,), True) for a in range(cu + 1)]
    ctx.scope("bin packing decimal grid exhaustive", unit=[f"1/{d}" for d in bdens], capacity_units=[3, 6, 7, 9, 10] if q else "1..10",
              items="1..4" if q else "1..5", sizes="0..capacity", algorithms=list(ALGOS), exhaustive=True)
    rb = 16000 if q else 200000
    rp = 24000 if q else 160000
    tasks += [("t_b_rand", rng.getrandbits(48), rb // 32) for _ in range(32)]
    tasks += [("t_b_perfect", rng.getrandbits(48), rp // 32) for _ in range(32)]
    ctx.scope("bin packing random", runs=rb, items="1..9 (exact optimum by enumeration)", unit="1, 1/2 .. 1/1000",
              planted="complementary pairs filling a bin, ties, zeros, items = capacity; algorithm aliases")
    ctx.scope("bin packing perfect-packing instances", runs=rp, bins="1..12 full bins cut into 1..5 pieces, shuffled, optional zero-size items",
              optimum="known by construction")
    from checks import C16_round2 as r2
    tasks += r2.plan_single(ctx, rng)
    hist = r2.plan_history(ctx, rng)
    from checks import C16_round3 as r3
    tasks += r3.plan(ctx)  # multiplicity families (own generator: everything planned above keeps its seeds)
    return tasks, hist


def run(ctx: Ctx):
    from vf.prove import prove
    # deductive part (specs/packing.py): solve_knapsack's DP (distinct indices, objective = sum of values, weight test at every
    # OPTIMAL return, DP value = the knapsack recursion KN, integer data run unscaled), _to_int_capacity, check_non_negative
    prove(ctx, ["specs.packing"], "C16", lemma_groups=["knap", "binp"])
    ctx.assumptions.append(
        "C16 proof: solve_knapsack is proved to return a selection whose value sum equals KN(vals, int_weights, n, int_capacity) (the "
        "textbook recursion) with integer weight sum <= int_capacity; that KN is the maximum over all subsets within capacity (Bellman) "
        "and that negating values turns minimisation into maximisation are paper lemmas; weights are assumed >= 0 (not checked by the "
        "code: a negative weight raises IndexError or indexes from the end); _greedy_fallback is used through an assumed contract "
        "(status FEASIBLE); the integer bridge (scale == 1, DP weights == weights) is proved for int-typed data only")
    use_repo()
    from checks import C16_round2 as r2
    n_self = r2.selftest_oracles(ctx.seed)  # the new oracles against complete enumeration, before anything is judged with them
    from checks import C16_round3 as r3
    n_self += r3.selftest(ctx.seed)  # binpack_mult against subset decomposition and the certificate checker
    tasks, hist_tasks = plan(ctx)
    # long tasks first (better pool balance), deterministic order of results kept by pmap
    heavy = {"t_kl": -2, "t_bl": -1, "t_k_int_multiset": 0, "t_k_dec": 0, "t_k_fill": 1, "t_k_int_ordered": 2, "t_b_exh": 3}
    tasks.sort(key=lambda t: (heavy.get(t[0], 4), -(t[2] * t[3]) if t[0] == "t_kl" else -t[2] if t[0] == "t_bl" else 0))  # stable, deterministic
    # history programs first, in a pool of their own: its workers never call solvor themselves, every program runs in a
    # child forked from such a worker, i.e. in a process where the library has been imported and never used
    hist_results = pmap(r2.work_history, hist_tasks, chunksize=1)
    results = pmap(work, tasks, chunksize=1)
    viol = {}
    stats = {}
    cpu = {}
    for res in hist_results:
        ctx.count(res["evals"], res["keys"], res["samples"])
        cpu["history"] = cpu.get("history", 0.0) + res["cpu"]
        for k, v in res["stats"].items():
            stats[k] = stats.get(k, 0) + v
        for d in res["defects"]:
            ctx.defects.append(d)
        for ob, case, det, size in res["viol"]:
            e = viol.setdefault(ob, [0, []])
            e[0] += 1
            e[1].append(((0, size), case, det))
    for name, res in results:
        ctx.count(res["evals"], res["keys"], res["samples"])
        cpu[name] = cpu.get(name, 0.0) + res["cpu"]
        for k, v in res["stats"].items():
            stats[k] = stats.get(k, 0) + v
        for ob, (cnt, exs) in res["viol"].items():
            e = viol.setdefault(ob, [0, []])
            e[0] += cnt
            e[1].extend(exs)
    ctx.notes["cpu_seconds_by_task_family"] = {k: round(v, 1) for k, v in sorted(cpu.items())}
    ctx.notes["oracle_selftest_comparisons"] = n_self
    for ob in sorted(viol):
        cnt, exs = viol[ob]
        exs.sort(key=lambda t: (tuple(t[0]), repr(t[1])))
        for _size, case, det in exs[:3]:
            if case.get("fn") != "history":  # found in a pool worker that has made many calls: does the call fail on its own?
                st, res = r2.in_fresh_process(r2.isolated, case)  # this (main) process has never called the library
                if st == "ok" and not any(o == ob for o, _ in res[1]):
                    det += (" [NOT reproduced as an isolated call in a fresh process: the answer depended on earlier calls made by "
                            "the same worker process (history-dependent behaviour); the replay file will not reproduce it]")
            ctx.violation(ob, case, det)
    ctx.notes["failing_evaluations_by_obligation"] = {ob: viol[ob][0] for ob in sorted(viol)}
    ctx.notes["result_statistics"] = dict(sorted(stats.items()))
    ctx.rule = ("cases are generated on an integer grid (unit 1/den) and handed to the real functions as ints or as the nearest floats; "
                "exhaustive scopes enumerate every list of the stated shape, random scopes plant exact fills, ties, zeros and "
                "over-by-one-unit items. Non-trivial knapsack case: maximize, >=2 items, not all items fit together and the optimum is "
                "positive. Non-trivial packing case: >=2 items and the optimum needs >=2 bins. Distinct = different (unit, multiset-sorted "
                "item list as generated, capacity[, algorithm]); permutations, minimize and float-typed variants of one list are evaluated "
                "but not counted as distinct. Size ladder: one seeded instance per (size, capacity, family, order) tuple, distinct by "
                "construction. Multiplicity boxes: one case per (template, multiplicity vector, order[, algorithm | capacity]). History mode: a seeded program of operations per (task seed, position), executed in one fresh process; "
                "counted as non-trivial: every judged call after the first of its program that is non-trivial by the rules above (these are "
                "the calls made on objects the library has already seen); the isolated repetitions in fresh processes are counted as "
                "evaluations only")
    ctx.assumptions += [
        "decimal reading: a float argument stands for the decimal k/den it was generated from (den <= 10^6 or a power of two <= 2^26, "
        "magnitudes <= 3000; ladder: up to 10^5 units); feasibility, optimality and bin loads are judged on those decimals exactly. The code's "
        "documented absolute slack 1e-9 is at least 10x below one grid unit; gaps finer than that (e.g. 2^-40) are NOT exercised: there the "
        "library accepts an overweight of up to 1e-9 by design",
        "values, weights, sizes are non-negative; capacity >= 0 (knapsack) / > 0 (bin packing); no NaN/inf",
        "11/9*OPT+6/9 is evaluated against the exact optimum (enumeration, <=9 items; pattern DP for the multiplicity boxes, up to ~60 items), "
        "an optimum known by construction (perfect packings), "
        "or - size ladder / big histories - against a certified upper bound hi >= OPT (a checked planted packing): k > 11/9*hi+6/9 implies "
        "k > 11/9*OPT+6/9, so every reported violation is genuine; when the proven lower bound (volume, items > capacity/2) equals hi the "
        "optimum is known exactly (see result_statistics: 'optimum known' / 'optimum bounded')",
        "history mode, obligation same-answer-in-a-fresh-process: the statement describes both functions as functions of their arguments, so a "
        "call must return what the same call on equal, newly built arguments returns in a process that has made no other call",
    ]
    ctx.trusted += ["oracles/knapsack_bf.py (all 2^n subsets, integers)", "oracles/binpack_exact.py (subset decomposition, integers)",
                    "oracles/knapsack_dp.py (row DP over integer capacity; cross-checked against enumeration at the start of every run)",
                    "oracles/binpack_cert.py (volume / big-item lower bound, checker for planted packings; cross-checked against the exact optimum at the start of every run)",
                    "oracles/binpack_mult.py (pattern DP over a box of multiplicity vectors; cross-checked against subset decomposition and the "
                    "certificate checker at the start of every run; the library's own packings are checked against its lower side on every call)",
                    "fractions.Fraction -> float conversion (correctly rounded)", "os.fork gives the child the parent's module state"]


def replay(rec) -> int:
    use_repo()
    case = rec["case"]
    want = rec.get("obligation")
    if case.get("fn") == "history":
        from checks import C16_round2 as r2
        print(f"replay: program of {len(case['ops'])} operations, executed in one fresh process (unit 1/{case.get('den', 1)})")
        st, viol, calls = r2.history_violations(case, ("last",))  # whole sequence; final call also as an isolated call in a fresh process
        if st != "ok":
            print("replay: the program could not be executed:", viol)
            return 3
        by_idx = {}
        for idx, ob, det in viol:
            by_idx.setdefault(idx, []).append((ob, det))
        ci = 0
        for i, op in enumerate(case["ops"]):
            txt = repr(op) if len(repr(op)) < 160 else repr(op)[:150] + " ...]"
            if op[0] in ("knap", "bin"):
                _idx, _c, out, _f, _info = calls[ci]
                ci += 1
                print(f"  op {i}: {txt} -> {r2._show_out(out)}")
                for ob, det in by_idx.get(i, []):
                    print("      still violates:", ob, "::", det)
            else:
                print(f"  op {i}: {txt}")
        if not viol:
            print("  no violation")
        return 1 if any(ob == want for _i, ob, _d in viol) or (viol and not want) else 0
    fails, info = (eval_knap(case) if case.get("fn") == "knapsack" else eval_bin(case))
    print("replay case:", case if len(repr(case)) < 3000 else {k: (v if len(repr(v)) < 300 else f"<{len(v)} entries>") for k, v in case.items()})
    print("result info:", info)
    for ob, det in fails:
        print("  still violates:", ob, "::", det)
    if not fails:
        print("  no violation")
    return 1 if any(ob == want for ob, _ in fails) or (fails and not want) else 0

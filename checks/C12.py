"""C12 - Rust and Python back ends are observably equivalent (bounded back end only).

Every run
  1. rebuilds the extension from the tree under check (`cargo build --release --offline`, manifest
     $VERIF_REPO/rust/Cargo.toml, falling back to /repo/rust; target dir cached in /verif/.cache; the crate is
     forced to recompile whenever the content hash of the rust/ sources differs from the last build, because
     cargo alone treats a copy of the crate at another path with older mtimes as fresh),
  2. makes a scratch overlay package <tmp>/solvor = the *.py files of $VERIF_REPO/solvor + the fresh .so,
  3. evaluates, in worker processes whose sys.path[0] is <tmp>, the nine accelerated functions with
     backend in {python, rust, default (no argument), "auto"} ("auto" on n <= 2 and in the random spaces) on the
     same input and compares what the property
     statement says must agree: status; identical distances / reachability / total weight / partition;
     paths and orders valid for the same problem (validated by the exact oracle oracles/c12_graph.py);
     PageRank scores within the convergence tolerance.  iterations / evaluations / dict order / int-vs-float
     and the objective field of topological_sort_edges / pagerank_edges are NOT compared (tallied as
     incidental differences in the evidence).
  4. a second overlay without the .so checks the pure-Python path: default == python, backend="rust" raises
     ImportError.

  5. round-2 families (checks/C12_round2.py, same contract `_judge`): size ladder of all nine functions to 8192
     (thorough 16385) nodes with the certifying near-linear oracles of oracles/c12_big.py; PageRank option
     coincidence (tol placed between two consecutive sweeps of an independent power iteration, max_iter around the
     stopping sweep); history mode (one weighted and one arc list object edited in place between calls of all
     functions on all back ends, each program in a child of a worker that made no call, last call re-made in an
     interpreter that made no call before); deep path-shaped graphs in a new interpreter process per case.

Obligation names carry the mode, e.g. C12/floyd_warshall[undirected]/ensures:distances-identical, so that a
known finding can be matched narrowly; a violation that needs a call sequence carries the suffix
" [call history: one list object edited in place between calls]" and its case is the (shrunk) program.

All budgets that decide a verdict are CPU time: ITIMER_VIRTUAL per case inside the workers, and the pool's hang
detector follows the CPU time of a silent worker and its children in /proc (see _run_pool).
"""
from __future__ import annotations

import glob
import hashlib
import itertools
import json
import math
import multiprocessing as mp
import os
import random
import shutil
import signal
import subprocess
import sys
import tempfile
import time

from vf.core import REPO, VERIF, Ctx

LEVEL = "exploration"
BACKENDS = ("python", "rust", "default", "auto")
SO_NAME = "_solvor_rust.cpython-312-x86_64-linux-gnu.so"
CARGO_TARGET = os.path.join(VERIF, ".cache", "cargo-target")
CASE_ALARM_S = 60  # CPU seconds: a Python-level hang of one case
FLOAT_SLACK = 1e-9  # only for inputs whose weights are not exactly summable (flag exact=False)


# =========================================================================== build + overlay
def rust_dir() -> str:
    d = os.path.join(REPO, "rust")
    return d if os.path.isfile(os.path.join(d, "Cargo.toml")) else "/repo/rust"


def _source_hash(d: str) -> str:
    h = hashlib.sha256()
    for root, dirs, files in os.walk(d):
        dirs[:] = sorted(x for x in dirs if x not in ("target", ".git", "__pycache__"))
        for f in sorted(files):
            path = os.path.join(root, f)
            h.update(os.path.relpath(path, d).encode() + b"\0")
            with open(path, "rb") as fh:
                h.update(fh.read())
            h.update(b"\0")
    return h.hexdigest()


def build_extension():
    """-> (path of a private copy of the freshly built lib_solvor_rust.so | None, log tail, seconds).
    The shared target dir is locked from the start of the build until the copy is taken, so that two
    concurrent runs with different $VERIF_REPO cannot pick up each other's library."""
    import fcntl
    t0 = time.time()
    os.makedirs(CARGO_TARGET, exist_ok=True)
    env = dict(os.environ)
    env.update(CARGO_TARGET_DIR=CARGO_TARGET, CARGO_NET_OFFLINE="true", PYO3_PYTHON=sys.executable)
    env["PATH"] = os.path.expanduser("~/.cargo/bin") + os.pathsep + env.get("PATH", "")
    so = os.path.join(CARGO_TARGET, "release", "lib_solvor_rust.so")
    cmd = ["cargo", "build", "--release", "--offline", "--manifest-path", os.path.join(rust_dir(), "Cargo.toml")]
    with open(os.path.join(CARGO_TARGET, ".c12.lock"), "w") as lock:
        fcntl.flock(lock, fcntl.LOCK_EX)
        # cargo decides freshness by mtime and gives the same unit hash to copies of the crate at different paths:
        # after building a scratch copy it would call the older /repo/rust "fresh" and leave the scratch library in place.
        # So: content hash of the crate sources; when it differs from the last successful build, drop the crate's
        # fingerprint (dependencies stay cached) and cargo recompiles it.
        want = _source_hash(rust_dir())
        stamp = os.path.join(CARGO_TARGET, ".c12.srchash")
        have = open(stamp).read().strip() if os.path.isfile(stamp) else ""
        if have != want:
            if os.path.isfile(stamp):
                os.unlink(stamp)
            for d in glob.glob(os.path.join(CARGO_TARGET, "release", ".fingerprint", "solvor-rs-*")):
                shutil.rmtree(d, ignore_errors=True)
            if os.path.isfile(so):
                os.unlink(so)
        try:
            p = subprocess.run(cmd, env=env, cwd=tempfile.gettempdir(), capture_output=True, text=True, timeout=900)
        except Exception as e:  # cargo missing / timeout
            return None, f"{type(e).__name__}: {e}", time.time() - t0
        tail = (p.stderr or "")[-1500:]
        if p.returncode != 0 or not os.path.isfile(so):
            return None, f"cargo exit {p.returncode}: {tail}", time.time() - t0
        fd, private = tempfile.mkstemp(prefix="c12_ext_", suffix=".so")
        os.close(fd)
        shutil.copyfile(so, private)
        with open(stamp, "w") as f:
            f.write(want)
    return private, tail[-200:], time.time() - t0


def make_overlay(so: str | None) -> str:
    """Scratch package dir (outside /repo and /verif): python sources under check (+ fresh extension)."""
    tmp = tempfile.mkdtemp(prefix="c12_overlay_")
    src = os.path.join(REPO, "solvor")
    for path in glob.glob(os.path.join(src, "**", "*.py"), recursive=True):
        rel = os.path.relpath(path, src)
        dst = os.path.join(tmp, "solvor", rel)
        os.makedirs(os.path.dirname(dst), exist_ok=True)
        shutil.copyfile(path, dst)
    if so:
        shutil.copyfile(so, os.path.join(tmp, "solvor", SO_NAME))
        os.chmod(os.path.join(tmp, "solvor", SO_NAME), 0o755)
    os.makedirs(os.path.join(tmp, "progress"), exist_ok=True)
    return tmp


# =========================================================================== worker side
_W: dict = {}


def _enter_overlay(tmp: str, expect_rust: bool):
    """Pool initializer: make `import solvor` resolve to the overlay; never raises (errors are reported by _work)."""
    _W.clear()
    _W["tmp"] = tmp
    os.environ["RUST_BACKTRACE"] = "0"  # a panicking kernel is reported as a violation; no backtrace flood on stderr
    try:
        sys.path[:] = [p for p in sys.path if p != tmp]
        sys.path.insert(0, tmp)
        for k in list(sys.modules):
            if k == "solvor" or k.startswith("solvor."):
                del sys.modules[k]
        import solvor
        import solvor.rust
        f = os.path.realpath(solvor.__file__)
        if not f.startswith(os.path.realpath(tmp) + os.sep):
            raise RuntimeError(f"solvor imported from {f}, not from the overlay {tmp}")
        if solvor.rust.rust_available() is not expect_rust:
            raise RuntimeError(f"rust_available() is {solvor.rust.rust_available()}, expected {expect_rust}")
        if expect_rust:
            ext = os.path.realpath(solvor.rust.get_rust_module().__file__)
            if not ext.startswith(os.path.realpath(tmp) + os.sep):
                raise RuntimeError(f"extension loaded from {ext}, not from the overlay")
        import logging
        logging.getLogger("solvor").setLevel(logging.ERROR)  # the one-off "Rust backend unavailable" warning
        _W["solvor"] = solvor
        _W["fd"] = os.open(os.path.join(tmp, "progress", str(os.getpid())), os.O_RDWR | os.O_CREAT, 0o600)
    except BaseException as e:  # noqa
        _W["err"] = f"overlay import failed: {type(e).__name__}: {e}"


class _Alarm(Exception):
    pass


def _on_alarm(signum, frame):
    raise _Alarm()


def _progress(case):
    fd = _W.get("fd")
    if fd is not None:
        _W["ctr"] = _W.get("ctr", 0) + 1
        b = json.dumps({"ctr": _W["ctr"], "case": case, "idle": case is None}).encode()
        os.pwrite(fd, b"%8d" % len(b) + b, 0)


def _tup(edges):
    return [tuple(e) for e in edges]


def _call(case, backend, live=None):
    """`live`: the caller's own list object (history mode); otherwise a fresh list of tuples is built from the case."""
    s = _W["solvor"]
    fn = case["fn"]
    E = live if live is not None else _tup(case["edges"])
    kw = {} if backend == "default" else {"backend": backend}
    n = case["n"]
    if fn == "floyd_warshall":
        return s.floyd_warshall(n, E, directed=case["directed"], **kw)
    if fn == "bellman_ford":
        return s.bellman_ford(case["source"], E, n, target=case["target"], **kw)
    if fn == "dijkstra_edges":
        return s.dijkstra_edges(n, E, case["source"], target=case["target"], **kw)
    if fn == "bfs_edges":
        return s.bfs_edges(n, E, case["source"], target=case["target"], **kw)
    if fn == "dfs_edges":
        return s.dfs_edges(n, E, case["source"], target=case["target"], **kw)
    if fn == "kruskal":
        return s.kruskal(n, E, allow_forest=case["allow_forest"], **kw)
    if fn == "pagerank_edges":
        return s.pagerank_edges(n, E, damping=case["damping"], max_iter=case["max_iter"], tol=case["tol"], **kw)
    if fn == "strongly_connected_components_edges":
        return s.strongly_connected_components_edges(n, E, **kw)
    if fn == "topological_sort_edges":
        return s.topological_sort_edges(n, E, **kw)
    raise KeyError(fn)


def _observe(case, backend, live=None):
    """Plain-data view of a Result (or of the exception)."""
    try:
        r = _call(case, backend, live)
    except (_Alarm, KeyboardInterrupt, SystemExit):
        raise
    except BaseException as e:  # noqa  (a Rust panic arrives as pyo3_runtime.PanicException, a BaseException)
        return {"exc": f"{type(e).__name__}: {str(e)[:120]}"}
    st = getattr(r.status, "name", str(r.status))
    return {"status": st, "solution": r.solution, "objective": r.objective, "iterations": r.iterations,
            "evaluations": r.evaluations}


# --------------------------------------------------------------------------- comparison helpers
def _is_num(x):
    return isinstance(x, (int, float)) and not isinstance(x, bool)


def _same_num(a, b, exact):
    if not (_is_num(a) and _is_num(b)):
        return False
    if a == b:
        return True
    if exact or math.isinf(a) or math.isinf(b) or math.isnan(a) or math.isnan(b):
        return False
    return abs(a - b) <= FLOAT_SLACK * max(1.0, abs(a), abs(b))


def _num_is(x, frac, exact):
    """float/int x equals the exact oracle value frac (None = +inf)."""
    if frac is None:
        return _is_num(x) and x == math.inf
    if not _is_num(x) or math.isinf(x) or math.isnan(x):
        return False
    from fractions import Fraction
    if Fraction(x) == frac:
        return True
    return (not exact) and abs(x - float(frac)) <= FLOAT_SLACK * max(1.0, abs(x))


def _short(x, n=160):
    s = repr(x)
    return s if len(s) <= n else s[:n] + "..."


def _is_int_list(x):
    return isinstance(x, list) and all(isinstance(v, int) and not isinstance(v, bool) for v in x)


# --------------------------------------------------------------------------- per-function contracts
BIG_N = 16  # above this the near-linear oracle module is used (cross-checked against the brute-force one in every run)
_TRACE: dict = {}


def _oracle_for(case):
    if case["n"] > BIG_N or len(case["edges"]) > 60:
        import oracles.c12_big as O
    else:
        import oracles.c12_graph as O
    return O


def _pr_trace(case):
    """Independent power iteration for the case's graph and damping (oracles.c12_big.PagerankTrace; the last one is
    cached: the cases of one option-coincidence group share the graph)."""
    import oracles.c12_big as OB
    key = (case["n"], case["damping"], len(case["edges"]), hashlib.blake2b(repr(case["edges"]).encode(), digest_size=8).hexdigest())
    if _TRACE.get("key") != key:
        _TRACE["key"] = key
        _TRACE["val"] = OB.PagerankTrace(case["n"], case["edges"], case["damping"])
    return _TRACE["val"]


def _run_backends(case, live=None):
    """Observation per back end; the whole group runs under one CPU-time budget."""
    backends = case.get("backends") or BACKENDS
    budget = CASE_ALARM_S * (4 if case["n"] > 256 else 1)
    deep = case["fn"] == "strongly_connected_components_edges" and case.get("recursion_limit")
    old_limit = sys.getrecursionlimit()
    R = {}
    cur = None
    signal.signal(signal.SIGVTALRM, _on_alarm)
    signal.setitimer(signal.ITIMER_VIRTUAL, budget)
    try:
        try:
            if deep:  # the module documents: "SCC uses recursion internally ... you may need to increase the recursion limit"
                sys.setrecursionlimit(max(old_limit, int(case["recursion_limit"])))
            for cur in backends:
                R[cur] = _observe(case, cur, live)
            cur = None
        finally:
            signal.setitimer(signal.ITIMER_VIRTUAL, 0)
            sys.setrecursionlimit(old_limit)
    except _Alarm:
        R[cur if cur is not None else backends[-1]] = {"exc": f"Timeout: no result within {budget} s of CPU time"}
    for b in backends:
        R.setdefault(b, {"exc": "not run (an earlier back end timed out)"})
    return R


def _eval_case(case):
    """-> (violations [(obligation, detail)], nontrivial, incidental {name: 1}, python_vs_oracle [(what)])"""
    return _judge(case, _run_backends(case))


def _ob(case):
    mode = _mode(case)
    return f"C12/{case['fn']}[{mode}]/ensures:" if mode else f"C12/{case['fn']}/ensures:"


def _judge(case, R):
    """The contract: what the statement says must agree, decided on the observations R = {backend: observation}."""
    O = _oracle_for(case)
    fn = case["fn"]
    n = case["n"]
    E = _tup(case["edges"])
    exact = case.get("exact", True)
    backends = case.get("backends") or BACKENDS

    ob = _ob(case)
    V: list = []
    inc: dict = {}
    pvo: list = []

    def bad(what, detail):
        V.append((ob + what, detail))

    ref = R[backends[0]]
    excs = {b: R[b].get("exc") for b in backends}
    if any(excs.values()):
        kinds = {(e or "").split(":")[0] for e in excs.values()}
        if len(kinds) == 1 and all(excs.values()):
            inc[f"all back ends raise {kinds.pop()} (input treated as invalid)"] = 1
            return V, False, inc, pvo
        bad("returns-on-every-backend", "; ".join(f"{b}: {excs[b] or 'returned ' + R[b]['status']}" for b in backends))
        return V, False, inc, pvo

    # ---- status (all functions)
    knife_edge = False
    if fn == "pagerank_edges" and backends[0] == "python" and _is_num(ref["objective"]) and case["tol"] > 0:
        # python's objective is its last max-norm step: when it equals tol up to rounding, "step < tol" is decided by the
        # summation order of the incoming contributions (edge order in rust, source order in python), not by the algorithm
        knife_edge = abs(ref["objective"] - case["tol"]) <= 1e-9 * case["tol"]
    for b in backends[1:]:
        if R[b]["status"] != ref["status"]:
            if knife_edge and {R[b]["status"], ref["status"]} == {"OPTIMAL", "MAX_ITER"}:
                inc["pagerank status differs on a rounding knife edge (|last step - tol| <= 1e-9 tol)"] = 1
                continue
            bad("status-identical", f"python={ref['status']} {b}={R[b]['status']}")
    status_ok = not V
    for b in backends[1:]:
        if R[b]["iterations"] != ref["iterations"]:
            inc["iterations field differs"] = 1
        if R[b]["evaluations"] != ref["evaluations"]:
            inc["evaluations field differs"] = 1

    def objective_identical():
        for b in backends[1:]:
            if R[b]["status"] == ref["status"] and not _same_num(R[b]["objective"], ref["objective"], exact):
                bad("objective-identical", f"python={ref['objective']!r} {b}={R[b]['objective']!r}")

    def none_when(statuses):
        for b in backends:
            if R[b]["status"] in statuses and R[b]["solution"] is not None:
                bad("no-solution-when-" + "/".join(statuses).lower(), f"{b} status={R[b]['status']} solution={_short(R[b]['solution'])}")

    # ---------------------------------------------------------------- floyd_warshall
    if fn == "floyd_warshall":
        orc = O.apsp(n, E, case["directed"])
        none_when(("UNBOUNDED",))
        objective_identical()

        def mat_ok(m):
            return isinstance(m, list) and len(m) == n and all(isinstance(r, list) and len(r) == n and all(_is_num(x) for x in r) for r in m)

        for b in backends:
            if R[b]["status"] == "OPTIMAL" and not mat_ok(R[b]["solution"]):
                bad("distances-shape", f"{b}: solution is not an {n}x{n} matrix of numbers: {_short(R[b]['solution'])}")
        if ref["status"] == "OPTIMAL" and mat_ok(ref["solution"]):
            for b in backends[1:]:
                if R[b]["status"] == "OPTIMAL" and mat_ok(R[b]["solution"]):
                    diff = [(i, j, ref["solution"][i][j], R[b]["solution"][i][j]) for i in range(n) for j in range(n)
                            if not _same_num(ref["solution"][i][j], R[b]["solution"][i][j], exact)]
                    if diff:
                        i, j, a, c = diff[0]
                        bad("distances-identical", f"dist[{i}][{j}]: python={a!r} {b}={c!r} ({len(diff)} of {n * n} entries differ)")
        # python against the exact reference (informational: belongs to C11)
        if (ref["status"] == "UNBOUNDED") != (orc == O.NEG_CYCLE):
            pvo.append("floyd_warshall python status vs exact negative-cycle verdict")
        elif orc != O.NEG_CYCLE and mat_ok(ref["solution"]):
            if any(not _num_is(ref["solution"][i][j], orc[i][j], exact) for i in range(n) for j in range(n)):
                pvo.append("floyd_warshall python distances vs exact")

    # ---------------------------------------------------------------- bellman_ford / dijkstra_edges
    elif fn in ("bellman_ford", "dijkstra_edges"):
        src, tgt = case["source"], case["target"]
        orc = O.sssp(n, E, src)
        none_when(("UNBOUNDED", "INFEASIBLE"))
        objective_identical()
        if tgt is None:
            for b in backends:
                if R[b]["status"] == "OPTIMAL":
                    s = R[b]["solution"]
                    if not (isinstance(s, dict) and all(isinstance(k, int) and 0 <= k < n and _is_num(v) and not math.isinf(v) for k, v in s.items())):
                        bad("distances-shape", f"{b}: not a dict node->finite distance: {_short(s)}")
            if ref["status"] == "OPTIMAL" and isinstance(ref["solution"], dict):
                for b in backends[1:]:
                    s = R[b]["solution"]
                    if R[b]["status"] == "OPTIMAL" and isinstance(s, dict):
                        if set(s) != set(ref["solution"]):
                            bad("reachability-identical", f"reached nodes: python={sorted(ref['solution'])} {b}={sorted(s)}")
                        else:
                            d = [k for k in s if not _same_num(s[k], ref["solution"][k], exact)]
                            if d:
                                k = min(d)
                                bad("distances-identical", f"dist[{k}]: python={ref['solution'][k]!r} {b}={s[k]!r}")
            if orc != O.NEG_CYCLE and ref["status"] == "OPTIMAL" and isinstance(ref["solution"], dict):
                want = {i for i in range(n) if orc[i] is not None}
                if set(ref["solution"]) != want or any(not _num_is(ref["solution"][i], orc[i], exact) for i in want):
                    pvo.append(f"{fn} python distances vs exact")
            elif (orc == O.NEG_CYCLE) != (ref["status"] == "UNBOUNDED"):
                pvo.append(f"{fn} python status vs exact negative-cycle verdict")
        else:
            for b in backends:
                if R[b]["status"] == "OPTIMAL":
                    p = R[b]["solution"]
                    if not (_is_int_list(p) and p and p[0] == src and p[-1] == tgt and all(0 <= v < n for v in p)):
                        bad("path-valid", f"{b}: not a node list from {src} to {tgt}: {_short(p)}")
                        continue
                    w = O.walk_weight(p, E)
                    if w is None:
                        bad("path-valid", f"{b}: path {p} uses a pair that is not an edge")
                    elif orc != O.NEG_CYCLE and not (orc[tgt] is not None and (w == orc[tgt] or (not exact and _same_num(float(w), float(orc[tgt]), False)))):
                        bad("path-valid", f"{b}: path {p} has exact weight {w}, the shortest distance is {orc[tgt]}")
                    elif not _num_is(R[b]["objective"], w, exact):
                        bad("path-valid", f"{b}: objective {R[b]['objective']!r} is not the weight {w} of the returned path {p}")
            if orc != O.NEG_CYCLE:
                want = "OPTIMAL" if orc[tgt] is not None else "INFEASIBLE"
                if ref["status"] != want:
                    pvo.append(f"{fn} python status vs exact reachability of target")
            elif ref["status"] != "UNBOUNDED":
                pvo.append(f"{fn} python status vs exact negative-cycle verdict")

    # ---------------------------------------------------------------- bfs_edges / dfs_edges
    elif fn in ("bfs_edges", "dfs_edges"):
        src, tgt = case["source"], case["target"]
        reach = O.reachable(n, E, src)
        none_when(("INFEASIBLE",))
        if tgt is None:
            objective_identical()
            for b in backends:
                s = R[b]["solution"]
                if not _is_int_list(s) or len(set(s)) != len(s):
                    bad("reachability-shape", f"{b}: not a duplicate-free node list: {_short(s)}")
            if _is_int_list(ref["solution"]):
                for b in backends[1:]:
                    s = R[b]["solution"]
                    if _is_int_list(s):
                        if set(s) != set(ref["solution"]):
                            bad("reachability-identical", f"reachable set: python={sorted(set(ref['solution']))} {b}={sorted(set(s))}")
                        elif s != ref["solution"]:
                            # the answer of the no-target mode IS the list of reachable nodes; the statement gives latitude
                            # only to paths and (topological) orders
                            bad("reachable-list-identical", f"same set, different list: python={ref['solution']} {b}={s}")
                if set(ref["solution"]) != reach:
                    pvo.append(f"{fn} python reachable set vs exact")
        else:
            if fn == "bfs_edges":
                objective_identical()
            hop = O.hop_distance(n, E, src)[tgt]
            for b in backends:
                if R[b]["status"] in ("OPTIMAL", "FEASIBLE"):
                    p = R[b]["solution"]
                    if not (_is_int_list(p) and p and p[0] == src and p[-1] == tgt and all(0 <= v < n for v in p)):
                        bad("path-valid", f"{b}: not a node list from {src} to {tgt}: {_short(p)}")
                    elif not O.is_walk(p, E):
                        bad("path-valid", f"{b}: path {p} uses a pair that is not an edge")
                    elif R[b]["objective"] != len(p) - 1:
                        bad("path-valid", f"{b}: objective {R[b]['objective']!r} is not the length {len(p) - 1} of the returned path {p}")
                    elif fn == "bfs_edges" and len(p) - 1 != hop:
                        bad("path-valid", f"{b}: path {p} has {len(p) - 1} edges, the fewest possible is {hop}")
                    elif len(set(p)) != len(p):
                        bad("path-valid", f"{b}: path {p} repeats a node")
                # reachability of the target must be the same verdict
                if (R[b]["status"] == "INFEASIBLE") != (ref["status"] == "INFEASIBLE") and status_ok:
                    bad("reachability-identical", f"target reachable: python={ref['status']} {b}={R[b]['status']}")
            if (ref["status"] == "INFEASIBLE") != (tgt not in reach):
                pvo.append(f"{fn} python target verdict vs exact")

    # ---------------------------------------------------------------- kruskal
    elif fn == "kruskal":
        comps = O.undirected_components(n, E)
        none_when(("INFEASIBLE",))
        objective_identical()  # total weight
        for b in backends:
            s = R[b]["solution"]
            if R[b]["status"] in ("OPTIMAL", "FEASIBLE"):
                ok = isinstance(s, list) and all(isinstance(e, tuple) and len(e) == 3 for e in s)
                if not ok:
                    bad("tree-valid", f"{b}: solution is not a list of (u, v, w): {_short(s)}")
                    continue
                pool: dict = {}
                for x in E:
                    pool[(x[0], x[1], x[2])] = pool.get((x[0], x[1], x[2]), 0) + 1
                miss = None
                for e in s:
                    if not (_is_num(e[2]) and not math.isnan(e[2])) or pool.get((e[0], e[1], e[2]), 0) <= 0:
                        miss = e
                        break
                    pool[(e[0], e[1], e[2])] -= 1
                if miss is not None:
                    bad("tree-valid", f"{b}: edge {miss} is not (or no longer) an input edge")
                elif len(s) != n - len(comps) or O.undirected_components(n, s) != comps:
                    bad("tree-valid", f"{b}: {len(s)} edges do not span the {len(comps)} component(s) of the input as a forest: {s}")
                else:
                    tot = sum((O.F(e[2]) for e in s), O.F(0))
                    if not _num_is(R[b]["objective"], tot, exact):
                        bad("tree-valid", f"{b}: objective {R[b]['objective']!r} is not the weight {tot} of the returned edges")
                    elif tot != O.msf_weight(n, E):
                        bad("tree-valid", f"{b}: weight {tot} is not minimum ({O.msf_weight(n, E)})")
        want = "OPTIMAL" if len(comps) == 1 else ("FEASIBLE" if case["allow_forest"] else "INFEASIBLE")
        if ref["status"] != want:
            pvo.append("kruskal python status vs exact connectivity")

    # ---------------------------------------------------------------- pagerank_edges
    elif fn == "pagerank_edges":
        d, tol, mi = case["damping"], case["tol"], case["max_iter"]
        for b in backends[1:]:
            if R[b]["objective"] != ref["objective"]:
                inc["pagerank objective field differs (python: last max-diff, rust: 0.0)"] = 1
        for b in backends:
            s = R[b]["solution"]
            if not (isinstance(s, dict) and sorted(s) == list(range(n)) and all(_is_num(v) and math.isfinite(v) for v in s.values())):
                bad("scores-shape", f"{b}: not a dict node->finite score over all nodes: {_short(s)}")
        if not V or all("scores-shape" not in o for o, _ in V):
            contraction = d / (1.0 - d) if 0 <= d < 1 else None
            placed = False
            if case.get("trace") and contraction is not None and tol > 0:
                # option-coincidence family: tol was placed strictly between two consecutive max-norm changes of an
                # independent power iteration.  When no sweep within the budget is within 1e-6 (relative) of tol, rounding
                # cannot move the sweep at which a max-norm rule fires: every back end stops at the same sweep.
                tr = _pr_trace(case)
                first = tr.first_below(tol, mi)
                upto = min(mi, len(tr.changes)) if first is None else first
                # (tol >= 1e-10: far above the rounding noise of a sweep, about 1e-16 x the largest score)
                placed = tol >= 1e-10 and all(abs(tr.changes[k] - tol) > 1e-6 * tol for k in range(upto))
                if placed:
                    want = "OPTIMAL" if first is not None else "MAX_ITER"
                    if ref["status"] != want:
                        pvo.append("pagerank python status vs independent power iteration (tol placed between two sweeps)")
                    elif isinstance(ref["solution"], dict) and sorted(ref["solution"]) == list(range(n)):
                        at = tr.iterates[first if first is not None else mi]
                        if max(abs(ref["solution"][k] - at[k]) for k in range(n)) > max(tol, 1e-9):
                            pvo.append("pagerank python scores vs independent power iteration")
            for b in backends[1:]:
                a, c = ref["solution"], R[b]["solution"]
                if not (isinstance(a, dict) and isinstance(c, dict) and set(a) == set(c)):
                    continue
                both_budget = ref["status"] == "MAX_ITER" and R[b]["status"] == "MAX_ITER"
                if both_budget:
                    bound = 1e-9  # both made exactly max_iter sweeps from the same start: same iterate up to rounding
                elif contraction is None:
                    continue  # damping == 1: no contraction, no derived bound (status is still compared)
                elif placed and ref["status"] == "OPTIMAL" and R[b]["status"] == "OPTIMAL":
                    bound = tol  # same stopping sweep: "scores equal within the convergence tolerance", literally
                else:
                    bound = contraction * (n + 1) * tol + 1e-9
                worst = max(abs(a[k] - c[k]) for k in a) if a else 0.0
                if worst > bound:
                    k = max(a, key=lambda k: abs(a[k] - c[k]))
                    bad("scores-within-tolerance", f"score[{k}]: python={a[k]!r} {b}={c[k]!r} |diff|={worst:.3g} > bound {bound:.3g} "
                                                   f"(python {ref['status']} after {ref['iterations']} sweeps, {b} {R[b]['status']} after {R[b]['iterations']})")
            if contraction is not None and n <= 6:
                px = O.pagerank_exact(n, E, O.F(d))
                if px is not None:
                    for b in backends:
                        if R[b]["status"] == "OPTIMAL" and isinstance(R[b]["solution"], dict):
                            bound = contraction * n * tol + 1e-9
                            worst = max(abs(R[b]["solution"][k] - float(px[k])) for k in range(n))
                            if worst > bound:
                                if b == "python":
                                    pvo.append("pagerank python converged scores vs exact stationary vector")
                                else:
                                    bad("scores-within-tolerance", f"{b}: OPTIMAL but max |score - exact stationary| = {worst:.3g} > {bound:.3g}")

    # ---------------------------------------------------------------- SCC
    elif fn == "strongly_connected_components_edges":
        part = O.scc_partition(n, E)
        objective_identical()  # number of components

        def as_part(s):
            if not (isinstance(s, list) and all(_is_int_list(c) for c in s)):
                return None
            flat = [v for c in s for v in c]
            if sorted(flat) != list(range(n)) or any(not c for c in s):
                return None
            return {frozenset(c) for c in s}

        parts = {b: as_part(R[b]["solution"]) for b in backends}
        for b in backends:
            if parts[b] is None:
                bad("partition-shape", f"{b}: components do not partition 0..{n - 1}: {_short(R[b]['solution'])}")
            else:
                s = R[b]["solution"]
                if R[b]["objective"] != len(s):
                    bad("partition-shape", f"{b}: objective {R[b]['objective']!r} is not the number of components {len(s)}")
                where = {v: i for i, c in enumerate(s) for v in c}
                fwd = [(u, v) for u, v in E if where[u] < where[v]]
                if fwd and parts[b] == part:
                    bad("order-valid", f"{b}: components are documented sinks-first, but edge {fwd[0]} goes from component #{where[fwd[0][0]]} to the later #{where[fwd[0][1]]}: {s}")
        for b in backends[1:]:
            if parts[b] is not None and parts["python"] is not None and parts[b] != parts["python"]:
                bad("partition-identical", f"python={sorted(map(sorted, parts['python']))} {b}={sorted(map(sorted, parts[b]))}")
        if parts["python"] is not None and parts["python"] != part:
            pvo.append("scc python partition vs exact")

    # ---------------------------------------------------------------- topological sort
    elif fn == "topological_sort_edges":
        none_when(("INFEASIBLE",))
        dag = O.is_acyclic(n, E)
        for b in backends[1:]:
            if R[b]["status"] == ref["status"] and R[b]["objective"] != ref["objective"]:
                inc["topological_sort objective field differs (python: n, rust: 0)"] = 1
        for b in backends:
            if R[b]["status"] == "OPTIMAL":
                o = R[b]["solution"]
                if not (_is_int_list(o) and O.is_topological_order(n, E, o)):
                    bad("order-valid", f"{b}: {_short(o)} is not a topological order of the input")
        if (ref["status"] == "OPTIMAL") != dag:
            pvo.append("topological_sort python status vs exact acyclicity")
    else:
        raise KeyError(fn)

    return V, bool(E), inc, pvo


def _mode(case):
    fn = case["fn"]
    if fn == "floyd_warshall":
        return "directed" if case["directed"] else "undirected"
    if fn in ("bellman_ford", "dijkstra_edges", "bfs_edges", "dfs_edges"):
        return "no-target" if case["target"] is None else "target"
    if fn == "kruskal":
        return "allow_forest" if case["allow_forest"] else "tree"
    return ""


# --------------------------------------------------------------------------- case spaces (generated inside the workers)
W_SIGNED = (-1, 0, 1, 2)
W_NONNEG = (0, 1, 2)
WEIGHTED = ("floyd_warshall", "bellman_ford", "dijkstra_edges", "kruskal")


def _edge_options(fn, n, W=None):
    prs = [(u, v) for u in range(n) for v in range(n)]
    if fn in WEIGHTED:
        W = W or (W_NONNEG if fn == "dijkstra_edges" else W_SIGNED)
        return [(u, v, w) for (u, v) in prs for w in W]
    return prs


def _configs(fn, n, tier):
    """Non-graph arguments enumerated with every graph of an exhaustive unit."""
    if fn == "floyd_warshall":
        return [{"directed": True}, {"directed": False}]
    if fn in ("bellman_ford", "dijkstra_edges", "bfs_edges", "dfs_edges"):
        return [{"source": s, "target": t} for s in range(n) for t in [None] + list(range(n))]
    if fn == "kruskal":
        return [{"allow_forest": False}, {"allow_forest": True}]
    if fn == "pagerank_edges":
        return [{"damping": 0.85, "max_iter": 100, "tol": 1e-6, "probe_budget": True},
                {"damping": 0.5, "max_iter": 100, "tol": 1e-3, "probe_budget": True},
                {"damping": 0.85, "max_iter": 1, "tol": 1e-6},
                {"damping": 0.85, "max_iter": 3, "tol": 1e-6},
                {"damping": 0.0, "max_iter": 5, "tol": 1e-6},
                {"damping": 1.0, "max_iter": 7, "tol": 1e-6},
                {"damping": 0.85, "max_iter": 6, "tol": 0.0},
                {"damping": 0.99, "max_iter": 100, "tol": 1e-2, "probe_budget": True}]
    return [{}]


def _expand(case):
    """One enumerated point -> the cases actually evaluated (PageRank: add the budgets around the python
    convergence sweep, where the two stopping rules can disagree)."""
    if case["fn"] == "pagerank_edges" and case.pop("probe_budget", False):
        out = [case]
        r = _observe(dict(case, max_iter=1000), "python")
        if "exc" not in r and r["status"] == "OPTIMAL":
            k = r["iterations"]
            for mi in sorted({max(1, k - 1), k, k + 1, k + 2}):
                if mi != case["max_iter"]:
                    out.append(dict(case, max_iter=mi))
        return out
    case.pop("probe_budget", None)
    return [case]


def _gen_exhaustive(unit):
    fn, n, L, shard, nshards, tier = unit["fn"], unit["n"], unit["L"], unit["shard"], unit["nshards"], unit["tier"]
    opts = _edge_options(fn, n, unit.get("W"))
    cfgs = _configs(fn, n, tier)
    i = 0
    for ln in range(0, L + 1):
        for seq in itertools.product(opts, repeat=ln):
            i += 1
            if i % nshards != shard:
                continue
            edges = [list(e) for e in seq]
            for cfg in cfgs:
                c = {"fn": fn, "n": n, "edges": edges}
                c.update(cfg)
                yield from _expand(c)


def exhaustive_size(fn, n, L, W=None):
    k = len(_edge_options(fn, n, W))
    return sum(k ** l for l in range(L + 1))


def _rand_graph(rng, fn, nmax, mmax):
    n = rng.choice([1, 2, 2, 3, 3, 4, 5, 6, 8, 10, nmax]) if rng.random() < 0.7 else rng.randint(1, nmax)
    n = min(n, nmax)
    m = rng.randint(0, min(mmax, 3 * n + 2))
    hot = [(rng.randrange(n), rng.randrange(n)) for _ in range(max(1, n // 2))]  # pairs that get duplicated / reversed
    style = rng.choice(["ties", "ties", "wide", "dyadic", "float", "zero"])
    neg_p = 0.0 if fn == "dijkstra_edges" else rng.choice([0.0, 0.0, 0.1, 0.25]) if fn != "kruskal" else rng.choice([0.0, 0.3])
    exact = style != "float"

    def weight():
        neg = rng.random() < neg_p
        if style == "ties":
            w = rng.choice([0, 1, 1, 2, 2, 3])
        elif style == "zero":
            w = rng.choice([0, 0, 0, 1])
        elif style == "wide":
            w = rng.choice([1, 7, 10, 100, 1000, 12345])
        elif style == "dyadic":
            w = rng.randint(0, 40) / 8.0
        else:
            w = round(rng.uniform(0, 10), 3)
        return -w if neg else w

    edges = []
    for _ in range(m):
        r = rng.random()
        if r < 0.10:
            u = rng.randrange(n)
            p = (u, u)
        elif r < 0.40:
            p = rng.choice(hot)
            if rng.random() < 0.5:
                p = (p[1], p[0])
        elif r < 0.55 and edges:
            e = rng.choice(edges)
            p = (e[1], e[0]) if rng.random() < 0.5 else (e[0], e[1])
        else:
            p = (rng.randrange(n), rng.randrange(n))
        edges.append([p[0], p[1], weight()] if fn in WEIGHTED else [p[0], p[1]])
    return n, edges, exact


def _gen_random(unit):
    fn, count, tier = unit["fn"], unit["count"], unit["tier"]
    rng = random.Random(f"C12/{unit['seed']}/{fn}/{unit['idx']}")
    for _ in range(count):
        n, edges, exact = _rand_graph(rng, fn, unit["nmax"], unit["mmax"])
        c = {"fn": fn, "n": n, "edges": edges}
        if fn in WEIGHTED and not exact:
            c["exact"] = False
        if fn == "floyd_warshall":
            c["directed"] = rng.random() < 0.5
        elif fn in ("bellman_ford", "dijkstra_edges", "bfs_edges", "dfs_edges"):
            c["source"] = rng.randrange(n)
            c["target"] = None if rng.random() < 0.35 else (rng.choice([0, n - 1, c["source"]]) if rng.random() < 0.3 else rng.randrange(n))
        elif fn == "kruskal":
            c["allow_forest"] = rng.random() < 0.5
        elif fn == "pagerank_edges":
            c["damping"] = rng.choice([0.85, 0.85, 0.5, 0.9, 0.99, 0.0, 0.3])
            c["tol"] = rng.choice([1e-6, 1e-6, 1e-8, 1e-3, 1e-2])
            c["max_iter"] = rng.choice([1, 2, 3, 5, 10, 20, 100, 100])
            c["probe_budget"] = rng.random() < 0.5
        yield from _expand(c)


def _key(case):
    return hashlib.blake2b(json.dumps(case, sort_keys=True).encode(), digest_size=8).hexdigest()


def _size(case):
    if case.get("kind") == "history":
        return (10 ** 7 + len(case["steps"]), case["n"], sum(len(v) for v in case["lists"].values()), json.dumps(case, sort_keys=True))
    if isinstance(case["edges"], dict):
        return (case["edges"]["n"], case["n"], 0, json.dumps(case, sort_keys=True))
    return (len(case["edges"]), case["n"], sum(abs(e[2]) for e in case["edges"] if len(e) > 2), json.dumps(case, sort_keys=True))


def _sample_view(case):
    """What goes into the evidence as a sample: big edge lists are summarised."""
    if case.get("kind") != "history" and isinstance(case.get("edges"), list) and len(case["edges"]) > 40:
        return dict(case, edges=f"<{len(case['edges'])} edges, first 5: {case['edges'][:5]}>")
    return case


KEEP_PER_OBLIGATION = 4


def _iter_results(unit):
    """-> (case, judgement, backend calls, evaluations) per case of the unit."""
    kind = unit["kind"]
    if kind in ("history", "deep"):
        import checks.C12_round2 as R2
        yield from R2.results(unit)
        return
    if kind == "explicit":
        gen = unit["cases"]
    elif kind == "exhaustive":
        gen = _gen_exhaustive(unit)
    elif kind == "random":
        gen = _gen_random(unit)
    else:
        import checks.C12_round2 as R2
        gen = {"ladder": R2.gen_ladder, "coincidence": R2.gen_coincidence}[kind](unit)
    for case in gen:
        if unit.get("backends"):
            case = dict(case, backends=unit["backends"])
        _progress(case)
        yield case, _eval_case(case), len(case.get("backends") or BACKENDS), 1


def _work(unit):
    """Evaluate one unit (a shard of an exhaustive space, a batch of random cases, or explicit cases)."""
    out = {"evals": 0, "keys": [], "viol": {}, "counts": {}, "inc": {}, "pvo": {}, "samples": [], "defect": None, "calls": 0, "cpu": 0.0, "by_mode": {},
           "unit": {k: v for k, v in unit.items() if k != "cases"}}
    if _W.get("err"):
        out["defect"] = _W["err"]
        return out
    if VERIF not in sys.path:
        sys.path.append(VERIF)
    t_cpu = sum(os.times()[:4])  # children included: history programs and deep cases run in child processes
    try:
        for case, (V, nontrivial, inc, pvo), ncalls, nevals in _iter_results(unit):
            out["evals"] += nevals
            out["calls"] += ncalls
            if nontrivial:
                out["keys"].append(_key(case))
            if len(out["samples"]) < 1 and nontrivial:
                out["samples"].append(_sample_view(case))
            for k in inc:
                out["inc"][k] = out["inc"].get(k, 0) + (inc[k] if unit["kind"] == "history" else 1)
            for k in pvo:
                out["pvo"][k] = out["pvo"].get(k, 0) + 1
                out["pvo"].setdefault("example: " + k, _sample_view(case))
            if case.get("kind") == "history":
                mk = "history program"
            else:
                mk = case["fn"] + (f"[{_mode(case)}]" if _mode(case) else "")
            if unit["kind"] not in ("exhaustive", "random", "explicit"):
                mk = unit["kind"] + ": " + mk
            out["by_mode"][mk] = out["by_mode"].get(mk, 0) + 1
            grouped: dict = {}
            for obl, detail in V:
                grouped.setdefault(obl, []).append(detail)
            for obl, details in grouped.items():  # one record per (obligation, case); all back ends in the detail
                detail = " | ".join(details)
                out["counts"][obl] = out["counts"].get(obl, 0) + 1
                lst = out["viol"].setdefault(obl, [])
                lst.append((_size(case), case, detail))
                if len(lst) > 4 * KEEP_PER_OBLIGATION:
                    lst.sort(key=lambda t: t[0])
                    del lst[KEEP_PER_OBLIGATION:]
        _progress(None)
    except (KeyboardInterrupt, SystemExit):
        raise
    except BaseException:  # a bug of the checker itself
        import traceback
        out["defect"] = "worker: " + traceback.format_exc()[-1200:]
    for lst in out["viol"].values():
        lst.sort(key=lambda t: t[0])
        del lst[KEEP_PER_OBLIGATION:]
    out["cpu"] = sum(os.times()[:4]) - t_cpu
    return out


# =========================================================================== parent side
def _plan(ctx: Ctx):
    """-> (units, scope descriptions).  Sizes are chosen so that quick stays inside 40 s on 16 cores."""
    q = ctx.quick
    tier = ctx.tier
    units, scopes = [], []
    # (fn, [(n, L quick, L thorough)])
    ex = {
        "floyd_warshall": [(1, 3, 4), (2, 3, 4), (3, 3, 4), (4, 2, 3)],
        "bellman_ford": [(1, 2, 3), (2, 3, 4), (3, 3, 3), (4, 2, 2)],
        "dijkstra_edges": [(1, 2, 3), (2, 3, 4), (3, 3, 4), (4, 2, 3)],
        "kruskal": [(1, 2, 3), (2, 3, 4), (3, 3, 4), (4, 2, 3)],
        "bfs_edges": [(1, 2, 3), (2, 4, 5), (3, 4, 5), (4, 3, 4)],
        "dfs_edges": [(1, 2, 3), (2, 4, 5), (3, 4, 5), (4, 3, 4)],
        "strongly_connected_components_edges": [(1, 2, 3), (2, 4, 6), (3, 4, 6), (4, 3, 5)],
        "topological_sort_edges": [(1, 2, 3), (2, 4, 6), (3, 4, 6), (4, 3, 5)],
        "pagerank_edges": [(1, 2, 3), (2, 3, 4), (3, 3, 4), (4, 2, 3)],
    }
    # longer edge sequences on more nodes with ONE weight (structure only: multi-hop paths, loop-nest order, tree shapes)
    unit_w = {
        "floyd_warshall": [(4, 3, 4), (5, 3, 4)],
        "bellman_ford": [(4, 3, 4)],
        "dijkstra_edges": [(4, 3, 4)],
        "kruskal": [(4, 3, 4), (5, 3, 4)],
    }
    rows_all = [(fn, n, lq, lt, None) for fn, rows in ex.items() for n, lq, lt in rows]
    rows_all += [(fn, n, lq, lt, (1,)) for fn, rows in unit_w.items() for n, lq, lt in rows]
    for fn, n, lq, lt, W in rows_all:
            L = lq if q else lt
            size = exhaustive_size(fn, n, L, W)
            cfg = len(_configs(fn, n, tier))
            nshards = max(1, min(256, (size * cfg) // 6000))
            for s in range(nshards):
                u = {"kind": "exhaustive", "fn": fn, "n": n, "L": L, "shard": s, "nshards": nshards, "tier": tier}
                if W:
                    u["W"] = W
                if n >= 3:  # "auto" takes the same route as the default; it is exercised on n <= 2 and in the random spaces
                    u["backends"] = ("python", "rust", "default")
                units.append(u)
            scopes.append({"name": f"{fn} exhaustive n={n}" + (" unit weights" if W else ""), "n": n, "max_edges": L, "edge_options": len(_edge_options(fn, n, W)),
                           "edge_sequences": size, "configurations_per_graph": cfg if fn != "pagerank_edges" else f"{cfg} (+ budgets around the python convergence sweep)",
                           "weights": (list(W) if W else list(W_NONNEG) if fn == "dijkstra_edges" else list(W_SIGNED)) if fn in WEIGHTED else None,
                           "exhaustive": True})
    R = 6000 if q else 60000
    batch = 250 if q else 1000
    for fn in ex:
        for i in range(R // batch):
            units.append({"kind": "random", "fn": fn, "count": batch, "idx": i, "seed": ctx.seed, "nmax": 12, "mmax": 30, "tier": tier})
        scopes.append({"name": f"{fn} random", "runs": R, "n": "1..12", "edges": "0..30, hot pairs duplicated/reversed, 10% self loops",
                       "weights": "ties {0..3} | zero-heavy | wide | dyadic k/8 | 3-decimal floats (compared with 1e-9 slack); negative with p in {0,.1,.25} where supported" if fn in WEIGHTED else None})
    return units, scopes


HANG_S = 90  # a worker is examined once its current case has not changed for this long (wall); the verdict is by CPU time
STALL_WALL_S = 1800  # ... or when it has used less than 1 s of CPU over this much wall time (blocked, not slow)


def _cpu_of_tree(root_pids):
    """{root pid: CPU seconds (user+system, reaped children included) of the process and all its live descendants}.
    One pass over /proc; processes that vanish meanwhile are skipped."""
    tick = os.sysconf("SC_CLK_TCK")
    info = {}
    for d in os.listdir("/proc"):
        if not d.isdigit():
            continue
        try:
            with open(f"/proc/{d}/stat", "rb") as f:
                raw = f.read().decode("ascii", "replace")
            rest = raw[raw.rindex(")") + 2:].split()
            info[int(d)] = (int(rest[1]), (int(rest[11]) + int(rest[12]) + int(rest[13]) + int(rest[14])) / tick)
        except Exception:  # noqa
            continue
    kids: dict = {}
    for pid, (ppid, _) in info.items():
        kids.setdefault(ppid, []).append(pid)
    out = {}
    for r in root_pids:
        if r not in info:
            out[r] = None  # the process is gone
            continue
        tot, todo = 0.0, [r]
        while todo:
            p = todo.pop()
            if p in info:
                tot += info[p][1]
                todo.extend(kids.get(p, []))
        out[r] = tot
    return out


def _hang_budget(rec):
    """CPU seconds after which a case that is still running counts as hung: well above the in-process CPU alarm
    (which turns a Python-level loop into a Timeout observation long before)."""
    c = rec.get("case") or {}
    if c.get("kind") == "history":
        return 10 * CASE_ALARM_S
    n = c.get("n", 0) if isinstance(c.get("n", 0), int) else 0
    return (2 * 4 * CASE_ALARM_S + 60) if n > 256 else (2 * CASE_ALARM_S)


def _run_pool(units, tmp, expect_rust, cap_s, procs=None):
    """-> (results, hung_cases, timed_out).  Hang detection is per worker, progress based and decided by CPU TIME (never
    by a wall-clock guess, so a loaded machine cannot turn slowness into a finding): every worker overwrites its
    progress file with (counter, case) before each case; once a file has shown the same non-idle entry for HANG_S
    seconds the parent follows the CPU time of that worker and its children (/proc) and declares the case hung when
    it has burnt the case's hang budget (a hang in native code never reaches the in-process CPU alarm), or when the
    worker has used < 1 s of CPU in STALL_WALL_S of wall time (blocked).  cap_s only bounds the whole run (-> checker
    defect)."""
    procs = procs or min(16, os.cpu_count() or 1)
    mpctx = mp.get_context("fork")
    pool = mpctx.Pool(procs, initializer=_enter_overlay, initargs=(tmp, expect_rust))
    results, hung, timed_out = [], [], False
    last: dict = {}  # progress file -> [raw entry, wall time first seen, cpu of the worker tree then]
    last_scan = time.time()
    try:
        it = pool.imap_unordered(_work, units, chunksize=1)
        t_end = time.time() + cap_s
        done = 0
        while done < len(units):
            try:
                results.append(it.next(timeout=5.0))
                done += 1
                if time.time() - last_scan < 5.0:
                    continue
            except mp.TimeoutError:
                pass
            now = last_scan = time.time()
            suspects = []
            for f in glob.glob(os.path.join(tmp, "progress", "*")):
                try:
                    raw = open(f, "rb").read()
                    raw = raw[:8 + int(raw[:8])]
                except Exception:
                    continue
                if f not in last or last[f][0] != raw:
                    last[f] = [raw, now, None]
                elif now - last[f][1] > HANG_S:
                    suspects.append(f)
            if suspects:
                pids = {f: int(os.path.basename(f)) for f in suspects if os.path.basename(f).isdigit()}
                cpu = _cpu_of_tree(list(pids.values()))
                for f, pid in pids.items():
                    try:
                        rec = json.loads(last[f][0][8:])
                    except Exception:  # noqa
                        continue
                    if rec.get("idle"):
                        continue
                    if cpu.get(pid) is None:  # the worker died in the middle of this case (the pool never delivers its unit)
                        rec_case = rec.get("case")
                        if isinstance(rec_case, dict):
                            rec_case = dict(rec_case, _hang="its worker process died (crash in native code?)")
                        hung.append(rec_case)
                        continue
                    if last[f][2] is None:
                        last[f][2] = (cpu[pid], now)  # CPU is followed from the moment the case became a suspect
                        continue
                    cpu0, t0 = last[f][2]
                    used = cpu[pid] - cpu0
                    if used >= _hang_budget(rec) or (now - t0 > STALL_WALL_S and used < 1.0):
                        rec_case = rec.get("case")
                        if isinstance(rec_case, dict):
                            rec_case = dict(rec_case, _hang=f"{used:.0f} s of CPU in {now - t0:.0f} s of wall time (after a first {HANG_S} s without progress)")
                        hung.append(rec_case)
            if hung:
                break
            if now > t_end:
                timed_out = True
                break
    finally:
        pool.terminate()
        pool.join()
    return results, hung, timed_out


def _merge(ctx: Ctx, results, tag=""):
    viol: dict = {}
    counts: dict = {}
    inc: dict = {}
    pvo: dict = {}
    evals = calls = 0
    keys: set = set()
    samples = []
    by_mode = ctx.notes.setdefault("cases_per_function_and_mode" + (" " + tag.strip() if tag else ""), {})
    for r in results:
        for k, v in r["by_mode"].items():
            by_mode[k] = by_mode.get(k, 0) + v
        if r["defect"]:
            ctx.defects.append(f"{tag}{r['defect']} (unit {r['unit']})")
        evals += r["evals"]
        calls += r["calls"]
        keys.update(r["keys"])
        for s in r["samples"]:
            if len(samples) < 40:
                samples.append(s)
        for k, v in r["counts"].items():
            counts[k] = counts.get(k, 0) + v
        for k, v in r["inc"].items():
            inc[k] = inc.get(k, 0) + v
        for k, v in r["pvo"].items():
            if k.startswith("example: "):
                pvo.setdefault(k, v)
            else:
                pvo[k] = pvo.get(k, 0) + v
        for k, lst in r["viol"].items():
            viol.setdefault(k, []).extend(lst)
    return viol, counts, inc, pvo, evals, calls, keys, samples


def run(ctx: Ctx):
    ctx.rule = ("case = (function, n, edge sequence, mode/source/target/options); every case is evaluated with backend=python, rust, "
                "no argument and 'auto' in one worker that imports the overlay package. exhaustive: every edge SEQUENCE (order matters "
                "for first-seen and adjacency effects) up to the stated length over all ordered pairs incl. self loops x small weight set, "
                "times every source/target/mode; random: seeded multigraphs with duplicated/reversed hot pairs. non-trivial = at least "
                "one edge and every back end returned a Result; distinct = different canonical JSON of the case. "
                "round-2 families (checks/C12_round2.py): size ladder = seeded sparse multigraphs on 10..8192 (thorough 16385) nodes per function and "
                "variant (weights wide / ties / dyadic / negative via potentials / planted negative cycle; targets none / reachable / unreachable; DAG, "
                "DAG + self loop, DAG + back arc, strongly connected blocks, long paths), floyd_warshall up to 260 (thorough 520) nodes; option coincidence = "
                "pagerank_edges with tol placed strictly between two consecutive max-norm changes of an independent power iteration and max_iter = c-2..c+5, 100 "
                "around the stopping sweep c; history = programs of in-place edits and calls on one weighted and one arc list object, all three back ends per "
                "call, every call judged by the same contract for the list contents at that moment, last call re-made in an interpreter that made no call before "
                "(one evaluation per call group; one distinct key per program); deep = path-shaped graphs in a new interpreter process per case")
    ctx.trusted += ["oracles/c12_graph.py (closure / Bellman-Ford / Floyd-Warshall / forest weight on Fractions, Gaussian elimination for PageRank)",
                    "oracles/c12_big.py for inputs with more than 16 nodes or 60 edges (BFS, label-correcting shortest paths on exact integers that certify "
                    "themselves by a feasible potential or an explicit negative cycle, Kosaraju, union-find; binary64 power iteration used only to place tol "
                    "and max_iter with a 1e-6 relative margin); compared with c12_graph.py on small random multigraphs in every run",
                    "Rust kernels rust/src/algorithms/*.rs are NOT verified: they are compiled from the tree under check and observed through the adapters",
                    "cargo/rustc/pyo3 tool chain; CPython import system (overlay on sys.path[0])"]
    ctx.assumptions += [
        "valid input = node indices in range, edges given as tuples, finite weights, non-negative weights for dijkstra_edges, n_nodes >= 1, max_iter >= 1",
        "weights that are ints or multiples of 1/8 sum exactly in binary64, so 'identical' is ==; 3-decimal float weights are compared with 1e-9 relative slack",
        "PageRank tolerance: both converged => |py-rust| <= d/(1-d)*(n+1)*tol + 1e-9 (python stops on max-norm < tol, so its L1 step is < n*tol; "
        "rust stops on L1 < tol; error of an iterate <= d/(1-d) * last L1 step); both MAX_ITER => same iterate, 1e-9; damping == 1: status only",
        "PageRank status on a knife edge: when python's last max-norm step is within 1e-9 relative of tol, OPTIMAL vs MAX_ITER is float summation order, not counted",
        "not compared (incidental): iterations, evaluations, dict key order, int-vs-float type of equal numbers, objective of topological_sort_edges/pagerank_edges",
        "PageRank, option-coincidence family only: when no sweep within the budget has a max-norm change within 1e-6 (relative) of tol, every back end must stop at "
        "the same sweep, so two OPTIMAL answers are compared with the bound tol itself ('equal within the convergence tolerance', literally)",
        "size ladder, strongly_connected_components_edges: the recursion limit is raised to 20 n + 10000 during the call, as the module's docstring advises for "
        "deep graphs (also in the deep family, SCC depth <= 20000). Stack exhaustion is outside the contract (project assumption A3: MemoryError / RecursionError ignored): "
        "measured limits on this tree - backend=python raises RecursionError at DFS depth ~990 under the default recursion limit (path of 1200 nodes) where backend=rust answers; "
        "the Rust kernel's recursive strongconnect overflows the native stack (SIGSEGV of the process) between depth 40000 and 50000 (8 MiB stack); "
        "documented with patches in triage/C12_round2.md, not judged",
        "history mode: the caller's list must hold the same elements after a call as before it (obligation edge-list-left-untouched); a difference between the last call "
        "of a program and the same call in an interpreter that made no call before is a violation (same back end, same input: status, solution and objective compared exactly)",
    ]
    from vf.prove import prove
    prove(ctx, ["specs.backend"], "C12")  # deductive part: get_backend dispatch (specs/backend.py)
    ctx.assumptions.append("specs/backend.py: rust_available() is one fixed boolean per process (ghost rust_ok(0); its try/import body and the module "
                           "global are not verified), _warn_fallback only logs; string literals are interned opaque constants (equal literals equal, "
                           "different literals different), None is the empty option; `with_rust_backend.wrapper` (*args/**kwargs forwarding) is outside "
                           "the subset and is covered by the bounded families only")
    so, log, secs = build_extension()
    ctx.notes["cargo_build_s"] = round(secs, 2)
    ctx.notes["rust_dir"] = rust_dir()
    if so is None:
        ctx.defects.append(f"cannot build the extension from {rust_dir()}: {log}")
        return
    tmp = make_overlay(so)
    os.unlink(so)
    tmp2 = make_overlay(None)
    try:
        import checks.C12_round2 as R2
        import oracles.c12_big as OB
        for msg in OB.selftest(ctx.seed, 150 if ctx.quick else 2000):
            ctx.defects.append("oracles/c12_big.py disagrees with the brute-force oracle: " + msg)
        units, scopes = _plan(ctx)
        for planner in (R2.plan_ladder, R2.plan_coincidence):
            u_new, rows = planner(ctx.tier, ctx.seed)
            units += u_new
            scopes += rows
        # big units first (better packing); deterministic order
        units.sort(key=lambda u: (-(exhaustive_size(u["fn"], u["n"], u["L"], u.get("W")) // u["nshards"] if u["kind"] == "exhaustive" else u["count"]), json.dumps(u, sort_keys=True)))
        # history programs and deep cases: a pool of its own whose workers never call the library themselves (every
        # program / case runs in a child process of a worker that has only imported the overlay package).  It runs
        # FIRST: its workers fork once per program, and a fork costs page-table copies proportional to the size of
        # this process, which grows by gigabytes while the results of the big spaces are collected.
        units_h = []
        rows_h = []
        for planner in (R2.plan_history, R2.plan_deep):
            u_new, rows = planner(ctx.tier, ctx.seed)
            units_h += u_new
            rows_h += rows
        units_h.sort(key=lambda u: (-u["count"], json.dumps(u, sort_keys=True)))
        res_h, hung_h, to_h = _run_pool(units_h, tmp, True, cap_s=1200 if ctx.quick else 7200)
        results, hung, timed_out = _run_pool(units, tmp, True, cap_s=1200 if ctx.quick else 7200)
        scopes += rows_h
        results += res_h
        hung += hung_h
        timed_out = timed_out or to_h
        units = units + units_h
        viol, counts, inc, pvo, evals, calls, keys, samples = _merge(ctx, results)
        cpu = sum(r["cpu"] for r in results)
        ctx.notes["worker_cpu_s_by_family"] = {k: round(sum(r["cpu"] for r in results if r["unit"]["kind"] == k), 1)
                                               for k in sorted({r["unit"]["kind"] for r in results})}
        for c in hung:
            why = c.pop("_hang", "") if isinstance(c, dict) else ""
            if c.get("kind") == "history":
                ctx.violation("C12/history/ensures:returns-on-every-backend", c, f"no result for this program: {why}; the pool was stopped")
                continue
            ctx.violation(_ob(c) + "returns-on-every-backend", c,
                          f"no result for this case: {why}; the pool was stopped (a hang or crash in native code cannot be interrupted from Python)")
        if len(results) != len(units):
            ctx.notes["units_not_finished"] = len(units) - len(results)
            if timed_out:
                ctx.defects.append(f"{len(units) - len(results)} work units did not finish within the overall cap (machine overloaded?)")
        for s in scopes:
            ctx.scope(s.pop("name"), **s)
        # ---- pure-Python path (no extension in the package): default/auto == python exactly, backend='rust' raises ImportError
        u2 = []
        for fn in ("floyd_warshall", "bellman_ford", "dijkstra_edges", "bfs_edges", "dfs_edges", "kruskal", "pagerank_edges",
                   "strongly_connected_components_edges", "topological_sort_edges"):
            u2.append({"kind": "exhaustive", "fn": fn, "n": 3, "L": 2, "shard": 0, "nshards": 1, "tier": ctx.tier, "backends": ("python", "default", "auto")})
            u2.append({"kind": "random", "fn": fn, "count": 150 if ctx.quick else 3000, "idx": 0, "seed": ctx.seed + 1, "nmax": 12, "mmax": 30,
                       "tier": ctx.tier, "backends": ("python", "default", "auto")})
        u2.append({"kind": "explicit", "backends": ("rust",), "cases": [
            {"fn": "floyd_warshall", "n": 2, "edges": [[0, 1, 1]], "directed": True},
            {"fn": "bfs_edges", "n": 2, "edges": [[0, 1]], "source": 0, "target": None}]})
        res2, hung2, to2 = _run_pool(u2, tmp2, False, cap_s=300 if ctx.quick else 900)
        cpu += sum(r["cpu"] for r in res2)
        explicit = [r for r in res2 if r["unit"]["kind"] == "explicit"]
        res2 = [r for r in res2 if r["unit"]["kind"] != "explicit"]
        v2, c2, inc2, pvo2, e2, calls2, k2, s2 = _merge(ctx, res2, tag="[no-extension overlay] ")
        ctx.scope("pure-Python path (overlay without the extension)", functions=9, exhaustive_part="n=3, <=2 edges, all modes", random_runs_per_function=150 if ctx.quick else 3000,
                  backends=["python", "default", "auto"], evaluations=e2)
        for k, lst in v2.items():
            viol.setdefault(k.replace("/ensures:", "/no-extension:"), []).extend(lst)
        for k, v in c2.items():
            counts[k.replace("/ensures:", "/no-extension:")] = v
        for r in explicit:
            # with backend='rust' and no extension every case must raise ImportError (counted as 'all raise the same exception')
            if r["defect"]:
                ctx.defects.append(r["defect"])
            if r["counts"]:
                ctx.violation("C12/get_backend/no-extension:explicit-rust-raises-ImportError", {"cases": u2[-1]["cases"]},
                              f"backend='rust' without the extension: {r['counts']} {r['inc']}")
            elif r["inc"].get("all back ends raise ImportError (input treated as invalid)") != len(u2[-1]["cases"]):
                # C12 does not demand the ImportError: a tree that answers through the Python body instead (silent fall-back) still gives
                # 'the same status and the same answer' on every back end, so this is recorded, not judged (it used to be a violation)
                ctx.notes["explicit_rust_without_extension"] = f"did not raise ImportError on every case: {r['inc']}"
        if hung2 or to2:
            ctx.defects.append(f"no-extension overlay: workers hung / capped: {hung2[:2]}")
        evals += e2
        calls += calls2
        keys |= {"noext:" + k for k in k2}
        # ---- report
        for obl in sorted(viol):
            lst = sorted(viol[obl], key=lambda t: t[0])[:KEEP_PER_OBLIGATION]
            for _, case, detail in lst:
                ctx.violation(obl, case, f"{detail}  [{counts.get(obl, '?')} failing cases for this obligation in this run]")
        ctx.count(evals, keys, samples[:12])
        ctx.notes["backend_calls"] = calls
        ctx.notes["worker_cpu_s"] = round(cpu, 1)
        ctx.notes["violation_counts"] = dict(sorted(counts.items()))
        ctx.notes["incidental_differences_not_counted"] = inc
        ctx.notes["python_vs_exact_oracle_disagreements (other properties' business, informational)"] = pvo
        ctx.notes["backends_compared"] = list(BACKENDS)
        ctx.notes["stack_depth_limits_not_judged"] = {
            "strongly_connected_components_edges backend=python": "RecursionError at DFS depth ~990 with the default recursion limit (docstring of solvor/scc.py tells callers to raise it); fine to depth 100000 with the limit raised",
            "strongly_connected_components_edges backend=rust/default": "native stack overflow (SIGSEGV) between DFS depth 40000 and 50000; fine at 40000",
            "checked range": "SCC depth <= 20000 with the recursion limit raised around the call; topological_sort/bfs/dfs to 300000 nodes (explicit stacks on both sides)",
            "write-up": "triage/C12_round2.md"}
    finally:
        shutil.rmtree(tmp, ignore_errors=True)
        shutil.rmtree(tmp2, ignore_errors=True)


def replay(rec) -> int:
    case = rec.get("case") or {}
    so, log, secs = build_extension()
    if so is None:
        print("cannot build the extension:", log)
        return 3
    noext = "/no-extension:" in rec.get("obligation", "")
    tmp = make_overlay(None if noext else so)
    os.unlink(so)
    try:
        if "cases" in case:
            unit = {"kind": "explicit", "cases": case["cases"], "backends": ("rust",)}
        elif case.get("kind") == "history":
            unit = {"kind": "history", "programs": [case], "shrink": False}
        elif isinstance(case.get("edges"), dict):
            unit = {"kind": "deep", "cases": [case]}
        else:
            unit = {"kind": "explicit", "cases": [case]}
            if noext:
                unit["backends"] = ("python", "default", "auto")
        res, hung, _ = _run_pool([unit], tmp, not noext, cap_s=600, procs=1)
    finally:
        shutil.rmtree(tmp, ignore_errors=True)
    if hung:
        print("replay: worker hung on", hung)
        return 1
    if not res:
        print("replay: no result")
        return 3
    r = res[0]
    if r["defect"]:
        print("replay: checker defect:", r["defect"])
        return 3
    if "cases" in case:
        ok = not r["counts"] and r["inc"].get("all back ends raise ImportError (input treated as invalid)") == len(case["cases"])
        print("replay:", "no violation" if ok else f"still violates: {r['counts']} {r['inc']}")
        return 0 if ok else 1
    if not r["viol"]:
        print("replay: no violation on", json.dumps(case)[:600])
        return 0
    for obl, lst in r["viol"].items():
        for _, c, detail in lst:
            print(f"replay: {obl} :: {detail}")
    return 1

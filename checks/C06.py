"""C06 - the CP-to-SAT encoding has exactly the models of the CP problem (bounded back end: clause list captured,
all models enumerated by an independent all-SAT, projected on the named variables, compared as sets)."""
from checks import cp_common as C
from checks import cp_round2 as R
from vf.core import use_repo
from vf.pool import pmap

LEVEL = "exploration"


def run(ctx):
    use_repo()
    prove(ctx)
    models = C.gen_models(ctx.seed, ctx.quick)
    cases = [{"desc": {"vars": d["vars"], "constraints": d["constraints"]}, "family": d["family"]} for d in models]
    chunks = [cases[i:i + 40] for i in range(0, len(cases), 40)]
    res = pmap(C.eval_c06_chunk, chunks, chunksize=1)
    n = 0
    nontriv = set()
    fam = {}
    samples = []
    skipped = not_buildable = 0
    for ch in res:
        for c, viol, info in ch:
            if "skipped" in info:
                if "booleans" in info["skipped"]:
                    skipped += 1
                else:
                    not_buildable += 1
                continue
            n += 1
            fam[c["family"]] = fam.get(c["family"], 0) + 1
            box = 1
            for _, lb, ub in c["desc"]["vars"]:
                box *= (ub - lb + 1)
            if box >= 2 and 0 < info.get("n_ref", 0) < box:
                nontriv.add(repr(c["desc"]))
            if len(samples) < 6 and n % 397 == 0:
                samples.append({"desc": c["desc"], **{k: info[k] for k in ("n_ref", "n_models", "n_bool", "n_clauses") if k in info}})
            for ob, detail in viol:
                ctx.violation(ob, {"desc": c["desc"]}, detail)
    ctx.count(n, nontriv, samples or [cases[0]])
    ctx.scope("small scope: CP models by family, all models of the CNF enumerated (all-SAT up to 26 booleans, else projected with z3 one box point at a time)", **fam)
    ctx.notes["skipped_beyond_all_sat_bound"] = skipped
    ctx.notes["shapes_not_offered_by_the_public_operators"] = not_buildable
    oracle_selftest(ctx, models)
    large(ctx)
    history(ctx)
    ctx.rule = ("(1) small scope: same model generator as C05; per model the clause list handed to solve_sat is captured, all its models are enumerated by an independent "
                "splitting all-SAT (<= 26 booleans; larger CNFs over a box of <= 4000 points are projected with z3: CNF + assignment satisfiable? for every box point), "
                "each model must decode every integer variable to exactly one value, and the decoded set must equal the "
                "brute-force CP solution set; non-trivial = CP solution set non-empty and smaller than the domain box. "
                "(2) size ladder (cp_round2.gen_large, 6..1000+ variables): the captured CNF is loaded into z3; (a) 'some named variable has not exactly one true value literal' must be "
                "unsatisfiable; (b) every probe assignment (planted solutions, permutations of every cycle type for circuit, duplicate pairs for all_different, overloads, "
                "off-by-one sums ...) must be accepted by the CNF iff it passes the direct check of oracles/cp_sem.py; (c) CNF + channelling + negated semantics (stated in "
                "integer arithmetic, oracles/cp_z3.py) is searched for an extra model within a time limit; non-trivial = the model has probes of both kinds or a certificate. "
                "(3) history mode: sessions on ONE Model object (solve, int_var/add, solve ...); at every solve that reaches the encoder the CNF's projection on the named "
                "variables must equal the brute-force solution set of the model as it is at that call, and (last call) the projection computed in a fresh process. "
                "distinct = different model / session prefix")
    ctx.assumptions += ["decoding uses IntVar.bool_vars of the named variables (the encoder's own variable map)",
                        "small-scope models with more than 26 booleans whose box exceeds 4000 points are skipped and counted (skipped_beyond_all_sat_bound)",
                        "size ladder: z3 'unknown' answers (time limit) are counted (z3_undecided) and not judged; an 'unsat' of the negated-semantics search is trusted, every "
                        "'sat' (extra model) is re-checked with oracles/cp_sem.py before it is reported"]
    ctx.trusted += ["oracles/cp_sem.py (reference semantics)", "z3 as the independent SAT/SMT solver deciding CNF + assignment and CNF + negated semantics (oracles/cp_z3.py)"]


def _digest(x):
    import hashlib, json
    return hashlib.sha1(json.dumps(x, sort_keys=True).encode()).hexdigest()[:12]


def _selftest_chunk(descs):
    from oracles import cp_z3
    out = []
    for d in descs:
        out += [repr(b)[:300] for b in cp_z3.selftest(d)]
    return out


def oracle_selftest(ctx, models):
    """the arithmetic statement of the semantics (oracles/cp_z3.py, trusted when it answers 'no extra model') must agree with
    oracles/cp_sem.py point by point on small models; a disagreement is a checker defect"""
    import random
    sel = [{"vars": m["vars"], "constraints": m["constraints"]} for m in models if m["family"] != "rel"]
    random.Random(ctx.seed + 3).shuffle(sel)
    sel = sel[: 240 if ctx.quick else 2400]
    res = pmap(_selftest_chunk, [sel[i:i + 15] for i in range(0, len(sel), 15)], chunksize=1)
    bad = [b for r in res for b in r]
    for b in bad[:5]:
        ctx.defects.append(f"oracles/cp_z3.py disagrees with oracles/cp_sem.py: {b}")
    ctx.notes["z3_semantics_selftest_models"] = len(sel)


def _large_one(case):
    return R.eval_c06_large(case)


def large(ctx):
    models = R.gen_large(ctx.seed, ctx.quick, "C06")
    cases = [{"desc": d["desc"], "probes": d["probes"], "family": d["family"], "size": d["size"], "cert": d.get("cert"),
              "neg_timeout_ms": 1500 if ctx.quick else 30000, "cpu_s": 120 if ctx.quick else 600} for d in models]
    cases.sort(key=lambda c: -sum(ub - lb + 1 for _, lb, ub in c["desc"]["vars"]))
    res = pmap(_large_one, cases, chunksize=1)
    fam, nontriv, samples = {}, set(), []
    n = n_probes = undecided = neg_done = timeouts = 0
    per_ob = {}
    for c, (viol, info) in zip(cases, res):
        if "skipped" in info:
            continue
        if "timeout" in info:
            timeouts += 1
            continue
        n += 1
        n_probes += info.get("probes", 0)
        undecided += info.get("unknown", 0) + (1 if info.get("neg_search") == "unknown" else 0)
        neg_done += 1 if info.get("neg_search") in ("none", "extra") else 0
        fam.setdefault(c["family"], set()).add(c["size"])
        if (info.get("probe_sat") and info.get("probe_unsat")) or c.get("cert"):
            nontriv.add("L" + _digest(c["desc"]))
        if "oracle_conflict" in info:
            ctx.defects.append(f"C06 size ladder {c['family']} n={c['size']}: {info['oracle_conflict']}")
        if len(samples) < 4 and n % 23 == 0:
            samples.append({"family": c["family"], "size": c["size"], **{k: info[k] for k in ("n_bool", "n_clauses", "probes", "probe_sat", "probe_unsat", "neg_search") if k in info}})
        for ob, detail in viol:
            per_ob.setdefault(ob, []).append((c["size"], {**c, "probes": info.get("bad_probes") or c["probes"][:3]}, detail))
    for ob, lst in per_ob.items():
        lst.sort(key=lambda t: t[0])
        for _, c, detail in lst[:3]:
            ctx.violation(ob + "[size-ladder]", {"kind": "large", **{k: c[k] for k in ("desc", "probes", "family", "size", "cert")}},
                          f"{c['family']} n={c['size']}: {detail}" + (f" ({len(lst)} findings of this obligation)" if len(lst) > 1 else ""))
    ctx.count(n + n_probes, nontriv, samples)
    ctx.scope("size ladder: CNF of structured models probed with z3 (assignment probes with known status, complete exactly-one check, negated-semantics search)",
              models=n, probes=n_probes, negated_semantics_search_decided=neg_done, z3_undecided=undecided,
              max_variables=max(len(d["desc"]["vars"]) for d in models), **{k: sorted(v) for k, v in fam.items()})
    ctx.notes["z3_undecided"] = undecided
    ctx.notes["large_encoder_timeouts"] = timeouts


def history(ctx):
    scns = R.gen_histories(ctx.seed, ctx.quick, 700 if ctx.quick else 12000)
    chunks = [scns[i:i + 14] for i in range(0, len(scns), 14)]
    res = pmap(R.eval_c06_history_chunk, chunks, chunksize=1)
    n = 0
    nontriv, samples, per_ob = set(), [], {}
    kinds = {"sessions": len(scns), "cnfs_judged": 0, "feasible": 0, "infeasible": 0, "after_int_var_following_a_solve": 0}
    for out, errs in res:
        for e in errs:
            ctx.defects.append(f"C06 history: fresh-process comparison failed: {e}")
        for scn, viol, infos in out:
            st = scn["steps"]
            for i in infos:
                if "n_ref" not in i:
                    continue
                n += 1
                kinds["cnfs_judged"] += 1
                kinds["feasible" if i["n_ref"] else "infeasible"] += 1
                if any(s[0] == "var" and any(t[0] == "solve" for t in st[:k]) for k, s in enumerate(st[:i["step"]])):
                    kinds["after_int_var_following_a_solve"] += 1
                if 0 < i["n_ref"] < i["box"]:
                    nontriv.add(repr(("h", scn["id"], i["step"])))
            if len(samples) < 2 and scn["id"] % 401 == 7:
                samples.append({"history": st})
            seen = set()
            for ob, detail, step in viol:
                if ob in seen:
                    continue
                seen.add(ob)
                per_ob.setdefault(ob, []).append((step, scn, detail))
    for ob, lst in per_ob.items():
        lst.sort(key=lambda t: t[0])
        for step, scn, detail in lst[:3]:
            ctx.violation(ob, {"kind": "history", "steps": scn["steps"][:step + 1] if step >= 0 else scn["steps"], "id": scn["id"]},
                          detail + (f" ({len(lst)} sessions hit this obligation)" if len(lst) > 1 else ""))
    ctx.count(n, nontriv, samples)
    ctx.scope("history mode: sessions on one Model object; CNF captured at every solve, projected on the named variables with z3, compared with brute force and a fresh process", **kinds)


def prove(ctx):
    try:
        from pyvc.run import prove_functions
        from pyvc.spec import REG
        import specs.cp_encoder  # noqa
        keys = [k for k, s in REG.fns.items() if "C06" in s.prop]
        if keys:
            ctx.add_proof_report(prove_functions(["specs.cp_encoder"], keys, tier=ctx.tier))
    except ImportError:
        pass


def replay(rec):
    use_repo()
    c = rec["case"]
    if not isinstance(c, dict):
        return R.replay_caseless(rec, "C06")
    if c.get("kind") == "large":
        v, info = R.eval_c06_large({**c, "neg_timeout_ms": 60000, "cpu_s": 900})
        print("replay:", v or "no violation", info)
        return 1 if v else 0
    if c.get("kind") == "history":
        fo = []
        v, infos = R.eval_c06_history({"steps": c["steps"], "id": c.get("id", 0)}, fo)
        if fo and not v:  # the comparison with a new interpreter
            a = R._fresh_process("c06", [{"desc": fo[-1]["desc"]}])[0]
            if a is not None and sorted(map(repr, fo[-1]["acc"])) != sorted(map(repr, a)):
                v.append(("C06/SATEncoder/ensures:cnf-independent-of-earlier-solves-on-the-object", f"{len(fo[-1]['acc'])} vs {len(a)} accepted assignments", fo[-1]["step"]))
        print("replay:", [(ob, d) for ob, d, _ in v] or "no violation", infos[-1:])
        return 1 if v else 0
    v, info = C.eval_c06(c)
    print("replay:", v or "no violation", info)
    return 1 if v else 0

"""C06 - the CP-to-SAT encoding has exactly the models of the CP problem (bounded back end: clause list captured,
all models enumerated by an independent all-SAT, projected on the named variables, compared as sets)."""
from checks import cp_common as C
from vf.core import use_repo
from vf.pool import pmap

LEVEL = "exploration"


def run(ctx):
    use_repo()
    prove(ctx)
    models = C.gen_models(ctx.seed, ctx.quick)
    cases = [{"desc": {"vars": d["vars"], "constraints": d["constraints"]}, "family": d["family"]} for d in models]
    chunks = [cases[i:i + 40] for i in range(0, len(cases), 40)]
    res = pmap(C.eval_c06_chunk, chunks, chunksize=1)
    n = 0
    nontriv = set()
    fam = {}
    samples = []
    skipped = 0
    for ch in res:
        for c, viol, info in ch:
            if "skipped" in info:
                skipped += 1
                continue
            n += 1
            fam[c["family"]] = fam.get(c["family"], 0) + 1
            box = 1
            for _, lb, ub in c["desc"]["vars"]:
                box *= (ub - lb + 1)
            if box >= 2 and 0 < info.get("n_ref", 0) < box:
                nontriv.add(repr(c["desc"]))
            if len(samples) < 6 and n % 397 == 0:
                samples.append({"desc": c["desc"], **{k: info[k] for k in ("n_ref", "n_models", "n_bool", "n_clauses") if k in info}})
            for ob, detail in viol:
                ctx.violation(ob, {"desc": c["desc"]}, detail)
    ctx.count(n, nontriv, samples or [cases[0]])
    ctx.scope("CP models by family", **fam)
    ctx.notes["skipped_beyond_all_sat_bound"] = skipped
    ctx.rule = ("same model generator as C05; per model the clause list handed to solve_sat is captured, all its models are enumerated by an independent "
                "splitting all-SAT (<= 26 booleans), each model must decode every integer variable to exactly one value, and the decoded set must equal the "
                "brute-force CP solution set. non-trivial = CP solution set non-empty and smaller than the domain box; distinct = different model")
    ctx.assumptions += ["decoding uses IntVar.bool_vars of the named variables (the encoder's own variable map)",
                        "models with more than 26 booleans are skipped and counted (skipped_beyond_all_sat_bound)"]


def prove(ctx):
    try:
        from pyvc.run import prove_functions
        from pyvc.spec import REG
        import specs.cp_encoder  # noqa
        keys = [k for k, s in REG.fns.items() if "C06" in s.prop]
        if keys:
            ctx.add_proof_report(prove_functions(["specs.cp_encoder"], keys, tier=ctx.tier))
    except ImportError:
        pass


def replay(rec):
    use_repo()
    v, info = C.eval_c06(rec["case"])
    print("replay:", v or "no violation", info)
    return 1 if v else 0

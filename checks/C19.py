"""C19 - search heuristics return the best point they evaluated, faithfully, reproducibly (bounded back end).

Every solver named by the property is run on the real code with the objective wrapped by a recording proxy
(oracles/search_books.py) over adversarial deterministic objectives (lookup tables on a small ring: plateaus and
ties everywhere; clamped-floor grids on R^n: plateaus + jumps, optionally plus a smooth part), scripted
callbacks (fresh / shared / same-object / in-place-on-fresh results), seeds, tiny iteration limits, every
acceptance rule incl. user `accept` functions, early stops through on_progress, both senses.

Clauses (obligation names  C19/<solver>/<clause>):
  first group  (anneal, tabu_search, lns, alns, evolve, differential_evolution, particle_swarm, nelder_mead,
                bayesian_opt):
      ensures:objective==f(solution)     f re-evaluated (pure, unrecorded) on the returned object, user sign
      ensures:best-of-evaluated          at least as good as every recorded call
      ensures:not-worse-than-start       at least as good as f(start point(s))
      ensures:evaluations==calls
      ensures:within-bounds              differential_evolution, particle_swarm, bayesian_opt
      mirror:max(f)==min(-f)             same solution / iterations / evaluations / status, objective negated
  second group (powell, bfgs, lbfgs with objective_fn):  ensures:objective==f(solution)
  all twelve:   reproducible:run-twice   (fixed seed, or seedless solver)
  an exception / time-out in a solver on these (documented-domain) inputs is reported as  returns-a-result

Round-2 families (generators in checks/search_round2.py, same clauses, verdict from the recorded trace of the run itself, so
no size limit from an oracle): budget ladder (33 .. 1000 / 5000 planted in every size-like parameter; bayesian_opt 66 .. 130 /
300), dimension ladder (1 .. 30 variables), option ladder (every keyword at default and extreme values, seedless runs),
numerics (2^-40 gaps, ties, kinks, one-sided subgradients, forward differences), planted best (a dry run finds the j-th
point the solver evaluates; the judged objective makes exactly that point the best candidate), and history mode:
      reproducible:history-vs-fresh-objects   a call on re-used argument objects edited in place == the call on fresh objects
      reproducible:same-call-repeated         identical consecutive calls of a history agree
      reproducible:history-vs-fresh-process   ... and agree with a new interpreter
Round-3 family, presentation diversity (generator checks/search_round2.present_of, judge judge_present below): the small-scope random
and the mid-size cases of every solver once more with the same problem presented in another legal way - callback results that are
persistent caller-owned objects (neighbourhood table `lambda s: table[s]` as list / tuple, generator / iter / map / zip objects and a
dict items view over it, cached solution and partial-solution objects), argument containers list / tuple (operators, weights,
population, bounds, x0, initial population / swarm rows), gradient results list / tuple / the callback's own buffer, unusual solution
and move-label values (None, "", frozenset(), 0.0, False, strings, frozensets, nested pairs, True == 1 == 1.0).  One set of objects
per case, the same call twice; per call the clauses above, plus
      frame:caller-data-unchanged             typed deep snapshot of the argument objects and of the data behind the callbacks is the
                                              same before and after the call
      reproducible:same-call-same-objects     the identical second call (same objects, same seed) gives the identical Result
"""
from __future__ import annotations

import itertools
import os
import random
import signal

from oracles.search_books import (Recorder, Ring, gen_points, judge_books, judge_bounds, judge_point, make_gradient,
                                  make_objective, nontrivial, same, snap)
from checks import search_round2 as R2
from vf.core import Ctx, canon, digest, use_repo
from vf.pool import pmap

LEVEL = "exploration"
# None as a solution value (Ring rep "none0") is outside the domain (None is the library's no-solution marker, see ctx.assumptions);
# off unless VERIF_C19_NONE_STATES=1 (documentation run for triage/C19_round3.md)
NONE_STATES = os.environ.get("VERIF_C19_NONE_STATES") == "1"
PRESENT_DESC = dict(
    transformers="solutions: persistent objects owned by the callbacks / fresh lists / \"\" frozenset() 0.0 False as state 0 / strings / "
                 "frozensets / a pair whose first entry is a state / True == 1; tabu_search neighbourhoods: persistent table list / tuple "
                 "(`lambda s: table[s]`), generator / iter / map / zip objects over it, items view of a persistent dict, fresh list; move "
                 "labels None / \"\" / str / frozenset / False == 0, True == 1, 2.0 == 2 / nested pairs; lns / alns: persistent partial "
                 "solutions, operator and weight containers list / tuple; evolve: population list / tuple; continuous: bounds list / tuple of "
                 "tuples / lists, x0 and initial rows list / tuple, initial population / swarm list / tuple, gradient list / tuple / the "
                 "callback's own buffer",
    judged="one set of objects per case, the same call twice: books of each call; typed deep snapshot of the argument objects and of the "
           "data behind the callbacks equal before / after each call; second Result == first",
    left_out="one-shot iterators for arguments typed Sequence (population, bounds, x0, initial_population / initial_positions, operator "
             "lists); equality of the Result across presentations (the statement promises reproducibility on the same input only)")
FIRST = ("anneal", "tabu_search", "lns", "alns", "evolve", "differential_evolution", "particle_swarm",
         "nelder_mead", "bayesian_opt")
SECOND = ("powell", "bfgs", "lbfgs")
BOUNDED = ("differential_evolution", "particle_swarm", "bayesian_opt")


# =============================================================================== building one run
def _stop(stop):
    if not stop:
        return None, 0
    at, by = stop["at"], stop.get("by", "iter")

    def cb(p):
        v = p.iteration if by == "iter" else p.evaluations
        if v >= at:
            return True
        return None if p.iteration % 2 else False

    return cb, stop.get("interval", 1)


def _user_accept(name, thr=1):
    if name == "reject_all":
        return lambda cur, new, it, rng: False
    if name == "alternate":
        return lambda cur, new, it, rng: it % 2 == 0
    if name == "worse_only":
        return lambda cur, new, it, rng: new > cur
    if name == "threshold":
        return lambda cur, new, it, rng: new < cur + thr
    if name == "not_worse":
        return lambda cur, new, it, rng: new <= cur
    if name == "coin":
        return lambda cur, new, it, rng: rng.random() < 0.5
    if name == "late":  # rejects during the first iterations, then accepts everything
        return lambda cur, new, it, rng: it > thr
    raise ValueError(name)


def _accept(a):
    return _user_accept(a["user"], a.get("thr", 1)) if isinstance(a, dict) else a


def _scripted(script):
    t = [0]

    def nxt():
        v = script[t[0] % len(script)]
        t[0] += 1
        return v

    return nxt


# ---- history mode: argument objects that persist from one call to the next and are edited IN PLACE between calls
def _env(shared):
    """Per-history store of callbacks / rings / lists (a fresh dict per call outside history mode)."""
    return {} if shared is None else shared.setdefault("env", {})


def _keep_list(shared, slot, values):
    """The same list object in every step of a history, its content replaced in place by this step's values."""
    if shared is None:
        return values
    obj = shared.get(slot)
    if obj is None:
        shared[slot] = obj = values
    elif not shared.get("frozen"):  # presentation mode: the caller's object is handed over again exactly as the last call left it
        obj[:] = values
    return obj


def _keep_rows(shared, slot, rows):
    """List of points: outer list and (for list rows) the inner lists keep their identity."""
    if shared is None or rows is None:
        return rows
    if shared.get("frozen") and slot in shared:
        return shared[slot]
    obj = shared.setdefault(slot, [])
    for i, r in enumerate(rows):
        if i < len(obj) and isinstance(obj[i], list) and isinstance(r, list):
            obj[i][:] = r
        elif i < len(obj):
            obj[i] = r
        else:
            obj.append(r)
    del obj[len(rows):]
    return obj


def _ring(env, K, rep):
    ring = env.get("ring")
    if ring is None or ring.rep != rep:
        ring = env["ring"] = Ring(K, rep)
    ring.K = K
    for i in range(K):
        ring.cache.setdefault(i, [i])
    return ring


def _start(env, shared, ring, i):
    if shared is not None and ring.rep == "list":  # the caller's own list object, edited in place between calls
        if shared.get("frozen") and "start" in env:
            return env["start"]
        obj = env.setdefault("start", [0])
        obj[:] = [i % ring.K]
        return obj
    return ring.mk(i)


# ---- presentation mode (round 3): containers / persistence of callback results and of argument lists
def _box(kind, seq):
    return tuple(seq) if kind == "tuple" else list(seq)


def _label(kind, mv):
    """Unusual but legal VALUES for the hashable move labels of tabu_search."""
    if kind in (None, "asis"):
        return mv
    if kind == "none":  # the label of the null step / of target 0 is None
        return None if mv in (0, (0, 0)) else mv
    if kind == "str":
        return "" if mv == 0 else repr(mv)
    if kind == "fset":
        return frozenset(mv) if isinstance(mv, tuple) else (frozenset() if mv == 0 else frozenset({mv}))
    if kind == "typed":  # equal-but-differently-typed labels: False == 0, True == 1 == 1.0, 2.0 == 2
        if isinstance(mv, int):
            return (False, True, 2.0)[mv] if 0 <= mv <= 2 else (float(mv) if mv % 2 else mv)
        return mv
    if kind == "nested":  # a pair whose first entry is itself a state
        return (mv, ("move", mv))
    raise ValueError(kind)


def _freeze(x, depth=0):
    """Typed deep snapshot of the caller-owned data (argument objects, what lives behind the callbacks)."""
    if isinstance(x, Ring):
        return ("Ring", x.K, x.rep, _freeze(x.cache, depth + 1))
    if isinstance(x, (list, tuple)):
        return (type(x).__name__, tuple(_freeze(v, depth + 1) for v in x))
    if isinstance(x, dict):
        return ("dict", tuple((repr(k), _freeze(v, depth + 1)) for k, v in x.items()))
    if isinstance(x, (set, frozenset)):
        return (type(x).__name__, tuple(sorted(map(repr, x))))
    if x is None or isinstance(x, (bool, int, float, str)):
        return (type(x).__name__, repr(x))
    return ("object", type(x).__name__)  # functions, recorder, iterators: identity is all the caller owns


def _freeze_diff(a, b, path="data"):
    """First place where two snapshots differ."""
    if a == b:
        return None
    if a[0] != b[0] or a[0] in ("set", "frozenset", "object", "NoneType", "bool", "int", "float", "str"):
        return f"{path}: {_thaw(a)} -> {_thaw(b)}"
    if a[0] == "Ring":
        return _freeze_diff(a[3], b[3], path + ".cache") or f"{path}: {a[:3]} -> {b[:3]}"
    if a[0] == "dict":
        ka, kb = [k for k, _ in a[1]], [k for k, _ in b[1]]
        if ka != kb:
            return f"{path}: keys {ka} -> {kb}"
        for (k, va), (_, vb) in zip(a[1], b[1]):
            d = _freeze_diff(va, vb, f"{path}[{k}]")
            if d:
                return d
    if len(a[1]) != len(b[1]):
        return f"{path}: {_thaw(a)} -> {_thaw(b)}"
    if sorted(map(repr, a[1])) == sorted(map(repr, b[1])):
        return f"{path}: same entries in a new order: {_thaw(a)} -> {_thaw(b)}"
    if all(_freeze_diff(va, vb) is None or va[0] not in ("list", "tuple", "dict", "Ring") for va, vb in zip(a[1], b[1])):
        return f"{path}: {_thaw(a)} -> {_thaw(b)}"  # a flat container whose entries changed: show it whole
    for i, (va, vb) in enumerate(zip(a[1], b[1])):
        d = _freeze_diff(va, vb, f"{path}[{i}]")
        if d:
            return d
    return f"{path}: changed"


def _thaw(f):
    if f[0] in ("list", "tuple"):
        inner = ", ".join(_thaw(v) for v in f[1])
        return f"[{inner}]" if f[0] == "list" else f"({inner})"
    if f[0] == "dict":
        return "{" + ", ".join(f"{k}: {_thaw(v)}" for k, v in f[1]) + "}"
    if f[0] in ("set", "frozenset"):
        return f[0] + "(" + ", ".join(f[1]) + ")"
    if f[0] == "Ring":
        return f"Ring{f[1:3]}"
    return f[1]


def _points(spec, bounds):
    return gen_points(spec, bounds) if isinstance(spec, dict) else spec


def _call(case, rec, minimize, shared=None):
    """Build the callbacks from the JSON case and call the real solver.  Returns (Result, [start objects], bounds).
    shared: None = everything fresh; a dict = history mode (objects and callbacks live in it across calls)."""
    s = case["solver"]
    cfg = dict(case.get("cfg") or {})
    for k, v in list(cfg.items()):
        if isinstance(v, list):
            cfg[k] = _keep_list(shared, "cfg:" + k, list(v))
    cb, interval = _stop(case.get("stop"))
    kw = dict(minimize=minimize, on_progress=cb, progress_interval=interval)
    if case.get("bare"):  # option ladder: leave on_progress / progress_interval at their defaults
        kw = dict(minimize=minimize)
    if case.get("bare") == "all" and minimize:  # ... and minimize too
        kw = {}
    env = _env(shared)
    pres = case.get("present") or {}
    frozen = bool(shared is not None and shared.get("frozen"))

    def go(fn, *a, **k):
        """The solver call itself; in presentation mode bracketed by typed deep snapshots of everything the caller owns
        (argument objects incl. operator / weight / bounds / population lists, and the data behind the callbacks)."""
        if not frozen:
            return fn(*a, **k)
        owned = {"arguments": a, "keywords": k, "behind_callbacks": env}
        shared["_before"] = _freeze(owned)
        try:
            return fn(*a, **k)
        finally:
            shared["_after"] = _freeze(owned)

    if s in ("anneal", "tabu_search", "lns", "alns", "evolve"):
        ring = _ring(env, case["obj"]["K"], case.get("rep", "int"))

    if s == "anneal":
        from solvor.anneal import anneal, linear_cooling, logarithmic_cooling
        env["nxt"] = _scripted(case["script"])
        if "neighbors" not in env:
            def neighbors(sol):
                step = env["nxt"]()
                return sol if step == 0 else env["ring"].mk(Ring.idx(sol) + step)  # step 0: the very same object back

            env["neighbors"] = neighbors
        if "cooling" in cfg:
            c = cfg.pop("cooling")
            if c == "linear":
                c = linear_cooling()
            elif c == "log":
                c = logarithmic_cooling(1.0)
            elif c == "const":
                c = env.setdefault("const", lambda t0, it, mx: t0)  # user schedule
            cfg["cooling"] = c
        start = _start(env, shared, ring, case["start"])
        return go(anneal, start, rec, env["neighbors"], **cfg, **kw), [start], None

    if s == "tabu_search":
        from solvor.tabu import tabu_search
        env["mbs"], env["label"] = case["moves"], case.get("label", "step")
        env["lab"], env["nbr"] = pres.get("label"), pres.get("nbr", "list")
        if "neighbors" not in env:
            def pairs(i, sol):
                ring, mbs, label = env["ring"], env["mbs"], env["label"]
                out = []
                for step in mbs[i % len(mbs)]:
                    mv = step if label == "step" else ((i + step) % ring.K if label == "target" else (i, step))
                    out.append((_label(env["lab"], mv), sol if step == 0 else ring.mk(i + step)))
                return out

            def neighbors(sol):
                i = Ring.idx(sol)
                kind = env["nbr"]
                if kind == "list":  # a freshly built list on every call
                    return pairs(i, sol)
                t = env["table"][i]  # the caller's precomputed neighbourhood table: neighbors = lambda s: table[s]
                if kind in ("plist", "ptuple"):
                    return t  # the persistent object itself
                if kind == "items":
                    return t.items()  # view of a persistent {move: solution} dict
                if kind == "gen":
                    return (pr for pr in t)
                if kind == "iter":
                    return iter(t)
                if kind == "map":
                    return map(tuple, t)
                if kind == "zip":
                    return zip([pr[0] for pr in t], [pr[1] for pr in t])
                raise ValueError(kind)

            env["neighbors"] = neighbors
        if env["nbr"] != "list" and "table" not in env:  # built once, before the first call; lives as long as the callback
            tab = {}
            for i in range(ring.K):
                pr = pairs(i, ring.mk(i))
                if env["nbr"] == "items":
                    d = {}
                    for mv, nb in pr:
                        d.setdefault(mv, nb)
                    tab[i] = d
                else:
                    tab[i] = tuple(pr) if env["nbr"] == "ptuple" else pr
            env["table"] = tab
        start = _start(env, shared, ring, case["start"])
        return go(tabu_search, start, rec, env["neighbors"], **cfg, **kw), [start], None

    if s == "lns":
        from solvor.lns import lns
        env["nxt"] = _scripted(case["script"])
        env["dk"], env["rk"], env["script"] = case.get("destroy", "copy"), case.get("repair", "script"), case["script"]
        if "destroy" not in env:
            def destroy(sol, rng):
                if env["dk"] == "cached":  # one persistent partial-solution object per state, owned by the callback
                    return env["partials"][Ring.idx(sol) % env["ring"].K]
                return sol if env["dk"] == "same" else [Ring.idx(sol)]  # "copy": a fresh partial solution

            def repair(partial, rng):
                ring, rk = env["ring"], env["rk"]
                step = env["nxt"]() if rk != "rng" else rng.choice(env["script"])
                j = Ring.idx(partial) + step
                if rk == "inplace" and env["dk"] == "copy" and ring.rep == "list":
                    partial[0] = j % ring.K  # completes the fresh partial in place
                    return partial
                return ring.mk(j)

            env["destroy"], env["repair"] = destroy, repair
        if env["dk"] == "cached":
            env.setdefault("partials", [[i] for i in range(ring.K)])
        start = _start(env, shared, ring, case["start"])
        acc = case["accept"]
        acc = env.setdefault("acc:" + canon(acc), _accept(acc)) if isinstance(acc, dict) else acc
        return go(lns, start, rec, env["destroy"], env["repair"], accept=acc, **cfg, **kw), [start], None

    if s == "alns":
        from solvor.lns import alns

        def mk_d(a):
            if pres.get("partial") == "cached":  # persistent partial-solution objects owned by the operator
                cache = env.setdefault(("partials", a), {})
                return lambda sol, rng: cache.setdefault(Ring.idx(sol) + a, [Ring.idx(sol) + a])
            return lambda sol, rng: [Ring.idx(sol) + a]

        def mk_r(b):
            if b == "rng":
                return lambda partial, rng: env["ring"].mk(rng.randrange(env["ring"].K))
            return lambda partial, rng: env["ring"].mk(partial[0] + b)

        dops = _keep_list(shared, "dops", [env.setdefault(("d", a), mk_d(a)) for a in case["destroy_ops"]])
        rops = _keep_list(shared, "rops", [env.setdefault(("r", b), mk_r(b)) for b in case["repair_ops"]])
        if pres.get("ops") == "tuple":
            dops, rops = env.setdefault("dops_t", tuple(dops)), env.setdefault("rops_t", tuple(rops))
        if pres.get("weights") == "tuple":
            for wk in ("destroy_weights", "repair_weights"):
                if wk in cfg:
                    cfg[wk] = env.setdefault(wk, tuple(cfg[wk]))
        if pres.get("partial") == "cached":
            for a in case["destroy_ops"]:
                for i in range(ring.K):
                    env[("partials", a)].setdefault(i + a, [i + a])  # complete before the first call
        start = _start(env, shared, ring, case["start"])
        acc = case["accept"]
        acc = env.setdefault("acc:" + canon(acc), _accept(acc)) if isinstance(acc, dict) else acc
        extra = {} if acc is None else {"accept": acc}  # None: the library default
        return go(alns, start, rec, dops, rops, **extra, **cfg, **kw), [start], None

    if s == "evolve":
        from solvor.genetic import evolve
        env["nxt"] = _scripted(case.get("script") or [1])
        env["ck"], env["mk"] = case["crossover"], case["mutate"]
        if "crossover" not in env:
            def crossover(a, b):
                ck, ring = env["ck"], env["ring"]
                if ck == "first":
                    return a  # shared with the population
                if ck == "second":
                    return b
                ia, ib = Ring.idx(a), Ring.idx(b)
                return ring.mk((ia + ib) // 2 if ck == "avg" else ia + ib)

            def mutate(c):
                mk_, ring = env["mk"], env["ring"]
                if mk_ == "same":
                    return c
                if mk_ == "inplace" and ring.rep == "list" and env["ck"] in ("avg", "sum"):
                    c[0] = (c[0] + env["nxt"]()) % ring.K  # child is a fresh list here
                    return c
                return ring.mk(Ring.idx(c) + (1 if mk_ == "inc" else env["nxt"]()))

            env["crossover"], env["mutate"] = crossover, mutate
        pop = _keep_list(shared, "population", [ring.mk(i) for i in case["population"]])
        if pres.get("pop") == "tuple":
            pop = env.setdefault("pop_t", tuple(pop))
        return go(evolve, rec, pop, env["crossover"], env["mutate"], **cfg, **kw), list(pop), None

    # ---- continuous
    def inside(p, bounds):
        return all(lo <= p[i] <= hi for i, (lo, hi) in enumerate(bounds))

    def rows(init):
        return None if init is None else [tuple(p) if case.get("tuples") else list(p) for p in init]

    def pbounds(b):
        """bounds as the caller's persistent list / tuple of (lo, hi) tuples / [lo, hi] lists"""
        if b is None:
            return None
        if not pres:
            return _keep_list(shared, "bounds", [tuple(x) for x in b])
        mk = list if pres.get("pair") == "list" else tuple
        return env.setdefault("bounds_p", _box(pres.get("bounds"), [mk(x) for x in b]))

    def prows(init_arg):
        if init_arg is None or pres.get("rows") != "tuple":
            return init_arg
        return env.setdefault("rows_t", tuple(init_arg))

    if s == "differential_evolution":
        from solvor.differential_evolution import differential_evolution
        bounds = pbounds(case["bounds"])
        init = _points(case.get("initial"), bounds)
        starts = [p for p in (init or [])[: max(cfg.get("population_size", 15), 4)] if inside(p, bounds)]
        init_arg = prows(_keep_rows(shared, "initial", rows(init)))
        return go(differential_evolution, rec, bounds, initial_population=init_arg, **cfg, **kw), starts, list(bounds)

    if s == "particle_swarm":
        from solvor.particle_swarm import particle_swarm
        bounds = pbounds(case["bounds"])
        init = _points(case.get("initial"), bounds)
        starts = [p for p in (init or [])[: cfg.get("n_particles", 30)] if inside(p, bounds)]
        init_arg = prows(_keep_rows(shared, "initial", rows(init)))
        return go(particle_swarm, rec, bounds, initial_positions=init_arg, **cfg, **kw), starts, list(bounds)

    if s == "nelder_mead":
        from solvor.nelder_mead import nelder_mead
        x0 = (env.setdefault("x0_t", tuple(case["x0"])) if frozen else tuple(case["x0"])) if case.get("tuples") else \
            _keep_list(shared, "x0", list(case["x0"]))
        return go(nelder_mead, rec, x0, **cfg, **kw), [list(case["x0"])], None

    if s == "bayesian_opt":
        from solvor.bayesian import bayesian_opt
        bounds = pbounds(case["bounds"])
        return go(bayesian_opt, rec, bounds, **cfg, **kw), [], list(bounds)

    if s == "powell":
        from solvor.powell import powell
        b = pbounds(case.get("bounds"))
        x0 = env.setdefault("x0_t", tuple(case["x0"])) if pres.get("x0") == "tuple" else _keep_list(shared, "x0", list(case["x0"]))
        return go(powell, rec, x0, bounds=b, **cfg, **kw), [], None

    if s in ("bfgs", "lbfgs"):
        import importlib
        mod = importlib.import_module("solvor.bfgs")
        env["g"] = make_gradient(case["obj"], case.get("grad", "analytic"))  # gradient of the user's f, user's sign
        if "grad" not in env:
            gk = pres.get("grad", "list")
            buf: list = []

            def grad(x):
                g = env["g"](x)
                if gk == "tuple":
                    return tuple(g)
                if gk == "buffer":  # the callback's own persistent list, overwritten and handed out on every call
                    buf[:] = g
                    return buf
                return g

            env["grad"] = grad
        x0 = env.setdefault("x0_t", tuple(case["x0"])) if pres.get("x0") == "tuple" else _keep_list(shared, "x0", list(case["x0"]))
        return go(getattr(mod, s), env["grad"], x0, objective_fn=rec, **cfg, **kw), [], None

    raise ValueError(s)


class _Timeout(Exception):
    pass


def _alarm(*_):
    raise _Timeout()


def execute(case, mirror=False, shared=None):
    """One run.  mirror=True: objective negated and the sense flipped.  shared: history store (see _call)."""
    minimize = case["minimize"] != mirror
    pure = make_objective(case["obj"], negate=mirror)
    if shared is None:
        rec = Recorder(pure)
    else:  # the same callable object in every call of the history; what it computes is edited in place
        rec = shared.setdefault("rec", Recorder(pure))
        rec.f, rec.calls = pure, []
    cpu = case.get("cpu", 90)  # CPU seconds; >= 20x what the unchanged tree needs for this kind of case
    old = signal.signal(signal.SIGVTALRM, _alarm)
    signal.setitimer(signal.ITIMER_VIRTUAL, cpu)
    try:
        try:
            res, starts, bounds = _call(case, rec, minimize, shared)
        finally:
            signal.setitimer(signal.ITIMER_VIRTUAL, 0)
    except _Timeout:
        return {"error": f"no result within {cpu} s of CPU time"}
    except Exception as e:  # noqa: BLE001
        return {"error": f"{type(e).__name__}: {e}"}
    finally:
        signal.setitimer(signal.ITIMER_VIRTUAL, 0)
        signal.signal(signal.SIGVTALRM, old)
    return {
        "solution": snap(res.solution), "objective": res.objective, "iterations": res.iterations,
        "evaluations": res.evaluations, "status": int(res.status), "pure": pure(res.solution),
        "trace": rec.calls, "starts": [(snap(p), pure(p)) for p in starts], "bounds": bounds,
        "minimize": minimize,
    }


def _summary(r):
    return canon([r["solution"], r["objective"], r["iterations"], r["evaluations"], r["status"]])


def _books(case, r):
    """The per-run clauses of the statement for one finished run."""
    s = case["solver"]
    sign = 1 if r["minimize"] else -1
    if s in FIRST:
        bad = judge_books(sign, r["objective"], r["pure"], r["trace"], r["starts"], r["evaluations"])
        if s in BOUNDED:
            bad += judge_bounds(r["solution"], r["bounds"])
        return bad
    return judge_point(r["objective"], r["pure"])


def resolve_plant(case):
    """case["plant"] = {"at": j, "depth": D}: a dry run on the objective as given finds the j-th point the solver evaluates;
    the case that is judged has the objective shifted by D (towards 'better' in the case's sense) at exactly that point.
    Up to call j both runs see the same values, so the solver evaluates that point again - now the best candidate by
    D - and then has the rest of its budget to forget it."""
    plant = case.get("plant")
    if not plant:
        return case
    bare = {k: v for k, v in case.items() if k != "plant"}
    dry = execute(bare)
    if "error" in dry or not dry["trace"]:
        return bare
    x = dry["trace"][plant["at"] % len(dry["trace"])][0]
    d = -plant["depth"] if case["minimize"] else plant["depth"]
    return dict(bare, obj=dict(case["obj"], pit={"x": x, "d": d}))


def judge_case(case):
    """-> (list of (clause, detail), non-trivial?)"""
    if "history" in case:
        return judge_history(case)
    if "present" in case:
        return judge_present(case)
    case = resolve_plant(case)
    s = case["solver"]
    r = execute(case)
    if "error" in r:
        return [("returns-a-result", r["error"])], False
    sign = 1 if r["minimize"] else -1
    bad = _books(case, r)
    if case.get("seedless") or case.get("runs") == 1:
        # no seed given: nothing is promised about a second run; runs == 1: a very long run (bayesian_opt beyond 130
        # evaluations) whose repetition and mirror image are left to the shorter cases of the same ladder
        return bad, nontrivial(sign, r["trace"])
    r2 = execute(case)
    if "error" in r2 or _summary(r2) != _summary(r):
        bad.append(("reproducible:run-twice", f"first run {_summary(r)}, second run {r2.get('error') or _summary(r2)}"))
    if s in FIRST:
        m = execute(case, mirror=True)
        if "error" in m:
            bad.append(("mirror:max(f)==min(-f)", f"mirrored run: {m['error']}"))
        elif not (canon(m["solution"]) == canon(r["solution"]) and same(m["objective"], -r["objective"])
                  and (m["iterations"], m["evaluations"], m["status"]) == (r["iterations"], r["evaluations"], r["status"])):
            bad.append(("mirror:max(f)==min(-f)",
                        f"minimize={r['minimize']} on f: {_summary(r)}; minimize={m['minimize']} on -f: {_summary(m)}"))
    return bad, nontrivial(sign, r["trace"])


def judge_present(case):
    """Presentation mode (round 3): ONE set of argument objects and callbacks (with the data behind them: neighbourhood
    tables, cached solution / partial-solution objects, operator / weight / bounds / population / start-point containers),
    the same call issued twice.  Each call is judged by its own books; the caller-owned data must be the same before and
    after each call (typed deep snapshot); the second Result must equal the first."""
    shared: dict = {"frozen": True}
    bad, nt, first = [], False, None
    for k in (0, 1):
        r = execute(case, shared=shared)
        which = "first call" if k == 0 else "the same call repeated on the same objects"
        if "error" in r:
            bad.append(("returns-a-result", f"{which}: {r['error']}"))
            break
        bad += [(cl, f"{which}: {d}") for cl, d in _books(case, r)]
        nt = nt or nontrivial(1 if r["minimize"] else -1, r["trace"])
        d = _freeze_diff(shared.get("_before"), shared.get("_after"))
        if d:
            bad.append(("frame:caller-data-unchanged", f"{which} changed data owned by the caller / the callbacks: {d}"))
        if k == 0:
            first = _summary(r)
            if case.get("seedless"):
                break
        elif _summary(r) != first:
            bad.append(("reproducible:same-call-same-objects",
                        f"first call {first}; the identical call (same objects, same seed) again: {_summary(r)}"))
    return bad, nt


def judge_history(h, fresh_process=None):
    """Calls in one process on the same argument objects, edited in place between the calls.  Every call is judged by
    its own books; it must give what the same call gives on fresh objects (the solvers are functions of their
    arguments), what the identical previous call gave, and (fresh_process: step -> summary) what a new process gives."""
    shared: dict = {}
    bad, nt, prev = [], False, None
    for k, step in enumerate(h["history"]):
        r = execute(step, shared=shared)
        if "error" in r:
            bad.append(("returns-a-result", f"call #{k} of the history: {r['error']}"))
            prev = None
            continue
        bad += [(cl, f"call #{k} of the history: {d}") for cl, d in _books(step, r)]
        nt = nt or nontrivial(1 if r["minimize"] else -1, r["trace"])
        f = execute(step)
        if "error" in f or _summary(f) != _summary(r):
            bad.append(("reproducible:history-vs-fresh-objects",
                        f"call #{k} on the re-used (edited in place) argument objects gave {_summary(r)}, the same call on "
                        f"fresh objects {f.get('error') or _summary(f)}"))
        if prev is not None and canon(prev[0]) == canon(step) and prev[1] != _summary(r):
            bad.append(("reproducible:same-call-repeated", f"call #{k - 1} gave {prev[1]}, the identical call #{k} {_summary(r)}"))
        if fresh_process is not None and fresh_process.get(canon(step), _summary(r)) != _summary(r):
            bad.append(("reproducible:history-vs-fresh-process",
                        f"call #{k} gave {_summary(r)} inside the history, {fresh_process[canon(step)]} in a fresh process"))
        prev = (step, _summary(r))
    return bad, nt


def fresh_process_summaries(cases):
    """Run every case once in ONE new interpreter (python -m checks.C19 reads the cases from stdin)."""
    import json
    import os
    import subprocess
    import sys
    here = os.path.dirname(os.path.dirname(os.path.abspath(__file__)))
    uniq = {canon(c): c for c in cases}
    p = subprocess.run([sys.executable, "-m", "checks.C19"], input=json.dumps(list(uniq.values())), capture_output=True,
                       text=True, cwd=here)
    if p.returncode != 0:
        raise RuntimeError(f"fresh-process runner failed: {p.stderr[-400:]}")
    return dict(zip(uniq.keys(), json.loads(p.stdout)))


def _fresh_main():
    import json
    import sys
    use_repo()
    out = []
    for case in json.load(sys.stdin):
        r = execute(case)
        out.append(r["error"] if "error" in r else _summary(r))
    json.dump(out, sys.stdout)


def _count_families(cases):
    out: dict[str, int] = {}
    for c in cases:
        fam = c.get("family", "small-scope").split(":")[0] + ("+planted-best" if "plant" in c else "")
        out[fam] = out.get(fam, 0) + 1
    return out


def _heavy(case):
    c = case.get("cfg") or {}
    if case["solver"] == "bayesian_opt":
        return c.get("max_iter", 50) >= 40
    return c.get("max_iter", 0) >= 1000 or max(c.get("population_size", 0), c.get("n_particles", 0)) >= 500


def work(chunk):
    import time
    n, keys, viol, cpu = 0, [], [], {}
    hist = [c for c in chunk if "history" in c]
    fresh = fresh_process_summaries([st for h in hist for st in h["history"]]) if hist else None
    for case in chunk:
        t0 = time.process_time()
        bad, nt = judge_history(case, fresh) if "history" in case else judge_case(case)
        fam = case.get("family", "small-scope").split(":")[0].split("+")[0]
        cpu[fam] = cpu.get(fam, 0.0) + time.process_time() - t0
        n += 1
        if nt:
            keys.append(digest(case))
        for clause, detail in bad:
            viol.append((f"C19/{case['solver']}/{clause}", case, detail))
    return n, keys, viol, cpu


# =============================================================================== input spaces
TABLES3 = [list(t) for t in itertools.product((0, 1, 2), repeat=3)]
STOPS3 = [None, {"at": 1, "interval": 1}, {"at": 2, "interval": 1}]


def _tab(K, table):
    return {"kind": "table", "K": K, "table": table}


def exh_discrete(quick):
    """Finite products, enumerated completely (K = 3 states, values 0..2 => all 27 tables incl. constants/ties)."""
    out = {k: [] for k in ("anneal", "tabu_search", "lns", "alns", "evolve")}
    scripts2 = [list(p) for p in itertools.product((-1, 0, 1), repeat=2)]
    for T in TABLES3:
        obj = _tab(3, T)
        # quick tier: only anneal (whose acceptance probability depends on the size of the gaps) sees all 27 tables, the
        # others one table per weak ordering of the three states (13 rank patterns)
        canonical = sorted(set(T)) == list(range(len(set(T))))
        for start, mn in itertools.product(range(3), (True, False)):
            base = {"obj": obj, "start": start, "minimize": mn, "rep": "int"}
            # anneal: temperature 1 => a move that is worse by 1 / 2 is accepted with p = .37 / .14
            for sc, mi, seed, st in itertools.product(scripts2, (1, 2, 3), (0, 1) if quick else (0, 1, 2, 3),
                                                   STOPS3[:2] if quick else STOPS3):
                out["anneal"].append(dict(base, solver="anneal", script=sc, stop=st,
                                          cfg={"temperature": 1.0, "max_iter": mi, "seed": seed}))
            if quick and not canonical:
                continue
            for mv, cd, mi, mni, st in itertools.product(([1], [-1, 1], [1, 2, 0]), (1, 2), (1, 2, 4), (1, 100), STOPS3):
                out["tabu_search"].append(dict(base, solver="tabu_search", moves=[mv], stop=st,
                                               cfg={"cooldown": cd, "max_iter": mi, "max_no_improve": mni, "seed": 0}))
            accs = ["improving", "accept_all", "simulated_annealing", {"user": "reject_all"}, {"user": "alternate"},
                    {"user": "worse_only"}]
            for sc, ac, mi, st in itertools.product(scripts2, accs, (1, 2, 3), STOPS3[:2]):
                out["lns"].append(dict(base, solver="lns", script=sc, accept=ac, stop=st,
                                       cfg={"max_iter": mi, "seed": 0, "start_temp": 1.0}))
            for dops, rops, ac, mi, st in itertools.product(([0], [0, 1]), ([1], [1, -1], ["rng"]),
                                                            ("improving", "simulated_annealing", {"user": "reject_all"},
                                                             {"user": "worse_only"}), (1, 2, 3), STOPS3[:2]):
                out["alns"].append(dict(base, solver="alns", destroy_ops=dops, repair_ops=rops, accept=ac, stop=st,
                                        cfg={"max_iter": mi, "seed": 0, "start_temp": 1.0, "segment_size": 2}))
        if quick and not canonical:
            continue
        for pop, ck, mk_, el, mi, mn in itertools.product(([0, 1], [2, 2], [0, 1, 2], [1, 0, 1]), ("avg", "first", "sum"),
                                                          ("inc", "same"), (0, 1), (0, 1, 2, 3), (True, False)):
            for st in STOPS3[:2]:
                out["evolve"].append({"solver": "evolve", "obj": obj, "population": pop, "crossover": ck, "mutate": mk_,
                                      "minimize": mn, "rep": "int", "stop": st,
                                      "cfg": {"elite_size": el, "mutation_rate": 0.5, "max_iter": mi, "seed": 0,
                                              "tournament_k": 2}})
    return out


def _rand_table(rng, K):
    mode = rng.randrange(5)
    if mode == 0:
        return [rng.choice((0, 1)) for _ in range(K)]  # almost everything ties
    if mode == 1:
        return [rng.randint(-2, 3) for _ in range(K)]
    if mode == 2:
        return [rng.choice((-1.5, -0.5, 0.0, 0.5, 2.5)) for _ in range(K)]
    if mode == 3:
        t = list(range(K))
        rng.shuffle(t)
        return t  # all distinct: unique best somewhere
    return [rng.choice((0, 0, 0, -1, 7)) for _ in range(K)]  # plateau with a pit / a spike


def _rand_stop(rng, hi):
    r = rng.random()
    if r < 0.45:
        return None
    if r < 0.9:
        return {"at": rng.randint(1, hi), "interval": rng.choice((1, 1, 1, 2, 3))}
    return {"at": rng.randint(1, 3 * hi), "by": "evals", "interval": rng.choice((1, 2))}


USER_ACC = ("reject_all", "alternate", "worse_only", "threshold", "not_worse", "coin", "late")


def _rand_accept(rng):
    r = rng.random()
    if r < 0.45:
        return rng.choice(("improving", "accept_all", "simulated_annealing"))
    return {"user": rng.choice(USER_ACC), "thr": rng.choice((1, 2, 3))}


def rnd_discrete(rng, n_each, big=False):
    out = {k: [] for k in ("anneal", "tabu_search", "lns", "alns", "evolve")}
    for _ in range(n_each):
        K = rng.randint(2, 8)
        obj = _tab(K, _rand_table(rng, K))
        rep = rng.choice(("int", "tuple", "list", "cached"))
        base = {"obj": obj, "start": rng.randrange(K), "minimize": rng.random() < 0.5, "rep": rep}
        script = [rng.choice((-2, -1, 0, 1, 1, 2, 3)) for _ in range(rng.randint(1, 9))]
        mi = rng.choice((1, 1, 2, 3, 5, 8, 13, 40) + ((120, 400) if big else ()))
        seed = rng.randint(0, 50)
        out["anneal"].append(dict(base, solver="anneal", script=script, stop=_rand_stop(rng, mi),
                                  cfg={"temperature": rng.choice((1000.0, 5.0, 1.0, 0.3)),
                                       "cooling": rng.choice((0.9995, 0.9, 0.5, "linear", "log", "const")),
                                       "max_iter": mi, "seed": seed}))
        moves = [[rng.choice((-2, -1, 0, 1, 1, 2)) for _ in range(rng.choice((0, 1, 2, 2, 3, 4)))]
                 for _ in range(rng.choice((1, K)))]
        out["tabu_search"].append(dict(base, solver="tabu_search", moves=moves, stop=_rand_stop(rng, mi),
                                       label=rng.choice(("step", "target", "pair")),
                                       cfg={"cooldown": rng.choice((1, 2, 3, 10)), "max_iter": mi,
                                            "max_no_improve": rng.choice((1, 2, 3, 100)), "seed": seed}))
        out["lns"].append(dict(base, solver="lns", script=script, accept=_rand_accept(rng), stop=_rand_stop(rng, mi),
                               destroy=rng.choice(("copy", "same")), repair=rng.choice(("script", "rng", "inplace")),
                               cfg={"max_iter": mi, "max_no_improve": rng.choice((1, 2, 5, 100)), "seed": seed,
                                    "start_temp": rng.choice((100.0, 1.0, 0.2)), "cooling_rate": rng.choice((0.9995, 0.5))}))
        cfg = {"max_iter": mi, "max_no_improve": rng.choice((1, 3, 500)), "seed": seed,
               "start_temp": rng.choice((100.0, 1.0, 0.2)), "cooling_rate": rng.choice((0.9995, 0.5)),
               "segment_size": rng.choice((1, 2, 3, 100)), "reaction_factor": rng.choice((0.1, 0.9))}
        dops = [rng.choice((-1, 0, 1, 2)) for _ in range(rng.randint(1, 3))]
        rops = [rng.choice((-1, 1, 2, "rng")) for _ in range(rng.randint(1, 3))]
        if rng.random() < 0.3:
            cfg["destroy_weights"] = [rng.choice((0.1, 1.0, 5.0)) for _ in dops]
            cfg["repair_weights"] = [rng.choice((0.1, 1.0, 5.0)) for _ in rops]
        out["alns"].append(dict(base, solver="alns", destroy_ops=dops, repair_ops=rops, accept=_rand_accept(rng),
                                stop=_rand_stop(rng, mi), cfg=cfg))
        pop = [rng.randrange(K) for _ in range(rng.randint(1, 6))]
        ck = rng.choice(("avg", "first", "second", "sum"))
        mk_ = rng.choice(("inc", "same", "script", "inplace"))
        gens = rng.choice((0, 1, 1, 2, 3, 5, 8))
        out["evolve"].append({"solver": "evolve", "obj": obj, "population": pop, "crossover": ck, "mutate": mk_,
                              "script": script, "minimize": base["minimize"], "rep": rep, "stop": _rand_stop(rng, max(gens, 1)),
                              "cfg": {"elite_size": rng.choice((0, 0, 1, 2, 7)), "mutation_rate": rng.choice((0.0, 0.1, 0.5, 1.0)),
                                      "adaptive_mutation": rng.random() < 0.3, "max_iter": gens, "seed": seed,
                                      "tournament_k": rng.choice((1, 2, 3))}})
    return out


# ---- continuous objectives
def _rand_grid(rng, n, smooth=None):
    m = rng.choice((2, 3, 4))
    mode = rng.randrange(4)
    if mode == 0:
        vals = (0, 1)
    elif mode == 1:
        vals = (-2, -1, 0, 1, 2, 3)
    elif mode == 2:
        vals = (-1.5, 0.0, 0.5, 0.5, 2.25)
    else:
        vals = (0, 0, 0, 0, -3, 5)
    spec = {"kind": "grid", "n": n, "lo": rng.choice((-2.0, -1.0, 0.0, 0.25)), "w": rng.choice((0.5, 1.0, 2.0, 0.3)), "m": m,
            "table": [rng.choice(vals) for _ in range(m ** n)]}
    if smooth is None:
        smooth = rng.choice(("none", "none", "slope", "quad", "both"))
    if smooth in ("slope", "both"):
        spec["slope"] = [rng.choice((0, 0.5, -1, 0.125)) for _ in range(n)]
    if smooth in ("quad", "both"):
        spec["q"] = rng.choice((1, 0.5, 2))
        spec["c"] = [rng.choice((-1.0, 0.0, 0.3, 1.5, 2.0)) for _ in range(n)]
    return spec


def _quad(n, c, q=1):
    return {"kind": "grid", "n": n, "lo": 0.0, "w": 1.0, "m": 1, "table": [0], "q": q, "c": list(c)}


def _rand_bounds(rng, n, strict=False):
    """strict: lo < hi in every dimension (bayesian_opt divides by (hi - lo) / 2: lo == hi raises ZeroDivisionError)."""
    out = []
    for _ in range(n):
        lo = rng.choice((-2, -1.0, 0, 0.25, -0.1))
        out.append([lo, lo + rng.choice((0.3, 1, 2.5, 4) if strict else (0, 0.3, 1, 2.5, 4))])
    if all(lo == hi for lo, hi in out):
        out[0][1] = out[0][0] + 1
    return out


def _rand_point(rng, bounds, outside=False):
    p = []
    for lo, hi in bounds:
        r = rng.random()
        p.append(lo if r < 0.15 else hi if r < 0.3 else lo + (hi - lo) * rng.choice((0.25, 0.5, 0.7)))
    if outside:
        i = rng.randrange(len(p))
        p[i] = bounds[i][1] + 1.5 if rng.random() < 0.5 else bounds[i][0] - 0.75
    return p


def _rand_x0(rng, n):
    return [rng.choice((0, 0.0, 1, -1.0, 0.5, 2.0, -0.3, 3)) for _ in range(n)]


def exh_continuous(quick):
    """Finite products over hand-picked objectives that are known to be nasty for simplex/population book-keeping."""
    out = {k: [] for k in ("nelder_mead", "differential_evolution", "particle_swarm", "bayesian_opt", "powell", "bfgs", "lbfgs")}
    objs1 = [_quad(1, [3]), {"kind": "grid", "n": 1, "lo": 0.0, "w": 0.5, "m": 4, "table": [2, 0, 1, 0]},
             {"kind": "grid", "n": 1, "lo": -1.0, "w": 1.0, "m": 3, "table": [1, 1, 1]},
             {"kind": "grid", "n": 1, "lo": 0.0, "w": 1.0, "m": 2, "table": [5, -5], "q": 1, "c": [0.0]}]
    objs2 = [_quad(2, [3, -2]), {"kind": "grid", "n": 2, "lo": 0.0, "w": 1.0, "m": 2, "table": [0, 3, 3, -1], "slope": [0.5, 0]},
             {"kind": "grid", "n": 2, "lo": -1.0, "w": 0.5, "m": 3, "table": [0, 1, 0, 1, 2, 1, 0, 1, -1]},
             {"kind": "grid", "n": 2, "lo": 0.0, "w": 1.0, "m": 2, "table": [1, 1, 1, 1]}]
    iters = (1, 2, 3, 4, 6, 9) if quick else tuple(range(1, 16))
    for obj, x0s in ((objs1, ([0], [1.0], [-2.5])), (objs2, ([0, 0], [1.0, 1.0], [-0.5, 2]))):
        for o, x0, mn, ad, mi in itertools.product(obj, x0s, (True, False), (False, True), iters):
            for st in [None] + [{"at": k, "interval": 1} for k in range(1, mi + 1)] + [{"at": 2, "interval": 2}]:
                out["nelder_mead"].append({"solver": "nelder_mead", "obj": o, "x0": x0, "minimize": mn, "stop": st,
                                           "cfg": {"max_iter": mi, "adaptive": ad, "tol": 0.0 if mi % 2 else 1e-6}})
    b1, b2 = [[-1, 2.5]], [[0, 2], [-1.0, 1.0]]
    for o, b in [(x, b1) for x in objs1] + [(x, b2) for x in objs2]:
        for mn, seed, mi, st in itertools.product((True, False), (0, 1, 2) if quick else range(8), (1, 2, 4),
                                                  (None, {"at": 1, "interval": 1}, {"at": 2, "interval": 1})):
            for strat in ("rand/1", "best/1", "best/2"):
                out["differential_evolution"].append({"solver": "differential_evolution", "obj": o, "bounds": b, "minimize": mn,
                                                      "stop": st, "cfg": {"population_size": 5 if strat.endswith("2") else 4, "strategy": strat,
                                                                          "max_iter": mi,
                                                                          "seed": seed, "tol": 0.0}})
            for npart in (1, 3):
                out["particle_swarm"].append({"solver": "particle_swarm", "obj": o, "bounds": b, "minimize": mn, "stop": st,
                                              "cfg": {"n_particles": npart, "max_iter": mi, "seed": seed}})
        for mn, acq, mi in itertools.product((True, False), ("ei", "ucb"), (1, 3, 5)):
            out["bayesian_opt"].append({"solver": "bayesian_opt", "obj": o, "bounds": b, "minimize": mn,
                                        "stop": {"at": 3, "interval": 1} if mi == 5 else None,
                                        "cfg": {"max_iter": mi, "n_initial": 2, "acquisition": acq, "acq_restarts": 1, "seed": 0}})
        x0 = [0.5] * len(b)
        for mn, mi, bb in itertools.product((True, False), (0, 1, 2), (None, b)):
            out["powell"].append({"solver": "powell", "obj": o, "x0": x0, "bounds": bb, "minimize": mn, "stop": None,
                                  "cfg": {"max_iter": mi}})
        for mn, mi, st in itertools.product((True, False), (0, 1, 2, 5), (None, {"at": 1, "interval": 1})):
            out["bfgs"].append({"solver": "bfgs", "obj": o, "x0": x0, "grad": "analytic", "minimize": mn, "stop": st,
                                "cfg": {"max_iter": mi}})
            out["lbfgs"].append({"solver": "lbfgs", "obj": o, "x0": x0, "grad": "analytic", "minimize": mn, "stop": st,
                                 "cfg": {"max_iter": mi, "m": 2}})
    return out


def rnd_continuous(rng, n_each, n_bayes, big=False):
    out = {k: [] for k in ("nelder_mead", "differential_evolution", "particle_swarm", "bayesian_opt", "powell", "bfgs", "lbfgs")}
    for r in range(n_each):
        n = rng.choice((1, 1, 2, 2, 3))
        obj = _rand_grid(rng, n)
        mn = rng.random() < 0.5
        mi = rng.choice((1, 1, 2, 3, 5, 8, 20) + ((60, 150) if big else ()))
        seed = rng.randint(0, 50)
        out["nelder_mead"].append({"solver": "nelder_mead", "obj": _rand_grid(rng, n, rng.choice(("none", "slope", "quad", "quad", "both"))),
                                   "x0": _rand_x0(rng, n), "minimize": mn, "tuples": rng.random() < 0.3,
                                   "stop": _rand_stop(rng, mi),
                                   "cfg": {"max_iter": mi, "adaptive": rng.random() < 0.4, "tol": rng.choice((0.0, 1e-6, 0.5)),
                                           "initial_step": rng.choice((0.05, 0.5, 1.0))}})
        for _ in range(5):  # rugged landscapes: jumps much larger than the smooth part => failed contractions => shrink steps,
            # after which the best vertex is often one that has just been moved
            nn = rng.choice((1, 2, 2, 3))
            m = rng.choice((3, 4, 5))
            rug = {"kind": "grid", "n": nn, "lo": rng.choice((-1.0, -0.4, 0.0)), "w": rng.choice((0.05, 0.1, 0.25, 0.6)), "m": m,
                   "table": [rng.choice((-4, -1, 0, 0, 2, 2.5, 7)) for _ in range(m ** nn)],
                   "q": rng.choice((0, 0.01, 0.3)), "c": [rng.choice((-1.0, 0.2, 1.0)) for _ in range(nn)]}
            it = rng.choice((2, 3, 4, 6, 10, 25))
            out["nelder_mead"].append({"solver": "nelder_mead", "obj": rug, "x0": [rng.choice((0, 0.1, 0.33, -0.2, 1.0)) for _ in range(nn)],
                                       "minimize": rng.random() < 0.5, "stop": _rand_stop(rng, it),
                                       "cfg": {"max_iter": it, "adaptive": rng.random() < 0.3, "tol": 0.0,
                                               "initial_step": rng.choice((0.05, 0.2, 1.0))}})
        bounds = _rand_bounds(rng, n)
        size = rng.choice((1, 2, 4, 5, 7))
        k = rng.choice((0, 0, 1, 2, size))
        init = None if k == 0 else [_rand_point(rng, bounds, outside=rng.random() < 0.25) for _ in range(min(k, max(size, 1)))]
        if init and rng.random() < 0.3:
            init.append(list(init[0]))  # duplicate individual
            init = init[: max(size, 1)]
        strat = rng.choice(("rand/1", "best/1", "rand/2", "best/2"))
        # x/2 needs 4 difference vectors: fewer than 5 (best) / 6 (rand) individuals raise IndexError in the fallback
        de_size = max(size, 6) if strat.endswith("2") else size
        out["differential_evolution"].append({"solver": "differential_evolution", "obj": obj, "bounds": bounds, "minimize": mn,
                                              "initial": init, "tuples": rng.random() < 0.3, "stop": _rand_stop(rng, mi),
                                              "cfg": {"population_size": de_size, "mutation": rng.choice((0.8, 0.5, 1.5)),
                                                      "crossover": rng.choice((0.7, 0.0, 1.0)),
                                                      "strategy": strat,
                                                      "max_iter": mi, "tol": rng.choice((0.0, 1e-8, 0.05)), "seed": seed}})
        cfg = {"n_particles": max(size, 1), "max_iter": mi, "seed": seed, "inertia": rng.choice((0.7, 0.0, 1.2)),
               "cognitive": rng.choice((1.5, 0.0)), "social": rng.choice((1.5, 0.0, 3.0))}
        if rng.random() < 0.3:
            cfg["inertia_decay"] = 0.4
        if rng.random() < 0.3:
            cfg["v_max"] = rng.choice((0.01, 1.0, 10.0))
        out["particle_swarm"].append({"solver": "particle_swarm", "obj": obj, "bounds": bounds, "minimize": mn,
                                      "initial": init, "tuples": rng.random() < 0.3, "stop": _rand_stop(rng, mi), "cfg": cfg})
        pw_b = rng.choice((None, bounds))
        x0 = _rand_x0(rng, n)
        out["powell"].append({"solver": "powell", "obj": obj, "x0": x0 if pw_b is None else _rand_point(rng, bounds, rng.random() < 0.2),
                              "bounds": pw_b, "minimize": mn, "stop": _rand_stop(rng, 3),
                              "cfg": {"max_iter": rng.choice((0, 1, 2, 3)), "tol": rng.choice((1e-6, 0.0, 0.1))}})
        gobj = dict(_rand_grid(rng, n, rng.choice(("quad", "both", "slope", "none"))))
        gobj["gtable"] = [[rng.choice((0, 0, 1, -1, 0.5, -2.0)) for _ in range(n)] for _ in range(rng.randint(1, 5))]
        for s in ("bfgs", "lbfgs"):
            cfg = {"max_iter": rng.choice((0, 1, 2, 3, 6, 12)), "tol": rng.choice((1e-6, 0.0, 0.3))}
            if s == "lbfgs":
                cfg["m"] = rng.choice((1, 2, 10))
            out[s].append({"solver": s, "obj": gobj, "x0": x0, "grad": rng.choice(("analytic", "analytic", "table")),
                           "minimize": mn, "stop": _rand_stop(rng, 4), "cfg": cfg})
        if r < n_bayes:
            nb = rng.choice((1, 2))
            mi_b = rng.choice((1, 2, 4, 6, 9))
            out["bayesian_opt"].append({"solver": "bayesian_opt", "obj": _rand_grid(rng, nb), "bounds": _rand_bounds(rng, nb, strict=True),
                                        "minimize": mn, "stop": _rand_stop(rng, mi_b),
                                        "cfg": {"max_iter": mi_b, "n_initial": rng.choice((1, 2, 3, 5)),
                                                "acquisition": rng.choice(("ei", "ucb")), "kappa": rng.choice((2.0, 0.0)),
                                                "acq_restarts": rng.choice((1, 2)), "seed": seed}})
    return out


# =============================================================================== driver
def run(ctx: Ctx):
    use_repo()
    # deductive part: Evaluator, anneal, tabu_search, lns, alns (+ closures) under contract (specs/search.py)
    from vf.prove import prove
    prove(ctx, ["specs.search"], "C19")
    rng = random.Random(ctx.seed)
    q = ctx.quick
    spaces = []  # (name, description, cases)
    ed = exh_discrete(q)
    ec = exh_continuous(q)
    rd = rnd_discrete(rng, 2500 if q else 60000, big=not q)
    rc = rnd_continuous(rng, 1000 if q else 15000, 100 if q else 2000, big=not q)
    for k, v in ed.items():
        spaces.append((f"{k} exhaustive", dict(exhaustive=True, K=3,
                                               tables="all 27 over {0,1,2}" if (k == "anneal" or not q) else
                                               "the 13 weak orderings of 3 states", starts="all",
                                               senses="both", note="full product of the listed scripts / acceptance rules / "
                                               "limits / stops in exh_discrete"), v))
    for k, v in ec.items():
        spaces.append((f"{k} grid", dict(exhaustive=True, note="full product of hand-picked objectives x configurations in "
                                         "exh_continuous (nelder_mead: every stop iteration 1..max_iter)"), v))
    for k, v in list(rd.items()) + list(rc.items()):
        spaces.append((f"{k} random", dict(exhaustive=False, seed=ctx.seed), v))
    # round-2 families (checks/search_round2.py): sizes / dimensions / options / numerics beyond the small scope, histories
    rng2 = random.Random(ctx.seed + 2)
    fams = (("budget ladder", R2.budget_ladder, dict(
                sizes=list(R2.LADDER_Q if q else R2.LADDER_T), bayesian_opt_sizes=list(R2.BAYES_Q if q else R2.BAYES_T),
                planted_in="max_iter, evaluation budget (stop), K, neighbourhood, cooldown, max_no_improve, segment_size, operators, "
                           "population / elite_size / tournament_k, population_size / n_particles / initial points, lbfgs m, n_initial")),
            ("dimension ladder", R2.dimension_ladder, dict(variables="1,2,3,5,8,13,21,30" if q else "1..30",
                                                           bayesian_opt_variables="<= 8" if q else "1..30")),
            ("option ladder", R2.option_ladder, dict(values={s_: {k_: [repr(x) for x in v_] for k_, v_ in o.items()}
                                                             for s_, o in R2.OPTIONS.items()},
                                                     modes="one keyword at a time; all keywords at library defaults (on_progress / "
                                                           "minimize absent); random combinations; seed absent (books only)")),
            ("numerics", R2.numerics, dict(gaps="2^-40 on top of 1.0 (tables and step functions), bowls quantised to 2^-2..2^-6, "
                                                "kinks a|x-k| hit exactly from grid starts, one-sided subgradients, forward differences "
                                                "h in {1e-2, 2^-8, 1e-3, 1e-6}, tol in {0, 2^-41, 2^-40, 2^-39, 1e-9 -/+ 1e-16}")),
            ("history", R2.histories, dict(calls="A, A, B=edit(A), B, C=edit(B), A, A on the same bounds / x0 / population / start / "
                                                 "operator-list / weight-list objects and the same objective and callback function "
                                                 "objects (bayesian_opt: A, B, A, A); each call judged by its books, against fresh "
                                                 "objects, against the identical previous call, against a fresh process")))
    for fname, gen, desc in fams:
        for k, v in gen(rng2, q).items():
            if v:
                spaces.append((f"{k} {fname}", dict(exhaustive=False, seed=ctx.seed + 2, **(desc if k == "anneal" else {})), v))

    # round-3 family: the small-scope random and the mid-size generators once more, every case in another legal presentation
    # (containers / persistence of callback results and argument lists, unusual solution and label values); own stream
    rng3 = random.Random(ctx.seed + 3)
    n3 = (800, 300, 12, 60) if q else (6000, 2000, 120, 400)  # random discrete / continuous / bayesian_opt, mid-size per solver
    base3 = rnd_discrete(rng3, n3[0])
    base3.update(rnd_continuous(rng3, n3[1], n3[2]))
    for k in FIRST + SECOND:
        v = base3[k][: n3[0] if k in R2.DISCRETE else n3[1]] + R2.mid_size(rng3, k, n3[3] if k != "bayesian_opt" else n3[3] // 4)
        pv = [R2.present_of(rng3, c, NONE_STATES) for c in v]
        spaces.append((f"{k} presentation", dict(exhaustive=False, seed=ctx.seed + 3, **(PRESENT_DESC if k == "anneal" else {})), pv))

    allc = [c for _, _, v in spaces for c in v]
    order = list(range(len(allc)))
    random.Random(ctx.seed + 1).shuffle(order)  # spread slow solvers over the chunks
    csize = 200
    heavy = [i for i in order if _heavy(allc[i])]  # long single runs: one per chunk, started first
    hist = [i for i in order if "history" in allc[i]]  # histories together: one fresh interpreter per chunk
    rest = [i for i in order if not _heavy(allc[i]) and "history" not in allc[i]]
    chunks = ([[allc[i]] for i in heavy] + [[allc[i] for i in hist[j:j + 12]] for j in range(0, len(hist), 12)]
              + [[allc[i] for i in rest[j:j + csize]] for j in range(0, len(rest), csize)])
    results = pmap(work, chunks, chunksize=1)
    nont = set()
    per_solver_v: dict[str, int] = {}
    by_ob: dict[str, list] = {}
    cpu_by_family: dict[str, float] = {}
    for n, keys, viol, cpu in results:
        for k, v in cpu.items():
            cpu_by_family[k] = cpu_by_family.get(k, 0.0) + v
        nont.update(keys)
        for ob, case, detail in viol:
            per_solver_v[ob] = per_solver_v.get(ob, 0) + 1
            by_ob.setdefault(ob, []).append((len(canon(case)), canon(case), case, detail))
    # report the smallest failing inputs of every obligation (the counts of all of them are in the evidence notes)
    ranked = {ob: sorted(v, key=lambda t: t[:2])[:3] for ob, v in by_ob.items()}
    for rank in range(3):
        for ob in sorted(ranked):
            if rank < len(ranked[ob]):
                ctx.violation(ob, ranked[ob][rank][2], ranked[ob][rank][3])
    for name, desc, v in spaces:
        ctx.scope(name, cases=len(v), **desc)
    samples = [c for c in (allc[i] for i in order[:400]) if len(canon(c)) < 1500][:6]
    ctx.count(len(allc), nont, samples)
    ctx.notes["violations_by_obligation"] = dict(sorted(per_solver_v.items()))
    ctx.notes["cases_by_solver"] = {s: sum(1 for c in allc if c["solver"] == s) for s in FIRST + SECOND}
    ctx.rule = ("one evaluation = one JSON case (solver, objective table/grid/separable function, callbacks, configuration, stop, "
                "sense) run three times on the real solver (recorded run, identical re-run, mirrored run with -f and the other "
                "sense; seedless cases: recorded run only; planted cases: one more dry run that locates the point to plant) and "
                "judged against the statement, or one history (4-7 calls on shared argument objects, each call also run on fresh "
                "objects and in a fresh interpreter); non-trivial = in the recorded trace (of some call, for a history) some "
                "evaluation after the first best one is strictly worse than it (returning the last/current point would be "
                "wrong); distinct = different case digest. Presentation family (round 3): one JSON case = the small-scope random / mid-size "
                "case of a solver plus a drawn presentation (containers, persistence of callback results, solution / label values); the "
                "objects are built once, the call is made twice on them, each call judged by its books, by the typed deep snapshot of the "
                "caller-owned data before / after, and the second Result against the first")
    ctx.assumptions += [
        "objective and callbacks are deterministic functions of their arguments and of their own call history (scripts), "
        "re-created for every run; callbacks never mutate an object they did not create ('in place' only on the fresh partial "
        "solution / child)",
        "iteration limits >= 1 in the exhaustive and random small-scope spaces, >= 0 in the option ladder; cooldown >= 1; "
        "n_initial >= 1; non-empty population; lo <= hi (bayesian_opt: lo < hi); differential_evolution strategy x/k with at "
        "least 2k+1 (best) / 2k+2 (rand) individuals; cooling rates <= 1; anneal min_temp > 0",
        "history mode: between two calls the harness edits the shared argument objects (lists of bounds / start point / "
        "population / operators / weights, the state objects of the ring, what the objective and the callbacks compute) in "
        "place; during a call nothing but the solver and its callbacks touches them",
        "planted best: the dry run and the judged run are the same deterministic computation up to the planted evaluation "
        "(seeded / seedless-deterministic solvers only)",
        "initial populations no longer than the population size; 'not worse than the start' is asked for start points inside "
        "the bounds (points outside are moved by the solver before evaluation)",
        "objective values finite (the grid objective clamps |x_i| to 1e6 and maps nan to 0)",
        "mirror and reproducibility compare (solution, objective, iterations, evaluations, status); stop callbacks depend on "
        "the iteration / evaluation counter only",
        "bounds clause only for the first group (differential_evolution, particle_swarm, bayesian_opt), as the statement says",
        "presentation family: a tuple is accepted wherever the signature says Sequence; a neighbourhood callback may hand back any iterable "
        "of (move, solution) pairs and may hand back the same persistent object on every call; data reachable only through a callback (its "
        "table, its cached solution objects) belongs to the caller: the solver may read it, not change it",
        "solution / state values are never None: None is the library's no-solution marker (Result.solution is None for INFEASIBLE / no "
        "result; tabu_search's 'no admissible neighbour' sentinel follows the same convention), so None as a solution VALUE is outside the "
        "domain of every solver of this property; the presentation exists (Ring representation none0) but stays off unless "
        "VERIF_C19_NONE_STATES=1 is set - documentation of what it shows: triage/C19_round3.md",
    ]
    ctx.trusted += ["oracles/search_books.py (recording proxy, table/grid/separable objectives and their generators, min over the "
                    "trace, float ==, <=, unary -)",
                    "checks/search_round2.py (case generators only)"]
    ctx.notes["solver_cpu_s_by_family"] = {k: round(v, 1) for k, v in sorted(cpu_by_family.items())}
    ctx.notes["cases_by_family"] = dict(sorted(_count_families(allc).items()))


def replay(rec):
    use_repo()
    case = rec["case"]
    if "history" in case:
        bad, nt = judge_history(case, fresh_process_summaries(case["history"]))
        for k, st in enumerate(case["history"]):
            print(f"  call #{k}: {canon(st)[:300]}")
        r = {"error": "history"}
    else:
        bad, nt = judge_case(case)
        if "plant" in case:
            case = resolve_plant(case)
            print(f"  planted: {case['obj']['pit']}")
        r = execute(case)
    if "error" not in r:
        print(f"replay {case['solver']}: solution {r['solution']} objective {r['objective']!r} f(solution) {r['pure']!r} "
              f"iterations {r['iterations']} evaluations {r['evaluations']} calls {len(r['trace'])}")
        print("  trace:", r["trace"][:40])
    for clause, detail in bad:
        print(f"  {clause}: {detail}")
    want = rec.get("obligation", "").rsplit("/", 1)[-1]
    hit = [b for b in bad if b[0] == want] or bad
    print("replay:", "still violates" if hit else "no violation")
    return 1 if hit else 0


if __name__ == "__main__":
    _fresh_main()

"""C03 - LP verdicts and optima are exact (solve_lp; solve_lp_interior when it says OPTIMAL / FEASIBLE).

Bounded back end only.  Top-level contract taken from the property statement, evaluated on the real
`solvor.simplex.solve_lp` and `solvor.interior_point.solve_lp_interior` against the exact certificate-producing
oracle `oracles.lp_exact` (Fraction simplex; every oracle verdict is re-validated from its certificate).

Contract (statement -> obligations)
  solve_lp, status != MAX_ITER:
    OPTIMAL    <=> a finite optimum exists         C03/solve_lp/ensures:OPTIMAL-iff-finite-optimum
    INFEASIBLE <=> no feasible point               C03/solve_lp/ensures:INFEASIBLE-iff-empty
    UNBOUNDED  <=> feasible and unbounded          C03/solve_lp/ensures:UNBOUNDED-iff-unbounded
      (a wrong verdict is filed under the clause of the status that was *answered*)
    OPTIMAL => A x <= b + tau, x >= -tau           C03/solve_lp/ensures:point-feasible
    OPTIMAL => |objective - c.x| <= tau            C03/solve_lp/ensures:objective=c.x
    OPTIMAL => |objective - OPT| <= tau            C03/solve_lp/ensures:objective=OPT
    it answers at all (no exception, a Result)     C03/solve_lp/ensures:returns-a-verdict
    tau = 1e-6 * (1 + max|data|)                   (DESIGN "### C03")
    The same clauses under a tiny `max_iter` are filed under C03/solve_lp[max_iter-limited]/... so that a
    budget-handling defect is distinguishable from a defect at the default budget.
  solve_lp_interior:
    OPTIMAL => truth is 'optimal', point feasible within tau', |objective - OPT| <= tau'
                                                    C03/solve_lp_interior/ensures:OPTIMAL=>finite-optimum-exists
                                                    C03/solve_lp_interior/ensures:OPTIMAL=>point-feasible
                                                    C03/solve_lp_interior/ensures:OPTIMAL=>objective=OPT
    FEASIBLE => A x - b <= 0.01 (+1e-9), x >= 0    C03/solve_lp_interior/ensures:FEASIBLE=>residual<=0.01
    no exception on infeasible / unbounded input   C03/solve_lp_interior/ensures:no-crash-on-infeasible-or-unbounded
    no exception on an LP with a finite optimum    C03/solve_lp_interior/ensures:returns-a-verdict
    tau' = 10 * eps * (n_total + ||x*||_2 + ||y*||_2) + 1e-9, (x*, y*) the oracle's exact optimal pair of the
    slack form (DESIGN "### C03"), eps = the solver's `eps` argument (default 1e-8).

Input spaces (the same clauses are evaluated on all of them)
  small scope     exhaustive -2..2 shapes + seeded structured random LPs up to 5x6, exact Fraction simplex oracle
  size ladder     n + m around 30, 63, 64, 65, 100, 130, 200 (wide / square / tall; dense, sparse, packing, mixed sign,
                  massively degenerate cones with ~90 % zero right-hand sides, duplicate / parallel / opposite rows,
                  half-integer vertices; optimal / unbounded / infeasible).  The verdict is PLANTED
                  (oracles/lp_planted.py: a primal-dual pair, a feasible point + improving ray, or a Farkas vector is
                  constructed first and the LP around it) and proved by oracles.lp_exact.check_certificate in Fractions.
  random-exact    unplanted random LPs (packing, cone, mixed) with n + m up to ~85 judged by the exact Fraction simplex
                  (certificate re-validated) - so that nothing depends on the planting construction alone
  history         sequences of calls in ONE process on the SAME c / A / b list objects (and the same row objects),
                  rewritten in place between calls (single-entry edits, whole new LPs, rows / columns appended and
                  deleted, the same call repeated, solve_lp and solve_lp_interior interleaved); every answer is judged
                  against the oracle for the data as they are at that call, and the answers of chosen steps are compared
                  with the answer a fresh interpreter gives for the same data
  numerics        small structured LPs rescaled by powers of two (whole c, whole b, single rows, single columns;
                  2^-10 .. 2^10) and shifted by dyadic gaps 2^-16 .. 2^-40 in the verdict-preserving directions
                  (b relaxed, cost raised); A itself stays small-rational, so the LPs remain well scaled
"""
from __future__ import annotations

import hashlib
import itertools
import json
import math
import os
import random
import signal
import subprocess
import sys
from collections import Counter
from fractions import Fraction

from vf.core import Ctx, use_repo

LEVEL = "exploration"

P = "C03/solve_lp"
PB = "C03/solve_lp[max_iter-limited]"
PI = "C03/solve_lp_interior"
VALS = (-2, -1, 0, 1, 2)
H = Fraction(1, 2)


# ================================================================================================ contract
def _key(c, A, b, minimize):
    return f"{int(minimize)}{list(c)}{[list(r) for r in A]}{list(b)}".replace(" ", "")


def _fr(v):
    return Fraction(v)


def _finite_point(sol, n):
    if not isinstance(sol, (tuple, list)) or len(sol) != n:
        return None
    out = []
    for v in sol:
        if not isinstance(v, (int, float)) or isinstance(v, bool) or v != v or v in (math.inf, -math.inf):
            return None
        out.append(Fraction(v))
    return out


def _finite(v):
    return isinstance(v, (int, float)) and not isinstance(v, bool) and v == v and abs(v) != math.inf


def _feas_excess(c, A, b, x):
    """(largest row excess A_i x - b_i, its row, most negative coordinate) exactly."""
    worst, wi = None, None
    for i, row in enumerate(A):
        e = sum((_fr(a) * v for a, v in zip(row, x)), Fraction(0)) - _fr(b[i])
        if worst is None or e > worst:
            worst, wi = e, i
    return worst, wi, min(x)


def oracle(c, A, b, minimize):
    from oracles.lp_exact import solve
    return solve(c, A, b, minimize)


def eval_simplex(c, A, b, minimize, opts, orc, rel=False):
    """-> (list of (obligation, detail), status name or 'EXC').
    rel=True (structured family only, checks/C03_round3.py): the LPs there have solutions of size 1e5 .. 1e12 from data <= 10, so
    'within tolerance' is read relative to the size of the quantities that are compared: tau_q = 1e-6 * (1 + max(max|data|, S_q))
    with S_q = sum_j |a_ij x_j| for row i, max|x_j| for non-negativity, sum_j |c_j x_j| for objective = c.x and sum_j |c_j x*_j|
    for objective = OPT (x* the oracle's optimal vertex).  Where the solution is no larger than the data this is the plain tau."""
    from solvor.simplex import solve_lp
    from solvor.types import Status
    pre = PB if "max_iter" in opts else P
    n = len(c)
    try:
        r = solve_lp(c, A, b, minimize=minimize, **opts)
        st = r.status
    except Exception as e:  # noqa: BLE001
        return [(f"{pre}/ensures:returns-a-verdict", f"raised {e!r}; truth: {orc['status']}")], "EXC"
    if st == Status.MAX_ITER:
        return [], "MAX_ITER"
    truth = orc["status"]
    name = st.name if isinstance(st, Status) else repr(st)
    clause = {"OPTIMAL": "OPTIMAL-iff-finite-optimum", "INFEASIBLE": "INFEASIBLE-iff-empty",
              "UNBOUNDED": "UNBOUNDED-iff-unbounded"}.get(name)
    if clause is None:
        return [(f"{pre}/ensures:returns-a-verdict", f"status {name} is not one of OPTIMAL/INFEASIBLE/UNBOUNDED/MAX_ITER; truth: {truth}")], name
    if name.lower() != truth:
        extra = f" (optimum {orc['objective']} at x={[str(v) for v in orc['x']]})" if truth == "optimal" else ""
        return [(f"{pre}/ensures:{clause}", f"answered {name} (x={r.solution}, objective={r.objective}, iterations={r.iterations}) "
                 f"but the LP is {truth}{extra}; oracle certificate: {_cert_str(orc)}")], name
    bad = []
    if name == "OPTIMAL":
        data = [abs(_fr(v)) for v in c] + [abs(_fr(v)) for row in A for v in row] + [abs(_fr(v)) for v in b]
        dmax = max(data)
        tau = Fraction(1, 10**6) * (1 + dmax)

        def tau_of(scale):
            return Fraction(1, 10**6) * (1 + max(dmax, scale)) if rel else tau

        x = _finite_point(r.solution, n)
        if x is None or not _finite(r.objective):
            return [(f"{pre}/ensures:point-feasible", f"OPTIMAL with a non-finite / malformed answer x={r.solution} objective={r.objective}")], name
        if rel:
            worst = None
            for i, row in enumerate(A):
                e = sum((_fr(a) * v for a, v in zip(row, x)), Fraction(0)) - _fr(b[i])
                t = tau_of(sum((abs(_fr(a) * v) for a, v in zip(row, x)), Fraction(0)))
                if e > t and (worst is None or e / t > worst[0]):
                    worst = (e / t, i, e, t)
            if worst:
                bad.append((f"{pre}/ensures:point-feasible", f"x={r.solution}: row {worst[1]} exceeds b by {float(worst[2]):.3g} > tau_row={float(worst[3]):.3g}; true optimum {orc['objective']}"))
            mn = min(x)
            tx = tau_of(max(abs(v) for v in x))
        else:
            ex, wi, mn = _feas_excess(c, A, b, x)
            if ex > tau:
                bad.append((f"{pre}/ensures:point-feasible", f"x={r.solution}: row {wi} exceeds b by {float(ex):.3g} > tau={float(tau):.3g}; true optimum {orc['objective']}"))
            tx = tau
        if mn < -tx:
            bad.append((f"{pre}/ensures:point-feasible", f"x={r.solution} has a coordinate {float(mn):.3g} < -tau"))
        cx = sum((_fr(a) * v for a, v in zip(c, x)), Fraction(0))
        obj = Fraction(r.objective)
        if abs(obj - cx) > tau_of(sum((abs(_fr(a) * v) for a, v in zip(c, x)), Fraction(0))):
            bad.append((f"{pre}/ensures:objective=c.x", f"objective={r.objective} but c.x={float(cx)} at x={r.solution}"))
        if abs(obj - orc["objective"]) > tau_of(sum((abs(_fr(a) * v) for a, v in zip(c, orc["x"])), Fraction(0))):
            bad.append((f"{pre}/ensures:objective=OPT", f"objective={r.objective} but the true optimum is {orc['objective']} (x={r.solution}, x*={[str(v) for v in orc['x']]})"))
    return bad, name


def tau_interior(A, b, orc, eps):
    m, n = len(b), len(orc["x"])
    xs = list(orc["x"]) + [_fr(b[i]) - sum((_fr(a) * v for a, v in zip(A[i], orc["x"])), Fraction(0)) for i in range(m)]
    ys = orc["certificate"]["y"]
    nx = math.sqrt(float(sum(v * v for v in xs)))
    ny = math.sqrt(float(sum(v * v for v in ys)))
    return 10 * eps * ((n + m) + nx + ny) + 1e-9


def eval_interior(c, A, b, minimize, opts, orc):
    from solvor.interior_point import solve_lp_interior
    from solvor.types import Status
    n = len(c)
    truth = orc["status"]
    try:
        r = solve_lp_interior(c, A, b, minimize=minimize, **opts)
        st = r.status
    except Exception as e:  # noqa: BLE001
        ob = "no-crash-on-infeasible-or-unbounded" if truth != "optimal" else "returns-a-verdict"
        return [(f"{PI}/ensures:{ob}", f"raised {e!r} on an LP that is {truth}")], "EXC"
    name = st.name if isinstance(st, Status) else repr(st)
    bad = []
    if name == "OPTIMAL":
        if truth != "optimal":
            return [(f"{PI}/ensures:OPTIMAL=>finite-optimum-exists", f"answered OPTIMAL (x={r.solution}, objective={r.objective}) but the LP is {truth}; certificate: {_cert_str(orc)}")], name
        tp = tau_interior(A, b, orc, opts.get("eps", 1e-8))
        tpf = Fraction(tp)
        x = _finite_point(r.solution, n)
        if x is None or not _finite(r.objective):
            return [(f"{PI}/ensures:OPTIMAL=>point-feasible", f"OPTIMAL with a non-finite / malformed answer x={r.solution} objective={r.objective}")], name
        ex, wi, mn = _feas_excess(c, A, b, x)
        if ex > tpf or mn < -tpf:
            bad.append((f"{PI}/ensures:OPTIMAL=>point-feasible", f"x={r.solution}: worst row excess {float(ex):.3g} (row {wi}), min coordinate {float(mn):.3g}; tau'={tp:.3g}"))
        if abs(Fraction(r.objective) - orc["objective"]) > tpf:
            bad.append((f"{PI}/ensures:OPTIMAL=>objective=OPT", f"objective={r.objective} but the true optimum is {orc['objective']} (x={r.solution}, x*={[str(v) for v in orc['x']]}); tau'={tp:.3g}"))
    elif name == "FEASIBLE":
        x = _finite_point(r.solution, n)
        if x is None:
            return [(f"{PI}/ensures:FEASIBLE=>residual<=0.01", f"FEASIBLE with a non-finite / malformed point x={r.solution}")], name
        # Row excess judged exactly, up to the rounding that evaluating the row in double precision cannot avoid
        # (standard dot-product bound (n+2)*2^-52*(sum|a_ij x_j| + |b_i|)): negligible (< 1e-12) for points of ordinary
        # size, but a FEASIBLE answer on a diverging (unbounded) LP can have |x| ~ 1e250, where 0.01 absolute is below
        # one ulp of the terms and the documented float residual is all that can be meant.
        u = Fraction(n + 2, 2**52)
        worst, wi = None, None
        for i, row in enumerate(A):
            e = sum((_fr(a) * v for a, v in zip(row, x)), Fraction(0)) - _fr(b[i])
            allow = u * (sum((abs(_fr(a) * v) for a, v in zip(row, x)), Fraction(0)) + abs(_fr(b[i])))
            if worst is None or e - allow > worst:
                worst, wi = e - allow, i
        mn = min(x)
        if worst > Fraction(1, 100) + Fraction(1, 10**9) or mn < 0:
            bad.append((f"{PI}/ensures:FEASIBLE=>residual<=0.01", f"x={r.solution}: worst row excess (beyond float rounding) {float(worst):.4g} (row {wi}), min coordinate {float(mn):.3g}; the LP is {truth}"))
    return bad, name


def _cert_str(orc):
    ce = orc["certificate"]
    return "{" + ", ".join(f"{k}: {[str(x) for x in v] if isinstance(v, list) else v}" for k, v in ce.items()) + "}"


# ================================================================================================ input spaces
def shape_digits(n, m):
    return n + n * m + m


def decode(n, m, idx):
    """idx in [0, 5^(n+nm+m)) -> (c, A, b) with entries in -2..2 (c, then A row-major, then b)."""
    d = []
    for _ in range(shape_digits(n, m)):
        idx, r = divmod(idx, 5)
        d.append(VALS[r])
    c = d[:n]
    A = [d[n + i * n: n + (i + 1) * n] for i in range(m)]
    b = d[n + n * m:]
    return c, A, b


def _num(v: Fraction, as_float=False):
    if v.denominator == 1 and not as_float:
        return int(v)
    return float(v)


def _rv(rng, mag, zero=0.2, half=0.15):
    if rng.random() < zero:
        return Fraction(0)
    v = Fraction(rng.randint(-mag, mag))
    if rng.random() < half:
        v += H * rng.choice((-1, 1))
        if abs(v) > mag:
            v = Fraction(mag if v > 0 else -mag)
    return v


def _pos(rng, mag, half=0.15):
    v = Fraction(rng.randint(1, mag))
    if rng.random() < half and v > 1:
        v -= H
    return v


KINDS = ("uniform", "degenerate", "parallel", "zero", "phase1", "box", "ties", "unbounded", "infeasible", "equalities")


def gen_case(rng):
    """One structured LP: (kind, c, A, b, minimize) with int / half-integer data (floats when not integral)."""
    kind = rng.choice(KINDS)
    mag = rng.choice((2, 2, 3, 6))
    half = rng.choice((0.0, 0.0, 0.15, 0.4))
    n = rng.choice((1, 1, 2, 2, 2, 3, 3, 4, 5))
    m = rng.choice((1, 2, 2, 3, 3, 3, 4, 4, 5))
    minimize = rng.random() < 0.5

    def rv():
        return _rv(rng, mag, 0.2, half)

    A = [[rv() for _ in range(n)] for _ in range(m)]
    b = [rv() for _ in range(m)]
    w = [rv() for _ in range(n)]  # cost of the equivalent minimisation; c = w or -w
    if kind == "degenerate":
        x0 = [Fraction(rng.choice((0, 0, 1, 2, 3))) for _ in range(n)]
        if rng.random() < 0.3:
            x0[rng.randrange(n)] += H
        tight = [rng.random() < 0.75 for _ in range(m)]
        for i in range(m):
            b[i] = sum(a * v for a, v in zip(A[i], x0)) + (0 if tight[i] else rng.choice((0, 1, 2)))
        if rng.random() < 0.6:  # make x0 optimal: -w in the cone of the tight normals
            w = [Fraction(0)] * n
            for i in range(m):
                if tight[i]:
                    lam = rng.choice((0, 1, 1, 2))
                    w = [wj - lam * a for wj, a in zip(w, A[i])]
            for j in range(n):
                if x0[j] == 0:
                    w[j] += rng.choice((0, 0, 1))
    elif kind == "parallel" and m >= 2:
        for _ in range(rng.randint(1, 2)):
            i, j = rng.sample(range(m), 2)
            k = rng.choice((1, 1, 2, H, -1, -1, -2))
            A[j] = [k * a for a in A[i]]
            b[j] = k * b[i] + rng.choice((0, 0, 0, 1, -1))
        if m >= 3 and rng.random() < 0.4:  # the same equality stated twice: a dependent artificial row
            i, j, l = rng.sample(range(m), 3)
            A[j] = [-a for a in A[i]]
            b[j] = -b[i]
            A[l] = list(A[j] if rng.random() < 0.5 else A[i])
            b[l] = b[j] if A[l] == A[j] else b[i]
    elif kind == "zero":
        if rng.random() < 0.7:
            i = rng.randrange(m)
            A[i] = [Fraction(0)] * n
            b[i] = Fraction(rng.choice((0, 0, 1, 2, -1)))
        if rng.random() < 0.7:
            j = rng.randrange(n)
            for i in range(m):
                A[i][j] = Fraction(0)
            w[j] = Fraction(rng.choice((-1, 0, 0, 1, 2)))
        if rng.random() < 0.2:
            w = [Fraction(0)] * n
    elif kind == "phase1":
        for i in range(m):
            if rng.random() < 0.7:  # a ">=" row:  -a.x <= -beta
                A[i] = [-abs(v) if rng.random() < 0.8 else v for v in A[i]]
                if all(v == 0 for v in A[i]):
                    A[i][rng.randrange(n)] = Fraction(-1)
                b[i] = -Fraction(rng.randint(0, mag)) * rng.choice((1, 1, H))
            else:
                A[i] = [abs(v) for v in A[i]]
                b[i] = Fraction(rng.randint(0, 2 * mag))
    elif kind == "box":
        rows = []
        for j in rng.sample(range(n), rng.randint(1, n)):
            lo = Fraction(rng.randint(0, 3)) * rng.choice((1, 1, H))
            hi = lo + rng.choice((0, 0, 1, 2, -1))
            sl, su = rng.choice((1, 1, 2)), rng.choice((1, 1, 2))
            rows.append(([Fraction(-sl) if k == j else Fraction(0) for k in range(n)], -lo * sl))
            rows.append(([Fraction(su) if k == j else Fraction(0) for k in range(n)], hi * su))
            if rng.random() < 0.4:  # a second, weaker or stronger lower bound on the same variable
                lo2 = Fraction(rng.randint(0, 4)) * H
                rows.append(([Fraction(-1) if k == j else Fraction(0) for k in range(n)], -lo2))
        for i in range(rng.randint(0, 2)):
            rows.append((A[i % m], b[i % m]))
        rng.shuffle(rows)
        rows = rows[:6]
        A, b = [list(r[0]) for r in rows], [r[1] for r in rows]
        m = len(b)
    elif kind == "ties":
        e = rng.randrange(n)
        t = Fraction(rng.choice((0, 0, 1, 2))) * rng.choice((1, 1, H))
        for i in range(m):
            if rng.random() < 0.8:
                A[i][e] = _pos(rng, mag, half)
                b[i] = t * A[i][e]
            else:
                b[i] = abs(b[i]) + t * abs(A[i][e])
        w[e] = -_pos(rng, mag, half)
        for j in range(e):
            if rng.random() < 0.7:
                w[j] = abs(w[j])
    elif kind == "unbounded":
        j = rng.randrange(n)
        for i in range(m):
            A[i][j] = -abs(A[i][j]) if rng.random() < 0.9 else A[i][j]
        w[j] = -_pos(rng, mag, half)
        if rng.random() < 0.6:
            b = [abs(v) for v in b]
    elif kind == "infeasible":
        r = rng.random()
        if r < 0.5 and m >= 2:
            i, j = rng.sample(range(m), 2)
            k = rng.choice((1, 1, 2))
            A[j] = [-k * a for a in A[i]]
            b[j] = -k * b[i] - k * rng.choice((H, 1, 1, 2, 0))
        elif r < 0.8:
            i = rng.randrange(m)
            A[i] = [abs(a) for a in A[i]]
            b[i] = -_pos(rng, mag, half)
        else:  # a Farkas combination spread over three rows
            if m >= 3:
                i, j, l = rng.sample(range(m), 3)
                A[l] = [-(a + q) for a, q in zip(A[i], A[j])]
                b[l] = -(b[i] + b[j]) - 1
    elif kind == "equalities" and m >= 2:
        x0 = [Fraction(rng.choice((0, 1, 1, 2, 3))) * rng.choice((1, 1, H)) for _ in range(n)]
        q = 0
        while q + 1 < m:
            if rng.random() < 0.8:
                A[q + 1] = [-a for a in A[q]]
                b[q] = sum(a * v for a, v in zip(A[q], x0))
                b[q + 1] = -b[q]
                q += 2
            else:
                b[q] = sum(a * v for a, v in zip(A[q], x0)) + rng.choice((0, 1))
                q += 1
        if rng.random() < 0.5:
            order = list(range(m))
            rng.shuffle(order)
            A, b = [A[i] for i in order], [b[i] for i in order]
    c = w if minimize else [-v for v in w]
    fl = rng.random() < 0.25
    return (kind, [_num(v, fl) for v in c], [[_num(v, fl) for v in row] for row in A], [_num(v, fl) for v in b], minimize)


def features(c, A, b, orc):
    f = ["truth:" + orc["status"]]
    s = orc["stats"]
    if s["phase1"]:
        f.append("neg-rhs/phase1")
        if sum(1 for v in b if v < 0) >= 2:
            f.append("neg-rhs>=2")
    if s["degenerate_vertex"]:
        f.append("degenerate-vertex")
    if s["ratio_ties"]:
        f.append("ratio-test-tie")
    if s["degenerate_pivots"]:
        f.append("degenerate-pivot")
    if any(all(v == 0 for v in row) for row in A):
        f.append("zero-row")
    if any(all(row[j] == 0 for row in A) for j in range(len(c))):
        f.append("zero-column")
    par = dup = False
    for i in range(len(A)):
        for j in range(i + 1, len(A)):
            ri, rj = A[i], A[j]
            if any(ri) and any(rj) and all(ri[p] * rj[q] == ri[q] * rj[p] for p in range(len(ri)) for q in range(p + 1, len(ri))) \
                    and all((ri[p] == 0) == (rj[p] == 0) for p in range(len(ri))):
                par = True
                if ri == rj and b[i] == b[j]:
                    dup = True
    if par:
        f.append("parallel-rows")
    if dup:
        f.append("duplicate-rows")
    if any(isinstance(v, float) and v != int(v) for v in itertools.chain(c, b, *A)):
        f.append("half-integer-data")
    return f


# ================================================================================================ round-2 families
class _Budget(BaseException):
    """CPU-time budget of a guarded call used up (BaseException: must pass the `except Exception` around the solver)."""


def _on_vtalrm(signum, frame):
    raise _Budget()


def guarded(seconds, fn, *args):
    """fn(*args) under a CPU-time (not wall-clock) budget -> (result, False) or (None, True) when the budget ran out.
    solve_lp always returns (max_iter), so a budget hit is never a violation: it is counted and excused like MAX_ITER.
    Only there to keep a run against a cycling variant of the solver finite (the unchanged tree needs < 1/20 of it)."""
    old = signal.signal(signal.SIGVTALRM, _on_vtalrm)
    try:
        try:
            signal.setitimer(signal.ITIMER_VIRTUAL, seconds)
            return fn(*args), False
        finally:
            signal.setitimer(signal.ITIMER_VIRTUAL, 0)
    except _Budget:
        return None, True
    finally:
        signal.signal(signal.SIGVTALRM, old)


LARGE = " [large: n+m >= 190]"


def shape_tag(n, m):
    """Obligation suffix decided by the SIZE of the input alone.  On LPs with about 200 or more tableau columns (n variables +
    m slacks) the unchanged tree itself can lose the verdict to accumulated rounding in its dense tableau (after fix a67c837:
    about 1-2 % of the 200- and 260-column ladder instances, tall and wide alike, 0 of several thousand below 190:
    triage/C03_round2.md, known_findings.json); filing those cases under their own obligation name keeps that recorded finding
    separable from anything found on smaller instances of the same families."""
    return LARGE if n + m >= 190 else ""


def cpu_budget(n, m):
    t = n + m
    return 40 if t <= 70 else 150 if t <= 135 else 600


def _digest(c, A, b, minimize):
    return hashlib.sha1(_key(c, A, b, minimize).encode()).hexdigest()[:20]


def _nontrivial(c, b, minimize):
    """Same rule as the small scope (the all-slack basis is not already optimal), decided from the data."""
    return any(v < 0 for v in b) or any((v < 0) if minimize else (v > 0) for v in c)


def cert_to_json(res):
    ce = res["certificate"]
    return {"status": res["status"], "certificate": {k: ([str(x) for x in v] if isinstance(v, list) else v) for k, v in ce.items()}}


def cert_from_json(c, A, b, minimize, j):
    """Rebuild an oracle answer from the certificate stored in a replay file; the certificate is re-validated."""
    from oracles.lp_exact import check_certificate
    ce = {k: ([Fraction(x) for x in v] if isinstance(v, list) else v) for k, v in j["certificate"].items()}
    st = j["status"]
    x = ce.get("x")
    res = {"status": st, "x": x if st != "infeasible" else None,
           "objective": sum((Fraction(a) * v for a, v in zip(c, x)), Fraction(0)) if st == "optimal" else None,
           "certificate": ce, "stats": {"planted": True}}
    check_certificate(c, A, b, minimize, res)
    return res


# ---------------------------------------------------------------------------------------- size ladder (planted)
LADDER_STYLES_OPT = ("dense-packing", "dense-packing", "dense-mostly-pos", "dense-mixed", "sparse", "degenerate", "cone",
                     "dup-ties", "equalities", "half-integers")
LADDER_STYLES_UNB = ("cone", "cone", "degenerate", "dense-mixed", "sparse", "dup-ties")
LADDER_STYLES_INF = ("dense-mixed", "degenerate", "sparse", "dup-ties", "cone", "dense-mostly-pos")
HEAVY_STYLES = ("cone", "degenerate")  # thousands of degenerate Bland pivots at n + m >= 130: thorough tier only there


def ladder_shapes(T):
    q = max(2, round(T / 4))
    return [(T - q, q), (T // 2, T - T // 2), (q, T - q), (T - q - 1, q + 1), (T // 2 + 1, T - T // 2 - 1), (q + 1, T - q - 1)]


def ladder_specs(seed, plan, interior_plan, quick):
    """plan: [(T, count)] for solve_lp; interior_plan: [(T, count, wide_only)] (those also go through solve_lp)."""
    specs = []
    for T, count in plan:
        shapes = ladder_shapes(T)
        for k in range(count):
            r = k % 10
            truth = "optimal" if r < 6 else "unbounded" if r < 8 else "infeasible"
            pool = {"optimal": LADDER_STYLES_OPT, "unbounded": LADDER_STYLES_UNB, "infeasible": LADDER_STYLES_INF}[truth]
            if quick and T >= 130:
                pool = tuple(s for s in pool if s not in HEAVY_STYLES)
            style = random.Random(f"{seed}/ladder-style/{T}/{k}").choice(pool)
            n, m = shapes[(k // 3) % len(shapes)]
            specs.append({"T": T, "n": n, "m": m, "truth": truth, "style": style, "seed": f"{seed}/ladder/{T}/{k}", "interior": False})
    for T, count, wide_only in interior_plan:
        shapes = ladder_shapes(T)
        if wide_only:
            shapes = [(T - max(2, T // 10), max(2, T // 10))]
        for k in range(count):
            r = k % 5
            truth = "optimal" if r < 3 else "unbounded" if r < 4 else "infeasible"
            pool = {"optimal": LADDER_STYLES_OPT, "unbounded": LADDER_STYLES_UNB, "infeasible": LADDER_STYLES_INF}[truth]
            if quick and T >= 130:
                pool = tuple(s for s in pool if s not in HEAVY_STYLES)
            style = random.Random(f"{seed}/ladder-ip-style/{T}/{k}").choice(pool)
            n, m = shapes[k % len(shapes)]
            specs.append({"T": T, "n": n, "m": m, "truth": truth, "style": style, "seed": f"{seed}/ladder-ip/{T}/{k}", "interior": True})
    return specs


def ladder_cost(sp):
    t = sp["n"] + sp["m"]
    base = (t / 64.0) ** 3 * 0.06 * (4 if sp["style"] in HEAVY_STYLES else 1)
    if sp["interior"]:
        base += (t / 64.0) ** 3 * 1.2 * (sp["m"] / (t / 2.0)) ** 2
    return base


def run_ladder(sp):
    from oracles.lp_planted import plant
    rng = random.Random(sp["seed"])
    c, A, b, mn, res = plant(rng, sp["truth"], sp["n"], sp["m"], sp["style"])
    return judge_large(c, A, b, mn, res, "ladder", {"style": sp["style"], "planted": sp["truth"], "seed": sp["seed"]},
                       f"T~{sp['T']}", sp["interior"])


def judge_large(c, A, b, mn, res, family, gen, tag, interior):
    cnt = Counter()
    viol = []
    n, m = len(c), len(b)
    cnt[f"feature:{family}:truth:{res['status']}"] += 1
    cnt[f"feature:{family}:style:{gen.get('style') or gen.get('kind')}"] += 1
    if any(v < 0 for v in b):
        cnt[f"feature:{family}:neg-rhs/phase1"] += 1
    if 10 * sum(1 for v in b if v == 0) >= 8 * m:
        cnt[f"feature:{family}:>=80%-zero-rhs"] += 1
    if n + m >= 64:
        cnt[f"feature:{family}:n+m>=64"] += 1
    if n + m >= 128:
        cnt[f"feature:{family}:n+m>=128"] += 1

    def case(fn):
        return {"fn": fn, "family": family, "gen": gen, "c": c, "A": A, "b": b, "minimize": mn, "opts": {}, "oracle": cert_to_json(res)}

    n_eval = 1
    out, hit = guarded(cpu_budget(n, m), eval_simplex, c, A, b, mn, {}, res)
    if hit:
        cnt[f"{family}:solve_lp:{tag}:{res['status']}->CPU-BUDGET"] += 1
        cnt["cpu_budget_excused"] += 1
    else:
        bad, st = out
        cnt[f"{family}:solve_lp:{tag}:{res['status']}->{st}"] += 1
        for ob, det in bad:
            viol.append((ob + shape_tag(n, m), case("solve_lp"), _short(f"[{family} {n}x{m} {gen}] " + det, 1600)))
    if interior:
        bad, st = eval_interior(c, A, b, mn, {}, res)
        n_eval += 1
        cnt[f"{family}:interior:{tag}:{res['status']}->{st}"] += 1
        for ob, det in bad:
            viol.append((ob, case("solve_lp_interior"), _short(f"[{family} {n}x{m} {gen}] " + det, 1600)))
    nt = _digest(c, A, b, mn) if _nontrivial(c, b, mn) else None
    return viol, cnt, nt, n_eval


# ---------------------------------------------------------------------------------------- unplanted, exact oracle
def gen_random_exact(rng, kind, n, m):
    if kind == "packing":
        A = [[rng.choice((0, 0, 1, 1, 2, 3)) for _ in range(n)] for _ in range(m)]
        b = [rng.randint(4, 30) for _ in range(m)]
        w = [-rng.randint(1, 9) for _ in range(n)]
    elif kind == "cone":  # massively degenerate: ~90 % zero right-hand sides, optimal (at 0 or near) or unbounded
        A = [[rng.randint(-3, 3) for _ in range(n)] for _ in range(m)]
        zero = rng.choice((0.6, 0.9, 0.9, 1.0))
        b = [0 if rng.random() < zero else rng.randint(1, 3) for _ in range(m)]
        w = [rng.randint(-3, 3) for _ in range(n)]
    elif kind == "cone-pos":  # as cone, but the cost is pushed up so that more of them have a finite optimum away from 0 ... or at it
        A = [[rng.randint(-3, 3) for _ in range(n)] for _ in range(m)]
        b = [0 if rng.random() < 0.9 else rng.randint(1, 3) for _ in range(m)]
        w = [rng.randint(-1, 4) for _ in range(n)]
    else:  # mixed: negative right-hand sides, any verdict
        A = [[rng.randint(-3, 4) if rng.random() < 0.8 else 0 for _ in range(n)] for _ in range(m)]
        b = [rng.randint(-3, 12) for _ in range(m)]
        w = [rng.randint(-3, 4) for _ in range(n)]
    mn = rng.random() < 0.5
    return (w if mn else [-v for v in w]), A, b, mn


def run_rexact(sp):
    rng = random.Random(sp["seed"])
    c, A, b, mn = gen_random_exact(rng, sp["kind"], sp["n"], sp["m"])
    res = oracle(c, A, b, mn)
    return judge_large(c, A, b, mn, res, "random-exact", {"kind": sp["kind"], "seed": sp["seed"]}, sp["kind"], sp.get("interior", False))


def rexact_specs(seed, plan):
    specs = []
    for kind, shapes, count in plan:
        for k in range(count):
            n, m = shapes[k % len(shapes)]
            specs.append({"kind": kind, "n": n, "m": m, "seed": f"{seed}/rexact/{kind}/{n}x{m}/{k}", "interior": k % 25 == 0 and n + m <= 50})
    return specs


def rexact_cost(sp):
    t = sp["n"] + sp["m"]
    return (t / 64.0) ** 3.5 * (0.6 if sp["kind"].startswith("cone") else 0.25)


# ---------------------------------------------------------------------------------------- history mode
def write_into(c, A, b, nc, nA, nb):
    """Overwrite the persistent argument objects with a new LP IN PLACE: c, A, b and every surviving row keep their identity."""
    c[:] = nc
    b[:] = nb
    for i in range(min(len(A), len(nA))):
        A[i][:] = nA[i]
    if len(A) > len(nA):
        del A[len(nA):]
    else:
        for i in range(len(A), len(nA)):
            A.append(list(nA[i]))


def _small_edit(rng, c, A, b, mn):
    """A copy of the LP with one local change (what a caller does between two solves of 'the same' model)."""
    c, A, b = list(c), [list(r) for r in A], list(b)
    n, m = len(c), len(b)
    vals = (-3, -2, -1, 0, 0, 1, 1, 2, 3, 0.5, -0.5, 1.5)
    op = rng.choice(("A", "A", "b", "b", "c", "c", "sense", "add-row", "add-col", "del-row", "del-col", "swap-rows", "negate-row", "dup-row"))
    if op == "A":
        A[rng.randrange(m)][rng.randrange(n)] = rng.choice(vals)
    elif op == "b":
        b[rng.randrange(m)] = rng.choice(vals)
    elif op == "c":
        c[rng.randrange(n)] = rng.choice(vals)
    elif op == "sense":
        mn = not mn
    elif op == "add-row" and m < 6:
        A.append([rng.choice(vals) for _ in range(n)])
        b.append(rng.choice(vals))
    elif op == "add-col" and n < 6:
        for r in A:
            r.append(rng.choice(vals))
        c.append(rng.choice(vals))
    elif op == "del-row" and m > 1:
        i = rng.randrange(m)
        del A[i]
        del b[i]
    elif op == "del-col" and n > 1:
        j = rng.randrange(n)
        for r in A:
            del r[j]
        del c[j]
    elif op == "swap-rows" and m > 1:
        i, j = rng.sample(range(m), 2)
        A[i], A[j] = A[j], A[i]
        b[i], b[j] = b[j], b[i]
    elif op == "negate-row":
        i = rng.randrange(m)
        A[i] = [-v for v in A[i]]
        b[i] = -b[i]
    elif op == "dup-row" and m > 1:
        i, j = rng.sample(range(m), 2)
        A[j] = list(A[i])
        b[j] = b[i]
    else:
        b[rng.randrange(m)] = rng.choice(vals)
    return c, A, b, mn


def history_steps(sp):
    """The sequence of LPs (plain data) and calls of one history; the oracle answer of a planted step rides along."""
    rng = random.Random(sp["seed"])
    steps = []
    if sp["mode"] == "small":
        _, c, A, b, mn = gen_case(rng)
        for k in range(sp["len"]):
            r = rng.random()
            if k and r < 0.25:
                pass  # the very same call again
            elif k and r < 0.75:
                c, A, b, mn = _small_edit(rng, c, A, b, mn)
            elif k:
                _, c, A, b, mn = gen_case(rng)
            fn = "solve_lp" if rng.random() < 0.8 else "solve_lp_interior"
            opts = {}
            if fn == "solve_lp" and rng.random() < 0.1:
                opts = {"max_iter": rng.choice((1, 2, 3, 50))}
            steps.append({"fn": fn, "c": list(c), "A": [list(r) for r in A], "b": list(b), "minimize": mn, "opts": opts})
    else:  # planted LPs of one shape pushed through the same objects, with certificate-preserving edits in between
        from oracles.lp_planted import plant
        n, m = sp["n"], sp["m"]
        cur = None
        for k in range(sp["len"]):
            r = rng.random()
            if cur is not None and r < 0.3:
                pass
            elif cur is not None and r < 0.6 and cur[4]["status"] != "infeasible":
                c, A, b, mn, res = cur
                b = list(b)
                xs = res["certificate"]["x"]
                slack_rows = [i for i in range(m) if sum((Fraction(a) * v for a, v in zip(A[i], xs)), Fraction(0)) < Fraction(b[i])]
                for i in rng.sample(slack_rows, min(len(slack_rows), 3)):
                    b[i] += rng.randint(1, 3)  # a row that is slack at the planted point is relaxed: every certificate stays valid
                cur = (c, A, b, mn, res)
            else:
                truth = rng.choice(("optimal", "optimal", "unbounded", "infeasible"))
                style = rng.choice({"optimal": LADDER_STYLES_OPT, "unbounded": LADDER_STYLES_UNB, "infeasible": LADDER_STYLES_INF}[truth])
                cur = plant(rng, truth, n, m, style)
            c, A, b, mn, res = cur
            steps.append({"fn": "solve_lp", "c": list(c), "A": [list(r) for r in A], "b": list(b), "minimize": mn, "opts": {}, "oracle": cert_to_json(res)})
    return steps


_FRESH = r"""
import json, os, sys
sys.path.insert(0, os.environ.get("VERIF_REPO", "/repo"))
st = json.load(sys.stdin)
from solvor.simplex import solve_lp
from solvor.interior_point import solve_lp_interior
try:
    r = (solve_lp if st["fn"] == "solve_lp" else solve_lp_interior)(st["c"], st["A"], st["b"], minimize=st["minimize"], **st["opts"])
    print(json.dumps([r.status.name, list(r.solution), r.objective, r.iterations]))
except Exception as e:
    print(json.dumps(["EXC", repr(e), None, None]))
"""


def fresh_answer(step):
    env = dict(os.environ, PYTHONDONTWRITEBYTECODE="1", PYTHONHASHSEED="0", PYTHONWARNINGS="ignore")
    p = subprocess.run([sys.executable, "-c", _FRESH], input=json.dumps({k: step[k] for k in ("fn", "c", "A", "b", "minimize", "opts")}),
                       capture_output=True, text=True, env=env)
    if p.returncode != 0:
        return ["CHILD-FAILED", p.stderr[-300:], None, None]
    return json.loads(p.stdout.strip().splitlines()[-1])


def play_history(steps, compare_at=(), stop_at_first=False):
    """Run the calls of `steps` in this process on ONE set of argument objects. -> (violations [(ob, upto, detail)], Counter, n_eval)."""
    from solvor.simplex import solve_lp
    c, A, b = [], [], []
    viol, cnt, n_eval = [], Counter(), 0
    for k, st in enumerate(steps):
        write_into(c, A, b, st["c"], st["A"], st["b"])
        orc = cert_from_json(st["c"], st["A"], st["b"], st["minimize"], st["oracle"]) if "oracle" in st else oracle(st["c"], st["A"], st["b"], st["minimize"])
        if st["fn"] == "solve_lp":
            out, hit = guarded(cpu_budget(len(c), len(b)), eval_simplex, c, A, b, st["minimize"], st["opts"], orc)
            bad, name = out if not hit else ([], "CPU-BUDGET")
        else:
            bad, name = eval_interior(c, A, b, st["minimize"], st["opts"], orc)
        n_eval += 1
        same = k > 0 and all(steps[k - 1][f] == st[f] for f in ("c", "A", "b", "minimize"))
        cnt[f"history:{st['fn']}{'[max_iter]' if 'max_iter' in st['opts'] else ''}:{'repeat' if same else 'edited'}:{orc['status']}->{name}"] += 1
        if c != st["c"] or A != st["A"] or b != st["b"]:
            cnt["history:solver-modified-its-arguments"] += 1
        for ob, det in bad:
            viol.append((ob + (shape_tag(len(c), len(b)) if st["fn"] == "solve_lp" else ""), k,
                         _short(f"[history step {k + 1}/{len(steps)}, same argument objects since step 1] " + det, 1600)))
        if k in compare_at and st["fn"] == "solve_lp" and name not in ("EXC", "CPU-BUDGET"):
            r, hit = guarded(cpu_budget(len(c), len(b)), lambda: solve_lp(c, A, b, minimize=st["minimize"], **st["opts"]))  # noqa: B023
            if hit:
                continue
            here = [r.status.name, list(r.solution), r.objective, r.iterations]
            there = fresh_answer(st)
            n_eval += 1
            if here == there:
                cnt["history:identical-to-fresh-process"] += 1
            else:
                cnt["history:differs-from-fresh-process"] += 1
                mx = max([abs(_fr(v)) for v in st["c"]] + [abs(_fr(v)) for r_ in st["A"] for v in r_] + [abs(_fr(v)) for v in st["b"]])
                tau = 1e-6 * (1 + float(mx))
                if there[0] in ("CHILD-FAILED",):
                    cnt["history:fresh-process-failed"] += 1
                elif here[0] != there[0] and "MAX_ITER" not in (here[0], there[0]) or \
                        (here[0] == there[0] == "OPTIMAL" and abs(here[2] - there[2]) > 2 * tau):
                    viol.append((f"{P}/ensures:verdict-is-a-function-of-the-LP", k,
                                 f"[history step {k + 1}] in this process (after {k} earlier calls on the same objects): {here[0]} objective={here[2]}; "
                                 f"a fresh interpreter on the same data: {there[0]} objective={there[2]}; truth: {orc['status']} {orc['objective']}"))
        if viol and stop_at_first:
            break
    return viol, cnt, n_eval


def run_history(sp):
    steps = history_steps(sp)
    cmp_at = {len(steps) - 1, random.Random(sp["seed"] + "/cmp").randrange(len(steps))} if sp.get("fresh") else set()
    hv, cnt, n_eval = play_history(steps, cmp_at)
    viol = []
    for ob, k, det in hv[:3]:
        viol.append((ob, {"fn": "history", "family": "history", "gen": {"mode": sp["mode"], "seed": sp["seed"]}, "steps": steps[: k + 1],
                          "c": steps[k]["c"], "A": steps[k]["A"], "b": steps[k]["b"], "minimize": steps[k]["minimize"], "opts": steps[k]["opts"]}, det))
    nts = [_digest(s["c"], s["A"], s["b"], s["minimize"]) for s in steps if _nontrivial(s["c"], s["b"], s["minimize"])]
    cnt["feature:history:sequences"] += 1
    return viol, cnt, nts, n_eval


# ---------------------------------------------------------------------------------------- dyadic numerics
GAPS = (16, 20, 24, 30, 36, 40)


def gen_numeric(rng):
    """A small structured LP (gen_case) pushed to the fine-grained end of what 'well scaled, small rational data' covers:
    exact power-of-two rescalings and dyadic shifts of b (relaxing) and of the cost (raising) - A keeps its small entries
    up to the row / column scale, so no near-parallel rows and no near-singular bases are manufactured."""
    kind, c, A, b, mn = gen_case(rng)
    n, m = len(c), len(b)
    c = [Fraction(v) for v in c]
    A = [[Fraction(v) for v in r] for r in A]
    b = [Fraction(v) for v in b]
    ops = []
    r = rng.random()
    if r < 0.45 or rng.random() < 0.3:
        p = rng.choice(GAPS)
        g = Fraction(1, 2 ** p)
        for i in range(m):
            if rng.random() < 0.5:
                b[i] += g * rng.choice((1, 1, 2, 3))  # relax
        for j in range(n):
            if rng.random() < 0.4:
                c[j] += (g if mn else -g) * rng.choice((1, 1, 2, 3))  # raise the minimised cost
        ops.append(f"gap2^-{p}")
    if r >= 0.45 or rng.random() < 0.3:
        which = rng.choice(("c", "b", "rows", "cols", "all"))
        if which in ("c", "all"):
            k = rng.randint(-10, 10)
            c = [v * Fraction(2) ** k for v in c]
            ops.append(f"c*2^{k}")
        if which in ("b", "all"):
            k = rng.randint(-10, 10)
            b = [v * Fraction(2) ** k for v in b]  # = scaling every x_j by 2^k
            ops.append(f"b*2^{k}")
        if which in ("rows", "all"):
            for i in range(m):
                k = rng.randint(-6, 6)
                A[i] = [v * Fraction(2) ** k for v in A[i]]
                b[i] *= Fraction(2) ** k
            ops.append("rows*2^[-6..6]")
        if which in ("cols",):
            for j in range(n):
                k = rng.randint(-6, 6)
                for i in range(m):
                    A[i][j] *= Fraction(2) ** k
                c[j] *= Fraction(2) ** k
            ops.append("cols*2^[-6..6]")
    fl = rng.random() < 0.3
    return (kind + "|" + ",".join(ops), [_num(v, fl) for v in c], [[_num(v, fl) for v in row] for row in A], [_num(v, fl) for v in b], mn)


def run_numeric(sp):
    rng = random.Random(sp["seed"])
    out = []
    for _ in range(sp["count"]):
        kind, c, A, b, mn = gen_numeric(rng)
        assert all(Fraction(v) == Fraction(float(v)) for v in itertools.chain(c, b, *A)), "numeric data must be exact in binary64"
        v, cnt, nt, ne = run_case(c, A, b, mn, [{}], [{}] if rng.random() < sp["p_interior"] else [])
        for t in v:
            t[1]["family"] = "numerics"
            t[1]["gen"] = {"kind": kind}
        k2 = Counter({("numerics:" + k): n_ for k, n_ in cnt.items() if not k.startswith("feature:")})
        k2["feature:numerics:" + ("gap" if "gap" in kind else "scaled-only")] += 1
        k2["feature:numerics:truth:" + next(k[14:] for k in cnt if k.startswith("feature:truth:"))] += 1
        out.append((v, k2, nt, ne))
    return out



# ================================================================================================ worker
def run_case(c, A, b, minimize, s_opts, i_opts):
    """-> (violations [(obligation, case, detail)], Counter, nontrivial key or None, n_eval)."""
    orc = oracle(c, A, b, minimize)
    cnt = Counter()
    viol = []
    sense = "min" if minimize else "max"
    for f in features(c, A, b, orc):
        cnt["feature:" + f] += 1
    n_eval = 0
    for o in s_opts:
        bad, st = eval_simplex(c, A, b, minimize, o, orc)
        n_eval += 1
        cnt[f"solve_lp{'[max_iter]' if o else ''}:{orc['status']}->{st}"] += 1
        for ob, det in bad:
            viol.append((ob, {"fn": "solve_lp", "c": c, "A": A, "b": b, "minimize": minimize, "opts": o}, det))
    for o in i_opts:
        bad, st = eval_interior(c, A, b, minimize, o, orc)
        n_eval += 1
        cnt[f"interior{'[opts]' if o else ''}:{sense}:{orc['status']}->{st}"] += 1
        for ob, det in bad:
            viol.append((ob, {"fn": "solve_lp_interior", "c": c, "A": A, "b": b, "minimize": minimize, "opts": o}, det))
    nt = _key(c, A, b, minimize) if orc["stats"]["pivots"] >= 1 else None
    return viol, cnt, nt, n_eval


def work(chunk):
    """chunk = ('exh', n, m, [(idx, minimize, do_interior)...]) or ('cases', [(c, A, b, minimize, s_opts, i_opts)...])
    or ('ladder' | 'rexact' | 'history' | 'numeric' | 'struct', [spec...]) - those build their inputs from the spec in the worker."""
    use_repo()
    viol, cnt, nts, n_eval = [], Counter(), [], 0
    if chunk[0] == "exh":
        _, n, m, items = chunk
        it = (run_case(*decode(n, m, idx), mn, [{}], [{}] if di else []) for idx, mn, di in items)
    elif chunk[0] == "cases":
        it = (run_case(*t) for t in chunk[1])
    elif chunk[0] == "ladder":
        it = (run_ladder(sp) for sp in chunk[1])
    elif chunk[0] == "rexact":
        it = (run_rexact(sp) for sp in chunk[1])
    elif chunk[0] == "history":
        it = (run_history(sp) for sp in chunk[1])
    elif chunk[0] == "numeric":
        it = (r for sp in chunk[1] for r in run_numeric(sp))
    elif chunk[0] == "struct":
        from checks import C03_round3
        it = (C03_round3.run_struct(sp) for sp in chunk[1])
    else:
        raise ValueError(chunk[0])
    for v, k, nt, ne in it:
        viol.extend(v)
        cnt["violations"] += len(v)
        for ob, _, _ in v:
            cnt["violated:" + ob] += 1
        cnt.update(k)
        n_eval += ne
        if isinstance(nt, list):
            nts.extend(nt)
        elif nt:
            nts.append(nt)
    if len(viol) > 8:  # keep the 8 smallest per obligation; the totals are in cnt
        by = {}
        for v in sorted(viol, key=lambda v: (_case_size(v[1]), repr(v[1]))):
            by.setdefault(v[0], [])
            if len(by[v[0]]) < 8:
                by[v[0]].append(v)
        viol = [v for vs in by.values() for v in vs]
    return viol, cnt, nts, n_eval


def _case_size(case):
    n, m = len(case["c"]), len(case["b"])
    mag = sum(abs(v) for v in case["c"]) + sum(abs(v) for v in case["b"]) + sum(abs(v) for r in case["A"] for v in r)
    return (n * m, n + m, len(case.get("opts") or {}), mag)


def _chunks(seq, size):
    for i in range(0, len(seq), size):
        yield seq[i: i + size]


# ================================================================================================ driver
def run(ctx: Ctx):
    from vf.prove import prove
    prove(ctx, ["specs.lp_milp"], "C03")  # deductive part (specs/lp_milp.py)
    from vf.pool import pmap
    use_repo()
    rng = random.Random(ctx.seed)
    q = ctx.quick
    tasks = []
    samples = []

    # ---- small-scope exhaustive spaces, entries in -2..2, both senses
    def exh(n, m, n_simplex, frac_interior, csize):
        """n_simplex=None: whole space (both senses) through solve_lp; interior on a `frac_interior` share."""
        size = 5 ** shape_digits(n, m)
        total = size * 2
        if n_simplex is None or n_simplex >= total:
            picks = [(i, mn) for i in range(size) for mn in (True, False)]
            full = True
        else:
            picks = [(p // 2, bool(p % 2)) for p in sorted(rng.sample(range(total), n_simplex))]
            full = False
        if frac_interior >= 1:
            items = [(i, mn, True) for i, mn in picks]
            n_int = len(items)
        else:
            chosen = set(rng.sample(range(len(picks)), int(len(picks) * frac_interior)))
            items = [(i, mn, k in chosen) for k, (i, mn) in enumerate(picks)]
            n_int = len(chosen)
        for ch in _chunks(items, csize):
            tasks.append(("exh", n, m, ch))
        ctx.scope(f"small scope n={n} m={m}, every c/A/b entry in -2..2, min and max" + ("" if full else " (seeded sample)"), space=total, solve_lp_cases=len(items),
                  solve_lp_interior_cases=n_int, exhaustive=full, interior_exhaustive=full and frac_interior >= 1)
        return full and frac_interior >= 1

    ex_all = [
        exh(1, 1, None, 1, 50),
        exh(1, 2, None, 0.25 if q else 1, 200),
        exh(2, 1, None, 0.25 if q else 1, 200),
        exh(1, 3, 30000 if q else None, 0.05 if q else 1, 400),
        exh(2, 2, 40000 if q else None, 0.06 if q else 1, 400),
    ]
    ctx.exhaustive = all(ex_all)

    # ---- seeded structured random space
    R = 36000 if q else 400000
    RI = 4000 if q else 45000
    RB = 9000 if q else 60000
    RIB = 2400 if q else 20000
    cases = []
    kinds = Counter()
    for k in range(R):
        kind, c, A, b, mn = gen_case(rng)
        kinds[kind] += 1
        s_opts = [{}]
        i_opts = [{}] if k < RI else []
        if k % (R // RB) == 0:
            s_opts.append({"max_iter": rng.choice((1, 1, 2, 3, 5))})
        if k % (R // RIB) == 1:
            i_opts.append(rng.choice(({"max_iter": 0}, {"max_iter": 1}, {"max_iter": 2}, {"max_iter": 5}, {"max_iter": 20},
                                      {"eps": 1e-6}, {"eps": 1e-6, "max_iter": 30})))
        cases.append((c, A, b, mn, s_opts, i_opts))
        if len(samples) < 10 and k % 7 == 0:
            samples.append({"kind": kind, "c": c, "A": A, "b": b, "minimize": mn})
    # interior-heavy cases first so the pool balances
    for ch in _chunks(cases[:RI], 40):
        tasks.append(("cases", ch))
    for ch in _chunks(cases[RI:], 500):
        tasks.append(("cases", ch))
    ctx.scope("seeded structured random LPs", runs=R, n="1..5", m="1..5 (box kind up to 6)", data="integers -6..6 and half-integers (ints or floats)",
              kinds=dict(kinds), solve_lp_interior_default_runs=RI, solve_lp_max_iter_limited_runs="~%d (max_iter in 1,2,3,5)" % RB,
              solve_lp_interior_option_runs="~%d (max_iter in 0,1,2,5,20,30; eps 1e-6)" % RIB, exhaustive=False)

    # ---- round-2 families: size ladder (planted), unplanted random with the exact oracle, history mode, dyadic numerics
    if q:
        lplan = [(30, 300), (63, 150), (64, 200), (65, 150), (100, 100), (130, 40), (200, 16)]
        iplan = [(30, 40, False), (64, 16, False), (100, 4, False), (130, 2, False), (200, 2, True)]
        rplan = [("packing", [(20, 10), (15, 15), (10, 20)], 90),
                 ("packing", [(50, 14), (47, 16), (32, 32), (40, 24), (33, 32), (32, 31), (48, 17)], 120),
                 ("packing", [(50, 29), (60, 19), (40, 40), (45, 40)], 60),
                 ("cone", [(12, 12), (15, 15), (20, 20), (20, 15)], 100), ("cone", [(25, 25), (22, 28)], 60), ("cone", [(30, 30), (32, 32)], 30),
                 ("cone-pos", [(20, 20), (25, 25)], 40),
                 ("mixed", [(15, 15), (10, 20), (20, 10)], 90), ("mixed", [(32, 32), (40, 24), (24, 40)], 40)]
        hplan = dict(small=200, small_len=8, fresh=40, planted=[(20, 10), (40, 24), (32, 32), (50, 20), (10, 20), (33, 32), (16, 48), (20, 10)], planted_len=5)
        NUM, NUM_PI = 8000, 0.05
    else:
        lplan = [(30, 1500), (63, 800), (64, 1000), (65, 800), (100, 500), (130, 250), (200, 120), (260, 24)]
        iplan = [(30, 300, False), (64, 100, False), (100, 30, False), (130, 12, False), (200, 8, True)]
        rplan = [("packing", [(20, 10), (15, 15), (10, 20)], 500),
                 ("packing", [(50, 14), (47, 16), (32, 32), (40, 24), (33, 32), (32, 31), (48, 17)], 700),
                 ("packing", [(50, 29), (60, 19), (40, 40), (45, 40)], 400), ("packing", [(60, 40), (50, 50)], 40),
                 ("cone", [(12, 12), (15, 15), (20, 20), (20, 15)], 600), ("cone", [(25, 25), (22, 28)], 400), ("cone", [(30, 30), (32, 32)], 200),
                 ("cone", [(40, 40)], 30), ("cone-pos", [(20, 20), (25, 25), (30, 30)], 300),
                 ("mixed", [(15, 15), (10, 20), (20, 10)], 500), ("mixed", [(32, 32), (40, 24), (24, 40)], 300), ("mixed", [(50, 50)], 30)]
        hplan = dict(small=2000, small_len=10, fresh=200, planted=[(20, 10), (40, 24), (32, 32), (50, 20), (10, 20), (33, 32), (16, 48), (64, 20)] * 8 + [(65, 65), (100, 30)], planted_len=6)
        NUM, NUM_PI = 80000, 0.05
    lspecs = ladder_specs(ctx.seed, lplan, iplan, q)
    rspecs = rexact_specs(ctx.seed, rplan)
    hspecs = [{"mode": "small", "len": hplan["small_len"], "seed": f"{ctx.seed}/history/small/{k}", "fresh": k < hplan["fresh"]} for k in range(hplan["small"])]
    hspecs += [{"mode": "planted", "n": n_, "m": m_, "len": hplan["planted_len"], "seed": f"{ctx.seed}/history/planted/{k}", "fresh": k % 4 == 0}
               for k, (n_, m_) in enumerate(hplan["planted"])]
    nspecs = [{"seed": f"{ctx.seed}/numeric/{k}", "count": 200, "p_interior": NUM_PI} for k in range(NUM // 200)]

    def pack(kind, specs, cost, target=1.5):
        """the expensive instances first and alone, the cheap ones grouped: keeps the pool balanced"""
        out, cur, acc = [], [], 0.0
        for sp in sorted(specs, key=cost, reverse=True):
            cur.append(sp)
            acc += cost(sp)
            if acc >= target:
                out.append((acc, (kind, cur)))
                cur, acc = [], 0.0
        if cur:
            out.append((acc, (kind, cur)))
        return out

    big = pack("ladder", lspecs, ladder_cost) + pack("rexact", rspecs, rexact_cost)
    big.sort(key=lambda t: -t[0])
    hist_tasks = [("history", ch) for ch in _chunks([h for h in hspecs if h["mode"] == "planted"], 2)] + \
                 [("history", ch) for ch in _chunks([h for h in hspecs if h["mode"] == "small"], 10)]
    from checks import C03_round3
    sspecs = C03_round3.struct_specs(ctx.seed, q)
    struct_tasks = [t for _, t in pack("struct", sspecs, C03_round3.spec_cost, 1.0 if q else 4.0)]
    tasks = [t for _, t in big] + hist_tasks + struct_tasks + tasks + [("numeric", [sp]) for sp in nspecs]
    by_T = Counter((sp["T"], "solve_lp+interior" if sp["interior"] else "solve_lp") for sp in lspecs)
    ctx.scope("size ladder: planted LPs (verdict by construction, certificate checked in Fractions)",
              runs=len(lspecs), n_plus_m={f"~{T} ({fn})": v for (T, fn), v in sorted(by_T.items())},
              shapes="wide (n ~ 3m), square, tall (m ~ 3n), each also shifted by one", styles=sorted(set(sp["style"] for sp in lspecs)),
              planted_verdicts=dict(Counter(sp["truth"] for sp in lspecs)), data="integers (|a_ij| <= ~8), right-hand sides k/2 in the half-integer style",
              heavy_styles_excluded_in_quick_at_n_plus_m_ge_130=list(HEAVY_STYLES) if q else [], exhaustive=False)
    ctx.scope("unplanted random LPs judged by the exact Fraction simplex (certificate re-validated)", runs=len(rspecs),
              kinds={f"{k} {shapes}": cnt_ for k, shapes, cnt_ in rplan}, exhaustive=False)
    ctx.scope("history mode: one process, the same c/A/b/row list objects rewritten in place between calls", sequences=len(hspecs),
              small_sequences=hplan["small"], calls_per_small_sequence=hplan["small_len"], planted_sequences=len(hplan["planted"]),
              calls_per_planted_sequence=hplan["planted_len"], planted_shapes=sorted(set(hplan["planted"])),
              edits="repeat the call / change one entry of A, b or c / flip the sense / append or delete a row or column / swap, negate, duplicate rows / a whole new LP; "
                    "planted: relax slack rows (certificate stays valid) / a new planted LP of the same shape",
              fresh_process_comparisons="2 steps of %d sequences" % (hplan["fresh"] + len([h for h in hspecs if h["mode"] == "planted" and h["fresh"]])), exhaustive=False)
    ctx.scope("dyadic numerics on small structured LPs (exact oracle)", runs=NUM, gaps="2^-p, p in %s, added to b (relaxing) and to the minimised cost (raising)" % (GAPS,),
              scalings="c or b by 2^k (|k| <= 10), single rows / columns by 2^k (|k| <= 6)", solve_lp_interior_share=NUM_PI, exhaustive=False)

    ctx.scope("structured LPs (growth chains, Klee-Minty, staircase, transportation, assignment, wedges; exact oracle)", runs=len(sspecs),
              families=dict(Counter(sp["fam"] for sp in sspecs)), transforms=dict(Counter(t for sp in sspecs for t in sp.get("tf", ()))),
              sense_flipped=sum(1 for sp in sspecs if sp.get("as_min")),
              chain="x_1 <= b1, x_{k+1} - f x_k <= step; f in %s; K per f: %s; b1, step in {0,1}; side profits %s; objective %s; chain weight 1 or 10; "
                    "phase-1 row %s; a share without the first row" % (sorted(C03_round3.CHAIN_K), {f: list(Ks) for f, Ks in C03_round3.CHAIN_K.items()},
                                                                       [[p for p, _ in sd] for sd in C03_round3.SIDES], list(C03_round3.OBJS), list(C03_round3.REQS)),
              chain_grid="quick: seeded sample of the grid below tableau growth 1e5 (most of it at 1e3..1e5) + a fixed core at the last rungs below 1e5 "
                         "+ a few above; thorough: the whole grid below 1e5 + 2500 above",
              tag="obligation suffix%r when tableau_growth(c, A, b) >= 1e5 (decided from the data alone)" % C03_round3.ILL, exhaustive=False)

    results = pmap(work, tasks, chunksize=1)
    cnt = Counter()
    n_eval = 0
    nts = set()
    allv = []
    for viol, k, nt, ne in results:
        cnt.update(k)
        n_eval += ne
        nts.update(nt)
        allv.extend(viol)
    # violations outside the two recorded input classes first, then smallest inputs first: those become the replay files
    allv.sort(key=lambda v: (v[0].endswith(LARGE) or v[0].endswith(C03_round3.ILL), _case_size(v[1]), repr(v[1])))
    smallest = {}
    for ob, case, det in allv:
        smallest.setdefault(ob + ("" if case.get("opts") else " [default options]"), {"case": case, "detail": det})
        ctx.violation(ob, case, det)
    if smallest:
        ctx.notes["smallest_violation_per_obligation"] = smallest
    ctx.count(n_eval, nts, samples)
    ctx.notes["outcome_counts"] = {k: v for k, v in sorted(cnt.items()) if not k.startswith("feature:") and not k.startswith("violat")}
    ctx.notes["feature_counts"] = {k[8:]: v for k, v in sorted(cnt.items()) if k.startswith("feature:")}
    ctx.notes["violation_counts"] = {k: v for k, v in sorted(cnt.items()) if k.startswith("violat")}
    ctx.notes["solve_lp_MAX_ITER_excused_default_budget"] = sum(v for k, v in cnt.items() if "solve_lp:" in k and k.endswith("->MAX_ITER"))
    ctx.notes["solve_lp_cpu_budget_excused"] = cnt.get("cpu_budget_excused", 0)
    # non-vacuity of the round-2 families
    for fam in ("ladder", "random-exact"):
        for t in ("optimal", "infeasible", "unbounded"):
            if not cnt.get(f"feature:{fam}:truth:{t}"):
                ctx.defects.append(f"{fam}: no LP was {t}")
        for f in ("n+m>=64", "neg-rhs/phase1", ">=80%-zero-rhs"):
            if not cnt.get(f"feature:{fam}:{f}"):
                ctx.defects.append(f"{fam}: feature {f} never occurred")
    for f in ("family:chain", "family:km-small", "family:km-classic", "family:staircase", "family:transport", "family:assignment", "family:wedge",
              "truth:optimal", "truth:infeasible", "truth:unbounded", "transform:perm", "transform:dual", "transform:dup", "transform:sense-flipped",
              "neg-rhs/phase1", "growth 1e3..1e5", "growth>=1e5 (tagged)", "optimal-dual>=1000*max|data|", "untagged:dual>=1000*max|data|",
              "untagged:cost-ratio>=1000"):
        if not cnt.get("feature:structured:" + f):
            ctx.defects.append(f"structured: feature {f} never occurred")
    if not cnt.get("feature:ladder:n+m>=128"):
        ctx.defects.append("ladder: no LP with n+m >= 128")
    if not cnt.get("history:identical-to-fresh-process") and not cnt.get("history:differs-from-fresh-process"):
        ctx.defects.append("history: no fresh-process comparison was made")
    if cnt.get("history:fresh-process-failed"):
        ctx.defects.append(f"history: the fresh interpreter failed {cnt['history:fresh-process-failed']} times")
    # non-vacuity of the interior-point OPTIMAL / FEASIBLE clauses and of every truth class
    for sense in ("min", "max"):
        for st in ("OPTIMAL", "FEASIBLE"):
            if not any(k.startswith(f"interior:{sense}:") and k.endswith("->" + st) and v for k, v in cnt.items()):
                ctx.defects.append(f"solve_lp_interior never answered {st} under {sense}: that clause was not exercised")
    for t in ("optimal", "infeasible", "unbounded"):
        if not cnt.get("feature:truth:" + t):
            ctx.defects.append(f"no generated LP was {t}")
    ctx.rule = ("cases = (c, A, b, minimize[, options]); exhaustive spaces enumerate every c, A, b with entries in -2..2 for the "
                "listed shapes (quick tier: the listed seeded sample of the larger shapes), the random space draws one of the kinds "
                + ", ".join(KINDS) + " (degenerate vertices, parallel/duplicate/opposite rows, zero rows/columns, negative rhs, "
                "ratio-test ties, bound rows, contradictory rows). One evaluation = one solver call judged against the exact oracle. "
                "non-trivial = the exact oracle needed >= 1 pivot (the all-slack basis is not already optimal: includes every "
                "infeasible LP, every LP needing phase 1 and every unbounded LP); distinct = different (minimize, c, A, b). "
                "Round-2 families: size ladder = LPs built by oracles/lp_planted.py around a planted primal-dual pair / feasible point + ray / "
                "Farkas vector from the seed string in the case, n + m ~ 30..200 (thorough: ..260), solve_lp on all and solve_lp_interior on the "
                "listed share; random-exact = unplanted packing / cone (60-100 % zero rhs) / mixed LPs up to n + m ~ 85 (thorough ~100) with the exact "
                "oracle; history = sequences of calls on one set of list objects rewritten in place, one evaluation per call (+1 per "
                "fresh-process comparison); numerics = gen_case LPs rescaled by powers of two / shifted by dyadic gaps. For those families "
                "non-trivial is decided from the data by the equivalent rule (some b_i < 0 or some cost coefficient improving at x = 0) and "
                "distinct is by SHA-1 of (minimize, c, A, b). Round 3: structured = the spec dict in the case (family + parameters + "
                "transforms) rebuilt by checks/C03_round3.build, truth by the exact oracle, same non-trivial / distinct rule")
    ctx.assumptions += [
        "domain: m >= 1, n >= 1, finite int/float data (check_matrix_dims rejects an empty A); default eps of both solvers",
        "tau = 1e-6*(1+max|data|) for solve_lp; tau' = 10*eps*(n+m+||x*||+||y*||)+1e-9 for solve_lp_interior OPTIMAL (DESIGN C03); "
        "FEASIBLE residual bound 0.01 (+1e-9 for the solver's own float evaluation of the residual)",
        "solve_lp answers with status MAX_ITER are excused by the statement (counted in solve_lp_MAX_ITER_excused_default_budget)",
        "the returned floats are judged in exact rational arithmetic (Fraction of the float), so the checker adds no rounding of its own; "
        "only the FEASIBLE residual clause allows the unavoidable double-precision evaluation error (n+2)*2^-52*(sum|a_ij x_j|+|b_i|) per row, "
        "which matters solely for diverging iterates of size ~1e150+ on unbounded LPs",
        "bounded: nothing is claimed beyond the enumerated / sampled inputs",
        "size ladder / history: solve_lp runs under a CPU-time (ITIMER_VIRTUAL) budget of 40 s (n+m <= 70), 150 s (<= 135), 600 s (larger) - at "
        "least 20x what the unchanged tree needs; a budget hit is excused like MAX_ITER and counted in solve_lp_cpu_budget_excused (0 on /repo)",
        "numerics: only b and the cost row carry dyadic gaps (2^-16..2^-40), only in the directions that cannot create an LP whose verdict hinges on "
        "a margin below the solver's absolute eps (1e-10); A is rescaled by exact powers of two only - near-parallel rows or data of size 1e-10 are "
        "outside 'well-scaled LPs (integer or small rational data)'",
        "history: a verdict that differs between this process and a fresh interpreter is filed under ensures:verdict-is-a-function-of-the-LP "
        "(a consequence of the three 'exactly when' clauses); bitwise differences that stay within tau are only counted",
    ]
    ctx.assumptions += [
        "structured family: an input with tableau_growth(c, A, b) = basis_growth(A) * max(1, max|c|, max|b|) >= 1e5 (largest product of coefficient "
        "ratios along a simple path of rows that bound one variable by multiples of others - read off the data, invariant under permutation and row "
        "scaling; = f^(K-1) on a growth chain and on its dual) is 'ill-conditioned by construction': its violations carry the obligation suffix"
        + repr(C03_round3.ILL) + " (class-level finding: the solver's absolute eps = 1e-10 is reached by rounding noise of size growth * 2^-52 * (a few); "
        "the unchanged tree gives wrong verdicts from growth 1.7e5 on and none on 120 000 chain LPs below 1e5). What this gives up: a NEW defect that only "
        "shows at growth >= 1e5 is not told apart from the recorded class. The tag is applied on the structured family only; every other family is "
        "judged untagged as before",
        "structured family: tolerances relative to the size of the compared quantities, tau_q = 1e-6 * (1 + max(max|data|, S_q)), S_q = sum_j |a_ij x_j| "
        "(row i), max|x_j| (non-negativity), sum_j |c_j x_j| (objective = c.x), sum_j |c_j x*_j| (objective = OPT): the solutions reach 1e5 .. 1e12 "
        "from data <= 10 there, and growth * 2^-53 relative error is what double precision delivers; where |x| <= max|data| this is the plain tau. "
        "solve_lp_interior is not run on this family (it never answers OPTIMAL there, so its clauses would be vacuous)",
    ]
    ctx.trusted += [
        "oracles/lp_exact.py: check_certificate (weak duality / Farkas / recession ray in Fraction arithmetic); the Fraction simplex that "
        "produces the certificates is not trusted (every answer is re-validated), cross-checked against vertex enumeration by its self test",
        "fractions.Fraction, float -> Fraction conversion",
        "oracles/lp_planted.py is NOT trusted for verdicts: each planted certificate is validated by check_certificate against the generated data "
        "before use (and again from the JSON strings on replay)",
    ]


def replay(rec) -> int:
    use_repo()
    case = rec["case"]
    if case.get("fn") == "history":
        steps = case["steps"]
        print(f"replay history of {len(steps)} calls on one set of argument objects ({case.get('gen')}):")
        for k, st in enumerate(steps):
            print(f"  step {k + 1}: {st['fn']}({'min' if st['minimize'] else 'max'} c={_short(st['c'])} A={_short(st['A'])} b={_short(st['b'])} opts={st['opts']})")
        viol, cnt, _ = play_history(steps, compare_at={len(steps) - 1})
        for k, v in sorted(cnt.items()):
            print(f"  {k}: {v}")
        for ob, k, det in viol:
            print("  violated:", ob, "::", det)
        if not viol:
            print("  no violation")
        return 1 if viol else 0
    c, A, b, mn, opts = case["c"], case["A"], case["b"], case["minimize"], case.get("opts") or {}
    if "oracle" in case:  # planted / stored certificate: re-validated against the data, nothing is taken on trust
        orc = cert_from_json(c, A, b, mn, case["oracle"])
        how = "certificate from the replay file, re-validated"
    else:
        orc = oracle(c, A, b, mn)
        how = "exact simplex"
    print(f"replay {case['fn']}({'min' if mn else 'max'} c={_short(c)} A={_short(A)} b={_short(b)} opts={opts}) family={case.get('family', 'small-scope')} "
          f"gen={case.get('gen')}; oracle ({how}): {orc['status']} objective={orc['objective']} certificate={_short(_cert_str(orc), 600)}")
    if case["fn"] == "solve_lp":
        bad, st = eval_simplex(c, A, b, mn, opts, orc, bool(case.get("rel")))
        if case.get("family") == "structured":
            from checks import C03_round3
            g = C03_round3.tableau_growth(c, A, b)
            print(f"tableau growth of the input: {float(g):.4g} -> obligation suffix {(shape_tag(len(c), len(b)) + C03_round3.cond_tag(c, A, b))!r}")
    else:
        bad, st = eval_interior(c, A, b, mn, opts, orc)
    print("solver status:", st)
    for ob, det in bad:
        print("  violated:", ob, "::", _short(det, 1200))
    if not bad:
        print("  no violation")
    return 1 if bad else 0


def _short(x, k=400):
    t = x if isinstance(x, str) else json.dumps(x)
    return t if len(t) <= k else t[: k // 2] + f" ...[{len(t)} chars]... " + t[-k // 4:]

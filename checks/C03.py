"""C03 - LP verdicts and optima are exact (solve_lp; solve_lp_interior when it says OPTIMAL / FEASIBLE).

Bounded back end only.  Top-level contract taken from the property statement, evaluated on the real
`solvor.simplex.solve_lp` and `solvor.interior_point.solve_lp_interior` against the exact certificate-producing
oracle `oracles.lp_exact` (Fraction simplex; every oracle verdict is re-validated from its certificate).

Contract (statement -> obligations)
  solve_lp, status != MAX_ITER:
    OPTIMAL    <=> a finite optimum exists         C03/solve_lp/ensures:OPTIMAL-iff-finite-optimum
    INFEASIBLE <=> no feasible point               C03/solve_lp/ensures:INFEASIBLE-iff-empty
    UNBOUNDED  <=> feasible and unbounded          C03/solve_lp/ensures:UNBOUNDED-iff-unbounded
      (a wrong verdict is filed under the clause of the status that was *answered*)
    OPTIMAL => A x <= b + tau, x >= -tau           C03/solve_lp/ensures:point-feasible
    OPTIMAL => |objective - c.x| <= tau            C03/solve_lp/ensures:objective=c.x
    OPTIMAL => |objective - OPT| <= tau            C03/solve_lp/ensures:objective=OPT
    it answers at all (no exception, a Result)     C03/solve_lp/ensures:returns-a-verdict
    tau = 1e-6 * (1 + max|data|)                   (DESIGN "### C03")
    The same clauses under a tiny `max_iter` are filed under C03/solve_lp[max_iter-limited]/... so that a
    budget-handling defect is distinguishable from a defect at the default budget.
  solve_lp_interior:
    OPTIMAL => truth is 'optimal', point feasible within tau', |objective - OPT| <= tau'
                                                    C03/solve_lp_interior/ensures:OPTIMAL=>finite-optimum-exists
                                                    C03/solve_lp_interior/ensures:OPTIMAL=>point-feasible
                                                    C03/solve_lp_interior/ensures:OPTIMAL=>objective=OPT
    FEASIBLE => A x - b <= 0.01 (+1e-9), x >= 0    C03/solve_lp_interior/ensures:FEASIBLE=>residual<=0.01
    no exception on infeasible / unbounded input   C03/solve_lp_interior/ensures:no-crash-on-infeasible-or-unbounded
    no exception on an LP with a finite optimum    C03/solve_lp_interior/ensures:returns-a-verdict
    tau' = 10 * eps * (n_total + ||x*||_2 + ||y*||_2) + 1e-9, (x*, y*) the oracle's exact optimal pair of the
    slack form (DESIGN "### C03"), eps = the solver's `eps` argument (default 1e-8).
"""
from __future__ import annotations

import itertools
import math
import random
from collections import Counter
from fractions import Fraction

from vf.core import Ctx, use_repo

LEVEL = "exploration"

P = "C03/solve_lp"
PB = "C03/solve_lp[max_iter-limited]"
PI = "C03/solve_lp_interior"
VALS = (-2, -1, 0, 1, 2)
H = Fraction(1, 2)


# ================================================================================================ contract
def _key(c, A, b, minimize):
    return f"{int(minimize)}{list(c)}{[list(r) for r in A]}{list(b)}".replace(" ", "")


def _fr(v):
    return Fraction(v)


def _finite_point(sol, n):
    if not isinstance(sol, (tuple, list)) or len(sol) != n:
        return None
    out = []
    for v in sol:
        if not isinstance(v, (int, float)) or isinstance(v, bool) or v != v or v in (math.inf, -math.inf):
            return None
        out.append(Fraction(v))
    return out


def _finite(v):
    return isinstance(v, (int, float)) and not isinstance(v, bool) and v == v and abs(v) != math.inf


def _feas_excess(c, A, b, x):
    """(largest row excess A_i x - b_i, its row, most negative coordinate) exactly."""
    worst, wi = None, None
    for i, row in enumerate(A):
        e = sum((_fr(a) * v for a, v in zip(row, x)), Fraction(0)) - _fr(b[i])
        if worst is None or e > worst:
            worst, wi = e, i
    return worst, wi, min(x)


def oracle(c, A, b, minimize):
    from oracles.lp_exact import solve
    return solve(c, A, b, minimize)


def eval_simplex(c, A, b, minimize, opts, orc):
    """-> (list of (obligation, detail), status name or 'EXC')."""
    from solvor.simplex import solve_lp
    from solvor.types import Status
    pre = PB if "max_iter" in opts else P
    n = len(c)
    try:
        r = solve_lp(c, A, b, minimize=minimize, **opts)
        st = r.status
    except Exception as e:  # noqa: BLE001
        return [(f"{pre}/ensures:returns-a-verdict", f"raised {e!r}; truth: {orc['status']}")], "EXC"
    if st == Status.MAX_ITER:
        return [], "MAX_ITER"
    truth = orc["status"]
    name = st.name if isinstance(st, Status) else repr(st)
    clause = {"OPTIMAL": "OPTIMAL-iff-finite-optimum", "INFEASIBLE": "INFEASIBLE-iff-empty",
              "UNBOUNDED": "UNBOUNDED-iff-unbounded"}.get(name)
    if clause is None:
        return [(f"{pre}/ensures:returns-a-verdict", f"status {name} is not one of OPTIMAL/INFEASIBLE/UNBOUNDED/MAX_ITER; truth: {truth}")], name
    if name.lower() != truth:
        extra = f" (optimum {orc['objective']} at x={[str(v) for v in orc['x']]})" if truth == "optimal" else ""
        return [(f"{pre}/ensures:{clause}", f"answered {name} (x={r.solution}, objective={r.objective}, iterations={r.iterations}) "
                 f"but the LP is {truth}{extra}; oracle certificate: {_cert_str(orc)}")], name
    bad = []
    if name == "OPTIMAL":
        data = [abs(_fr(v)) for v in c] + [abs(_fr(v)) for row in A for v in row] + [abs(_fr(v)) for v in b]
        tau = Fraction(1, 10**6) * (1 + max(data))
        x = _finite_point(r.solution, n)
        if x is None or not _finite(r.objective):
            return [(f"{pre}/ensures:point-feasible", f"OPTIMAL with a non-finite / malformed answer x={r.solution} objective={r.objective}")], name
        ex, wi, mn = _feas_excess(c, A, b, x)
        if ex > tau:
            bad.append((f"{pre}/ensures:point-feasible", f"x={r.solution}: row {wi} exceeds b by {float(ex):.3g} > tau={float(tau):.3g}; true optimum {orc['objective']}"))
        if mn < -tau:
            bad.append((f"{pre}/ensures:point-feasible", f"x={r.solution} has a coordinate {float(mn):.3g} < -tau"))
        cx = sum((_fr(a) * v for a, v in zip(c, x)), Fraction(0))
        obj = Fraction(r.objective)
        if abs(obj - cx) > tau:
            bad.append((f"{pre}/ensures:objective=c.x", f"objective={r.objective} but c.x={float(cx)} at x={r.solution}"))
        if abs(obj - orc["objective"]) > tau:
            bad.append((f"{pre}/ensures:objective=OPT", f"objective={r.objective} but the true optimum is {orc['objective']} (x={r.solution}, x*={[str(v) for v in orc['x']]})"))
    return bad, name


def tau_interior(A, b, orc, eps):
    m, n = len(b), len(orc["x"])
    xs = list(orc["x"]) + [_fr(b[i]) - sum((_fr(a) * v for a, v in zip(A[i], orc["x"])), Fraction(0)) for i in range(m)]
    ys = orc["certificate"]["y"]
    nx = math.sqrt(float(sum(v * v for v in xs)))
    ny = math.sqrt(float(sum(v * v for v in ys)))
    return 10 * eps * ((n + m) + nx + ny) + 1e-9


def eval_interior(c, A, b, minimize, opts, orc):
    from solvor.interior_point import solve_lp_interior
    from solvor.types import Status
    n = len(c)
    truth = orc["status"]
    try:
        r = solve_lp_interior(c, A, b, minimize=minimize, **opts)
        st = r.status
    except Exception as e:  # noqa: BLE001
        ob = "no-crash-on-infeasible-or-unbounded" if truth != "optimal" else "returns-a-verdict"
        return [(f"{PI}/ensures:{ob}", f"raised {e!r} on an LP that is {truth}")], "EXC"
    name = st.name if isinstance(st, Status) else repr(st)
    bad = []
    if name == "OPTIMAL":
        if truth != "optimal":
            return [(f"{PI}/ensures:OPTIMAL=>finite-optimum-exists", f"answered OPTIMAL (x={r.solution}, objective={r.objective}) but the LP is {truth}; certificate: {_cert_str(orc)}")], name
        tp = tau_interior(A, b, orc, opts.get("eps", 1e-8))
        tpf = Fraction(tp)
        x = _finite_point(r.solution, n)
        if x is None or not _finite(r.objective):
            return [(f"{PI}/ensures:OPTIMAL=>point-feasible", f"OPTIMAL with a non-finite / malformed answer x={r.solution} objective={r.objective}")], name
        ex, wi, mn = _feas_excess(c, A, b, x)
        if ex > tpf or mn < -tpf:
            bad.append((f"{PI}/ensures:OPTIMAL=>point-feasible", f"x={r.solution}: worst row excess {float(ex):.3g} (row {wi}), min coordinate {float(mn):.3g}; tau'={tp:.3g}"))
        if abs(Fraction(r.objective) - orc["objective"]) > tpf:
            bad.append((f"{PI}/ensures:OPTIMAL=>objective=OPT", f"objective={r.objective} but the true optimum is {orc['objective']} (x={r.solution}, x*={[str(v) for v in orc['x']]}); tau'={tp:.3g}"))
    elif name == "FEASIBLE":
        x = _finite_point(r.solution, n)
        if x is None:
            return [(f"{PI}/ensures:FEASIBLE=>residual<=0.01", f"FEASIBLE with a non-finite / malformed point x={r.solution}")], name
        # Row excess judged exactly, up to the rounding that evaluating the row in double precision cannot avoid
        # (standard dot-product bound (n+2)*2^-52*(sum|a_ij x_j| + |b_i|)): negligible (< 1e-12) for points of ordinary
        # size, but a FEASIBLE answer on a diverging (unbounded) LP can have |x| ~ 1e250, where 0.01 absolute is below
        # one ulp of the terms and the documented float residual is all that can be meant.
        u = Fraction(n + 2, 2**52)
        worst, wi = None, None
        for i, row in enumerate(A):
            e = sum((_fr(a) * v for a, v in zip(row, x)), Fraction(0)) - _fr(b[i])
            allow = u * (sum((abs(_fr(a) * v) for a, v in zip(row, x)), Fraction(0)) + abs(_fr(b[i])))
            if worst is None or e - allow > worst:
                worst, wi = e - allow, i
        mn = min(x)
        if worst > Fraction(1, 100) + Fraction(1, 10**9) or mn < 0:
            bad.append((f"{PI}/ensures:FEASIBLE=>residual<=0.01", f"x={r.solution}: worst row excess (beyond float rounding) {float(worst):.4g} (row {wi}), min coordinate {float(mn):.3g}; the LP is {truth}"))
    return bad, name


def _cert_str(orc):
    ce = orc["certificate"]
    return "{" + ", ".join(f"{k}: {[str(x) for x in v] if isinstance(v, list) else v}" for k, v in ce.items()) + "}"


# ================================================================================================ input spaces
def shape_digits(n, m):
    return n + n * m + m


def decode(n, m, idx):
    """idx in [0, 5^(n+nm+m)) -> (c, A, b) with entries in -2..2 (c, then A row-major, then b)."""
    d = []
    for _ in range(shape_digits(n, m)):
        idx, r = divmod(idx, 5)
        d.append(VALS[r])
    c = d[:n]
    A = [d[n + i * n: n + (i + 1) * n] for i in range(m)]
    b = d[n + n * m:]
    return c, A, b


def _num(v: Fraction, as_float=False):
    if v.denominator == 1 and not as_float:
        return int(v)
    return float(v)


def _rv(rng, mag, zero=0.2, half=0.15):
    if rng.random() < zero:
        return Fraction(0)
    v = Fraction(rng.randint(-mag, mag))
    if rng.random() < half:
        v += H * rng.choice((-1, 1))
        if abs(v) > mag:
            v = Fraction(mag if v > 0 else -mag)
    return v


def _pos(rng, mag, half=0.15):
    v = Fraction(rng.randint(1, mag))
    if rng.random() < half and v > 1:
        v -= H
    return v


KINDS = ("uniform", "degenerate", "parallel", "zero", "phase1", "box", "ties", "unbounded", "infeasible", "equalities")


def gen_case(rng):
    """One structured LP: (kind, c, A, b, minimize) with int / half-integer data (floats when not integral)."""
    kind = rng.choice(KINDS)
    mag = rng.choice((2, 2, 3, 6))
    half = rng.choice((0.0, 0.0, 0.15, 0.4))
    n = rng.choice((1, 1, 2, 2, 2, 3, 3, 4, 5))
    m = rng.choice((1, 2, 2, 3, 3, 3, 4, 4, 5))
    minimize = rng.random() < 0.5

    def rv():
        return _rv(rng, mag, 0.2, half)

    A = [[rv() for _ in range(n)] for _ in range(m)]
    b = [rv() for _ in range(m)]
    w = [rv() for _ in range(n)]  # cost of the equivalent minimisation; c = w or -w
    if kind == "degenerate":
        x0 = [Fraction(rng.choice((0, 0, 1, 2, 3))) for _ in range(n)]
        if rng.random() < 0.3:
            x0[rng.randrange(n)] += H
        tight = [rng.random() < 0.75 for _ in range(m)]
        for i in range(m):
            b[i] = sum(a * v for a, v in zip(A[i], x0)) + (0 if tight[i] else rng.choice((0, 1, 2)))
        if rng.random() < 0.6:  # make x0 optimal: -w in the cone of the tight normals
            w = [Fraction(0)] * n
            for i in range(m):
                if tight[i]:
                    lam = rng.choice((0, 1, 1, 2))
                    w = [wj - lam * a for wj, a in zip(w, A[i])]
            for j in range(n):
                if x0[j] == 0:
                    w[j] += rng.choice((0, 0, 1))
    elif kind == "parallel" and m >= 2:
        for _ in range(rng.randint(1, 2)):
            i, j = rng.sample(range(m), 2)
            k = rng.choice((1, 1, 2, H, -1, -1, -2))
            A[j] = [k * a for a in A[i]]
            b[j] = k * b[i] + rng.choice((0, 0, 0, 1, -1))
        if m >= 3 and rng.random() < 0.4:  # the same equality stated twice: a dependent artificial row
            i, j, l = rng.sample(range(m), 3)
            A[j] = [-a for a in A[i]]
            b[j] = -b[i]
            A[l] = list(A[j] if rng.random() < 0.5 else A[i])
            b[l] = b[j] if A[l] == A[j] else b[i]
    elif kind == "zero":
        if rng.random() < 0.7:
            i = rng.randrange(m)
            A[i] = [Fraction(0)] * n
            b[i] = Fraction(rng.choice((0, 0, 1, 2, -1)))
        if rng.random() < 0.7:
            j = rng.randrange(n)
            for i in range(m):
                A[i][j] = Fraction(0)
            w[j] = Fraction(rng.choice((-1, 0, 0, 1, 2)))
        if rng.random() < 0.2:
            w = [Fraction(0)] * n
    elif kind == "phase1":
        for i in range(m):
            if rng.random() < 0.7:  # a ">=" row:  -a.x <= -beta
                A[i] = [-abs(v) if rng.random() < 0.8 else v for v in A[i]]
                if all(v == 0 for v in A[i]):
                    A[i][rng.randrange(n)] = Fraction(-1)
                b[i] = -Fraction(rng.randint(0, mag)) * rng.choice((1, 1, H))
            else:
                A[i] = [abs(v) for v in A[i]]
                b[i] = Fraction(rng.randint(0, 2 * mag))
    elif kind == "box":
        rows = []
        for j in rng.sample(range(n), rng.randint(1, n)):
            lo = Fraction(rng.randint(0, 3)) * rng.choice((1, 1, H))
            hi = lo + rng.choice((0, 0, 1, 2, -1))
            sl, su = rng.choice((1, 1, 2)), rng.choice((1, 1, 2))
            rows.append(([Fraction(-sl) if k == j else Fraction(0) for k in range(n)], -lo * sl))
            rows.append(([Fraction(su) if k == j else Fraction(0) for k in range(n)], hi * su))
            if rng.random() < 0.4:  # a second, weaker or stronger lower bound on the same variable
                lo2 = Fraction(rng.randint(0, 4)) * H
                rows.append(([Fraction(-1) if k == j else Fraction(0) for k in range(n)], -lo2))
        for i in range(rng.randint(0, 2)):
            rows.append((A[i % m], b[i % m]))
        rng.shuffle(rows)
        rows = rows[:6]
        A, b = [list(r[0]) for r in rows], [r[1] for r in rows]
        m = len(b)
    elif kind == "ties":
        e = rng.randrange(n)
        t = Fraction(rng.choice((0, 0, 1, 2))) * rng.choice((1, 1, H))
        for i in range(m):
            if rng.random() < 0.8:
                A[i][e] = _pos(rng, mag, half)
                b[i] = t * A[i][e]
            else:
                b[i] = abs(b[i]) + t * abs(A[i][e])
        w[e] = -_pos(rng, mag, half)
        for j in range(e):
            if rng.random() < 0.7:
                w[j] = abs(w[j])
    elif kind == "unbounded":
        j = rng.randrange(n)
        for i in range(m):
            A[i][j] = -abs(A[i][j]) if rng.random() < 0.9 else A[i][j]
        w[j] = -_pos(rng, mag, half)
        if rng.random() < 0.6:
            b = [abs(v) for v in b]
    elif kind == "infeasible":
        r = rng.random()
        if r < 0.5 and m >= 2:
            i, j = rng.sample(range(m), 2)
            k = rng.choice((1, 1, 2))
            A[j] = [-k * a for a in A[i]]
            b[j] = -k * b[i] - k * rng.choice((H, 1, 1, 2, 0))
        elif r < 0.8:
            i = rng.randrange(m)
            A[i] = [abs(a) for a in A[i]]
            b[i] = -_pos(rng, mag, half)
        else:  # a Farkas combination spread over three rows
            if m >= 3:
                i, j, l = rng.sample(range(m), 3)
                A[l] = [-(a + q) for a, q in zip(A[i], A[j])]
                b[l] = -(b[i] + b[j]) - 1
    elif kind == "equalities" and m >= 2:
        x0 = [Fraction(rng.choice((0, 1, 1, 2, 3))) * rng.choice((1, 1, H)) for _ in range(n)]
        q = 0
        while q + 1 < m:
            if rng.random() < 0.8:
                A[q + 1] = [-a for a in A[q]]
                b[q] = sum(a * v for a, v in zip(A[q], x0))
                b[q + 1] = -b[q]
                q += 2
            else:
                b[q] = sum(a * v for a, v in zip(A[q], x0)) + rng.choice((0, 1))
                q += 1
        if rng.random() < 0.5:
            order = list(range(m))
            rng.shuffle(order)
            A, b = [A[i] for i in order], [b[i] for i in order]
    c = w if minimize else [-v for v in w]
    fl = rng.random() < 0.25
    return (kind, [_num(v, fl) for v in c], [[_num(v, fl) for v in row] for row in A], [_num(v, fl) for v in b], minimize)


def features(c, A, b, orc):
    f = ["truth:" + orc["status"]]
    s = orc["stats"]
    if s["phase1"]:
        f.append("neg-rhs/phase1")
        if sum(1 for v in b if v < 0) >= 2:
            f.append("neg-rhs>=2")
    if s["degenerate_vertex"]:
        f.append("degenerate-vertex")
    if s["ratio_ties"]:
        f.append("ratio-test-tie")
    if s["degenerate_pivots"]:
        f.append("degenerate-pivot")
    if any(all(v == 0 for v in row) for row in A):
        f.append("zero-row")
    if any(all(row[j] == 0 for row in A) for j in range(len(c))):
        f.append("zero-column")
    par = dup = False
    for i in range(len(A)):
        for j in range(i + 1, len(A)):
            ri, rj = A[i], A[j]
            if any(ri) and any(rj) and all(ri[p] * rj[q] == ri[q] * rj[p] for p in range(len(ri)) for q in range(p + 1, len(ri))) \
                    and all((ri[p] == 0) == (rj[p] == 0) for p in range(len(ri))):
                par = True
                if ri == rj and b[i] == b[j]:
                    dup = True
    if par:
        f.append("parallel-rows")
    if dup:
        f.append("duplicate-rows")
    if any(isinstance(v, float) and v != int(v) for v in itertools.chain(c, b, *A)):
        f.append("half-integer-data")
    return f


# ================================================================================================ worker
def run_case(c, A, b, minimize, s_opts, i_opts):
    """-> (violations [(obligation, case, detail)], Counter, nontrivial key or None, n_eval)."""
    orc = oracle(c, A, b, minimize)
    cnt = Counter()
    viol = []
    sense = "min" if minimize else "max"
    for f in features(c, A, b, orc):
        cnt["feature:" + f] += 1
    n_eval = 0
    for o in s_opts:
        bad, st = eval_simplex(c, A, b, minimize, o, orc)
        n_eval += 1
        cnt[f"solve_lp{'[max_iter]' if o else ''}:{orc['status']}->{st}"] += 1
        for ob, det in bad:
            viol.append((ob, {"fn": "solve_lp", "c": c, "A": A, "b": b, "minimize": minimize, "opts": o}, det))
    for o in i_opts:
        bad, st = eval_interior(c, A, b, minimize, o, orc)
        n_eval += 1
        cnt[f"interior{'[opts]' if o else ''}:{sense}:{orc['status']}->{st}"] += 1
        for ob, det in bad:
            viol.append((ob, {"fn": "solve_lp_interior", "c": c, "A": A, "b": b, "minimize": minimize, "opts": o}, det))
    nt = _key(c, A, b, minimize) if orc["stats"]["pivots"] >= 1 else None
    return viol, cnt, nt, n_eval


def work(chunk):
    """chunk = ('exh', n, m, [(idx, minimize, do_interior)...]) or ('cases', [(c, A, b, minimize, s_opts, i_opts)...])."""
    use_repo()
    viol, cnt, nts, n_eval = [], Counter(), [], 0
    if chunk[0] == "exh":
        _, n, m, items = chunk
        it = ((*decode(n, m, idx), mn, [{}], [{}] if di else []) for idx, mn, di in items)
    else:
        it = chunk[1]
    for c, A, b, mn, so, io in it:
        v, k, nt, ne = run_case(c, A, b, mn, so, io)
        viol.extend(v)
        cnt["violations"] += len(v)
        for ob, _, _ in v:
            cnt["violated:" + ob] += 1
        cnt.update(k)
        n_eval += ne
        if nt:
            nts.append(nt)
    if len(viol) > 8:  # keep the 8 smallest per obligation; the totals are in cnt
        by = {}
        for v in sorted(viol, key=lambda v: (_case_size(v[1]), repr(v[1]))):
            by.setdefault(v[0], [])
            if len(by[v[0]]) < 8:
                by[v[0]].append(v)
        viol = [v for vs in by.values() for v in vs]
    return viol, cnt, nts, n_eval


def _case_size(case):
    n, m = len(case["c"]), len(case["b"])
    mag = sum(abs(v) for v in case["c"]) + sum(abs(v) for v in case["b"]) + sum(abs(v) for r in case["A"] for v in r)
    return (n * m, n + m, len(case.get("opts") or {}), mag)


def _chunks(seq, size):
    for i in range(0, len(seq), size):
        yield seq[i: i + size]


# ================================================================================================ driver
def run(ctx: Ctx):
    from vf.prove import prove
    prove(ctx, ["specs.lp_milp"], "C03")  # deductive part (specs/lp_milp.py)
    from vf.pool import pmap
    use_repo()
    rng = random.Random(ctx.seed)
    q = ctx.quick
    tasks = []
    samples = []

    # ---- small-scope exhaustive spaces, entries in -2..2, both senses
    def exh(n, m, n_simplex, frac_interior, csize):
        """n_simplex=None: whole space (both senses) through solve_lp; interior on a `frac_interior` share."""
        size = 5 ** shape_digits(n, m)
        total = size * 2
        if n_simplex is None or n_simplex >= total:
            picks = [(i, mn) for i in range(size) for mn in (True, False)]
            full = True
        else:
            picks = [(p // 2, bool(p % 2)) for p in sorted(rng.sample(range(total), n_simplex))]
            full = False
        if frac_interior >= 1:
            items = [(i, mn, True) for i, mn in picks]
            n_int = len(items)
        else:
            chosen = set(rng.sample(range(len(picks)), int(len(picks) * frac_interior)))
            items = [(i, mn, k in chosen) for k, (i, mn) in enumerate(picks)]
            n_int = len(chosen)
        for ch in _chunks(items, csize):
            tasks.append(("exh", n, m, ch))
        ctx.scope(f"small scope n={n} m={m}, every c/A/b entry in -2..2, min and max" + ("" if full else " (seeded sample)"), space=total, solve_lp_cases=len(items),
                  solve_lp_interior_cases=n_int, exhaustive=full, interior_exhaustive=full and frac_interior >= 1)
        return full and frac_interior >= 1

    ex_all = [
        exh(1, 1, None, 1, 50),
        exh(1, 2, None, 0.25 if q else 1, 200),
        exh(2, 1, None, 0.25 if q else 1, 200),
        exh(1, 3, 30000 if q else None, 0.05 if q else 1, 400),
        exh(2, 2, 40000 if q else None, 0.06 if q else 1, 400),
    ]
    ctx.exhaustive = all(ex_all)

    # ---- seeded structured random space
    R = 36000 if q else 400000
    RI = 4000 if q else 45000
    RB = 9000 if q else 60000
    RIB = 2400 if q else 20000
    cases = []
    kinds = Counter()
    for k in range(R):
        kind, c, A, b, mn = gen_case(rng)
        kinds[kind] += 1
        s_opts = [{}]
        i_opts = [{}] if k < RI else []
        if k % (R // RB) == 0:
            s_opts.append({"max_iter": rng.choice((1, 1, 2, 3, 5))})
        if k % (R // RIB) == 1:
            i_opts.append(rng.choice(({"max_iter": 0}, {"max_iter": 1}, {"max_iter": 2}, {"max_iter": 5}, {"max_iter": 20},
                                      {"eps": 1e-6}, {"eps": 1e-6, "max_iter": 30})))
        cases.append((c, A, b, mn, s_opts, i_opts))
        if len(samples) < 10 and k % 7 == 0:
            samples.append({"kind": kind, "c": c, "A": A, "b": b, "minimize": mn})
    # interior-heavy cases first so the pool balances
    for ch in _chunks(cases[:RI], 40):
        tasks.append(("cases", ch))
    for ch in _chunks(cases[RI:], 500):
        tasks.append(("cases", ch))
    ctx.scope("seeded structured random LPs", runs=R, n="1..5", m="1..5 (box kind up to 6)", data="integers -6..6 and half-integers (ints or floats)",
              kinds=dict(kinds), solve_lp_interior_default_runs=RI, solve_lp_max_iter_limited_runs="~%d (max_iter in 1,2,3,5)" % RB,
              solve_lp_interior_option_runs="~%d (max_iter in 0,1,2,5,20,30; eps 1e-6)" % RIB, exhaustive=False)

    results = pmap(work, tasks, chunksize=1)
    cnt = Counter()
    n_eval = 0
    nts = set()
    allv = []
    for viol, k, nt, ne in results:
        cnt.update(k)
        n_eval += ne
        nts.update(nt)
        allv.extend(viol)
    allv.sort(key=lambda v: (_case_size(v[1]), repr(v[1])))  # smallest inputs first: those become the replay files
    smallest = {}
    for ob, case, det in allv:
        smallest.setdefault(ob + ("" if case.get("opts") else " [default options]"), {"case": case, "detail": det})
        ctx.violation(ob, case, det)
    if smallest:
        ctx.notes["smallest_violation_per_obligation"] = smallest
    ctx.count(n_eval, nts, samples)
    ctx.notes["outcome_counts"] = {k: v for k, v in sorted(cnt.items()) if not k.startswith("feature:") and not k.startswith("violat")}
    ctx.notes["feature_counts"] = {k[8:]: v for k, v in sorted(cnt.items()) if k.startswith("feature:")}
    ctx.notes["violation_counts"] = {k: v for k, v in sorted(cnt.items()) if k.startswith("violat")}
    ctx.notes["solve_lp_MAX_ITER_excused_default_budget"] = sum(v for k, v in cnt.items() if k.startswith("solve_lp:") and k.endswith("->MAX_ITER"))
    # non-vacuity of the interior-point OPTIMAL / FEASIBLE clauses and of every truth class
    for sense in ("min", "max"):
        for st in ("OPTIMAL", "FEASIBLE"):
            if not any(k.startswith(f"interior:{sense}:") and k.endswith("->" + st) and v for k, v in cnt.items()):
                ctx.defects.append(f"solve_lp_interior never answered {st} under {sense}: that clause was not exercised")
    for t in ("optimal", "infeasible", "unbounded"):
        if not cnt.get("feature:truth:" + t):
            ctx.defects.append(f"no generated LP was {t}")
    ctx.rule = ("cases = (c, A, b, minimize[, options]); exhaustive spaces enumerate every c, A, b with entries in -2..2 for the "
                "listed shapes (quick tier: the listed seeded sample of the larger shapes), the random space draws one of the kinds "
                + ", ".join(KINDS) + " (degenerate vertices, parallel/duplicate/opposite rows, zero rows/columns, negative rhs, "
                "ratio-test ties, bound rows, contradictory rows). One evaluation = one solver call judged against the exact oracle. "
                "non-trivial = the exact oracle needed >= 1 pivot (the all-slack basis is not already optimal: includes every "
                "infeasible LP, every LP needing phase 1 and every unbounded LP); distinct = different (minimize, c, A, b)")
    ctx.assumptions += [
        "domain: m >= 1, n >= 1, finite int/float data (check_matrix_dims rejects an empty A); default eps of both solvers",
        "tau = 1e-6*(1+max|data|) for solve_lp; tau' = 10*eps*(n+m+||x*||+||y*||)+1e-9 for solve_lp_interior OPTIMAL (DESIGN C03); "
        "FEASIBLE residual bound 0.01 (+1e-9 for the solver's own float evaluation of the residual)",
        "solve_lp answers with status MAX_ITER are excused by the statement (counted in solve_lp_MAX_ITER_excused_default_budget)",
        "the returned floats are judged in exact rational arithmetic (Fraction of the float), so the checker adds no rounding of its own; "
        "only the FEASIBLE residual clause allows the unavoidable double-precision evaluation error (n+2)*2^-52*(sum|a_ij x_j|+|b_i|) per row, "
        "which matters solely for diverging iterates of size ~1e150+ on unbounded LPs",
        "bounded: nothing is claimed beyond the enumerated / sampled inputs",
    ]
    ctx.trusted += [
        "oracles/lp_exact.py: check_certificate (weak duality / Farkas / recession ray in Fraction arithmetic); the Fraction simplex that "
        "produces the certificates is not trusted (every answer is re-validated), cross-checked against vertex enumeration by its self test",
        "fractions.Fraction, float -> Fraction conversion",
    ]


def replay(rec) -> int:
    use_repo()
    case = rec["case"]
    c, A, b, mn, opts = case["c"], case["A"], case["b"], case["minimize"], case.get("opts") or {}
    orc = oracle(c, A, b, mn)
    print(f"replay {case['fn']}({'min' if mn else 'max'} c={c} A={A} b={b} opts={opts}); oracle: {orc['status']} "
          f"objective={orc['objective']} certificate={_cert_str(orc)}")
    bad, st = (eval_simplex if case["fn"] == "solve_lp" else eval_interior)(c, A, b, mn, opts, orc)
    print("solver status:", st)
    for ob, det in bad:
        print("  violated:", ob, "::", det)
    if not bad:
        print("  no violation")
    return 1 if bad else 0

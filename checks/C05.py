"""C05 - CP Model.solve never returns an assignment that breaks an added constraint (bounded back end)."""
import random

from checks import cp_common as C
from checks import cp_round2 as R
from oracles import cp_sem
from vf.core import use_repo
from vf.pool import pmap

LEVEL = "exploration"


def cases_for(models, rng, quick):
    cases = []
    for d in models:
        desc = {"vars": d["vars"], "constraints": d["constraints"]}
        for solver in ("auto", "dfs", "sat"):
            for sl in (1, 50):
                cases.append({"desc": desc, "solver": solver, "solution_limit": sl, "hints": None, "family": d["family"]})
        # a hint on the first variable (a value inside its domain)
        n, lb, ub = d["vars"][0]
        h = {n: rng.randint(lb, ub)}
        for solver in ("dfs", "sat"):
            cases.append({"desc": desc, "solver": solver, "solution_limit": 1, "hints": h, "family": d["family"]})
    return cases


def run(ctx):
    use_repo()
    rng = random.Random(ctx.seed)
    models = C.gen_models(ctx.seed, ctx.quick)
    cases = cases_for(models, rng, ctx.quick)
    chunks = [cases[i:i + 60] for i in range(0, len(cases), 60)]
    res = pmap(C.eval_c05_chunk, chunks, chunksize=1)
    n = 0
    nontriv = set()
    fam = {}
    samples = []
    claims = {}
    rejected = 0
    for ch in res:
        for c, viol, info in ch:
            if "skipped" in info:
                continue
            n += 1
            fam[c["family"]] = fam.get(c["family"], 0) + 1
            if "rejected" in info:
                rejected += 1
            key = repr((c["desc"], c["hints"]))
            if info.get("feasible_claim") is not None and c["solution_limit"] == 1:
                claims.setdefault(key, {})[c["solver"]] = info["feasible_claim"]
            # non-trivial: the constraint set rules out at least one assignment of the domain box and the box has >= 2 points
            box = 1
            for _, lb, ub in c["desc"]["vars"]:
                box *= (ub - lb + 1)
            if box >= 2 and info.get("n_ref", box) < box:
                nontriv.add(repr((c["desc"], c["solver"], c["solution_limit"], c["hints"])))
            if len(samples) < 6 and n % 1571 == 0:
                samples.append({k: c[k] for k in ("desc", "solver", "solution_limit", "hints")})
            for ob, detail in viol:
                ctx.violation(ob, {k: c[k] for k in ("desc", "solver", "solution_limit", "hints")}, detail)
    for key, cl in claims.items():
        if "dfs" in cl and "sat" in cl and cl["dfs"] != cl["sat"]:
            ctx.violation("C05/Model.solve/ensures:back-ends-agree-on-satisfiability", {"model": key}, f"dfs says {cl['dfs']}, sat says {cl['sat']}")
    ctx.count(n, nontriv, samples or [cases[0]])
    ctx.scope("small scope: CP models by family (x solver x solution_limit x hints), judged by brute force", **fam)
    ctx.notes["explicit_rejections"] = rejected
    large(ctx)
    history(ctx)
    ctx.rule = ("(1) small scope: models built through the public constructors/operators from an independent description: every expression template of "
                "cp_common.rel_templates over 1..3 variables and several domain boxes, every global constraint, pairs of constraints; "
                "x solver in {auto,dfs,sat} x solution_limit in {1,50} x hints; non-trivial = constraint set excludes at least one point of a box with >= 2 points. "
                "(2) size ladder (cp_round2.gen_large): structured models with 10..1000+ variables (all_different shapes, circuits, cumulative / no_overlap with many tasks, "
                "long sums and linear relations, block-structured, latin squares, queens, chains, cycles, pigeonhole, enumerations) x solver x {no hints, half of a planted "
                "solution as hints, complete probe assignments as hints}; returned assignments are checked directly, INFEASIBLE against the planted solution / a probe that "
                "passes the direct check; non-trivial = at least one probe of the model fails the direct check or the model carries an infeasibility certificate. "
                "(3) history mode (cp_round2.gen_histories): sessions on ONE Model object (int_var/add/solve interleaved, same call repeated, one hints dict reused), every solve "
                "judged by brute force on the model as it is at that call, against a freshly built model and (last call) a fresh process; non-trivial = solution set smaller than the box. "
                "distinct = different (model or session prefix, solver, limit, hints)")
    ctx.assumptions += ["oracle: brute-force enumeration of the domain box with the reference semantics of oracles/cp_sem.py (DESIGN 7 C05)",
                        "an explicit exception (ValueError/TypeError/NotImplementedError) for a shape the solver does not support counts as 'rejected', not as a violation",
                        "anonymous (unnamed) variables are not generated",
                        "INFEASIBLE under hints is judged against assignments that agree with the (in-domain) hints: hints are hard restrictions",
                        "size ladder: a solve that exceeds its CPU budget, or ends with MAX_ITER, is counted (large_timeouts) and not judged; INFEASIBLE is only judged when a witness is known",
                        "history mode: 'same answer as a freshly built model' compares the feasibility claim and, when both enumerations stopped before solution_limit, the solution sets"]
    ctx.trusted += ["oracles/cp_sem.py (reference semantics, direct check `violated`, Kuhn matching for all_different certificates)"]


def _digest(x):
    import hashlib, json
    return hashlib.sha1(json.dumps(x, sort_keys=True).encode()).hexdigest()[:12]


def large(ctx):
    models = R.gen_large(ctx.seed, ctx.quick, "C05")
    cases = R.c05_cases(models, ctx.seed, ctx.quick)
    for c in cases:
        # CPU budget per solve; the DFS solver (weak propagation) thrashes on some models: those runs are counted, not judged
        uses_dfs = c["solver"] == "dfs" or (c["solver"] == "auto" and {k[0] for k in c["desc"]["constraints"]} <= {"rel", "all_different"})
        c["cpu_s"] = (8 if uses_dfs else 15) if ctx.quick else (25 if uses_dfs else 240)
    cases.sort(key=lambda c: -(c["size"] if not c.get("hints") else 0))  # the long solves first
    res = pmap(R.eval_c05_large_one, cases, chunksize=1)
    fam, nontriv, samples, claims = {}, set(), [], {}
    n = timeouts = rejected = 0
    timed_out = {}
    bad_probe = {}
    for d in models:
        bad_probe[_digest(d["desc"])] = bool(d.get("cert")) or any(cp_sem.violated(d["desc"], a) for a in d["probes"])
    per_ob = {}
    for c, (viol, info) in zip(cases, res):
        if "skipped" in info:
            continue
        if "timeout" in info:
            timeouts += 1
            timed_out[f"{c['family']}[{c['solver']}]"] = timed_out.get(f"{c['family']}[{c['solver']}]", 0) + 1
            continue
        n += 1
        if "rejected" in info:
            rejected += 1
        key = f"{c['family']}"
        fam.setdefault(key, set()).add(c["size"])
        dk = _digest(c["desc"])
        ck = (dk, c["solver"], c["solution_limit"], _digest(c["hints"]))
        if bad_probe.get(dk):
            nontriv.add(repr(ck))
        if info.get("feasible_claim") is not None and c["solution_limit"] == 1:
            claims.setdefault((dk, _digest(c["hints"])), {})[c["solver"]] = (info["feasible_claim"], c)
        if "oracle_conflict" in info:
            ctx.defects.append(f"C05 size ladder {c['family']} n={c['size']}: {info['oracle_conflict']}")
        if len(samples) < 4 and n % 397 == 0:
            samples.append({"family": c["family"], "size": c["size"], "solver": c["solver"], "hints": "probe" if c.get("probe") else bool(c["hints"]), "status": info.get("status")})
        for ob, detail in viol:
            per_ob.setdefault(ob, []).append((c["size"], len(c["desc"]["vars"]), c, detail))
    for ob, lst in per_ob.items():
        lst.sort(key=lambda t: t[:2])
        for _, _, c, detail in lst[:3]:
            ctx.violation(ob + "[size-ladder]", {"kind": "large", **{k: c.get(k) for k in ("desc", "solver", "solution_limit", "hints", "planted", "cert", "probe", "family", "size")}},
                          f"{c['family']} n={c['size']}: {detail}" + (f" ({len(lst)} cases of this obligation)" if len(lst) > 1 else ""))
    for (dk, hk), cl in claims.items():
        if "dfs" in cl and "sat" in cl and cl["dfs"][0] != cl["sat"][0]:
            c = cl["sat"][1]
            ctx.violation("C05/Model.solve/ensures:back-ends-agree-on-satisfiability[size-ladder]",
                          {"kind": "agree", **{k: c.get(k) for k in ("desc", "hints", "family", "size")}}, f"{c['family']} n={c['size']}: dfs says {cl['dfs'][0]}, sat says {cl['sat'][0]}")
    ctx.count(n, nontriv, samples)
    ctx.scope("size ladder: structured models beyond brute force, certifying oracle (planted solution / direct check / matching / block structure)",
              models=len(models), max_variables=max(len(d["desc"]["vars"]) for d in models), **{k: sorted(v) for k, v in fam.items()})
    ctx.notes["large_timeouts"] = timeouts
    ctx.notes["large_timeouts_by_family"] = timed_out
    ctx.notes["large_rejections"] = rejected


def history(ctx):
    scns = R.gen_histories(ctx.seed, ctx.quick, 1200 if ctx.quick else 20000)
    chunks = [scns[i:i + 20] for i in range(0, len(scns), 20)]
    res = pmap(R.eval_c05_history_chunk, chunks, chunksize=1)
    n = 0
    nontriv, samples = set(), []
    per_ob = {}
    kinds = {"solves": 0, "sessions": len(scns), "feasible": 0, "infeasible": 0, "after_int_var_following_a_solve": 0}
    for out, errs in res:
        for e in errs:
            ctx.defects.append(f"C05 history: fresh-process comparison failed: {e}")
        for scn, viol, infos in out:
            for i in infos:
                if "n_ref" not in i:
                    continue
                n += 1
                kinds["solves"] += 1
                kinds["feasible" if i["n_ref"] else "infeasible"] += 1
                st = scn["steps"]
                if any(s[0] == "var" and any(t[0] == "solve" for t in st[:k]) for k, s in enumerate(st[:i["step"]])):
                    kinds["after_int_var_following_a_solve"] += 1
                if i["n_ref"] < i["box"] and i["box"] >= 2:
                    nontriv.add(repr(("h", scn["id"], i["step"])))
            if len(samples) < 2 and scn["id"] % 401 == 7:
                samples.append({"history": scn["steps"]})
            seen = set()
            for ob, detail, step in viol:
                if ob in seen:
                    continue
                seen.add(ob)
                per_ob.setdefault(ob, []).append((step, scn, detail))
    for ob, lst in per_ob.items():
        lst.sort(key=lambda t: t[0])
        for step, scn, detail in lst[:3]:
            ctx.violation(ob, {"kind": "history", "steps": scn["steps"][:step + 1], "id": scn["id"]}, detail + (f" ({len(lst)} sessions hit this obligation)" if len(lst) > 1 else ""))
    ctx.count(n, nontriv, samples)
    ctx.scope("history mode: sessions on one Model object (solve, int_var/add, solve again ...), brute force at every solve + freshly built model + fresh process", **kinds)


def replay(rec):
    use_repo()
    c = rec["case"]
    if not isinstance(c, dict):
        return R.replay_caseless(rec, "C05")
    kind = c.get("kind")
    if kind == "large":
        v, info = R.eval_c05_large(c, cpu_s=600)
        print("replay:", v or "no violation", info)
        return 1 if v else 0
    if kind == "history":
        v, infos = R.eval_c05_history({"steps": c["steps"], "id": c.get("id", 0)})
        print("replay:", [(ob, d) for ob, d, _ in v] or "no violation", infos[-1:] )
        return 1 if v else 0
    if kind == "agree":
        cl = {}
        for solver in ("dfs", "sat"):
            _, info = R.eval_c05_large({**c, "solver": solver, "solution_limit": 1, "planted": None}, cpu_s=600)
            cl[solver] = info.get("feasible_claim")
        print("replay: feasibility claims", cl)
        return 1 if cl["dfs"] != cl["sat"] and None not in cl.values() else 0
    if "desc" not in c:
        print("agreement violation: re-run the check")
        return 1
    v, info = C.eval_c05(c)
    print("replay:", v or "no violation", info)
    return 1 if v else 0

"""C05 - CP Model.solve never returns an assignment that breaks an added constraint (bounded back end)."""
import random

from checks import cp_common as C
from vf.core import use_repo
from vf.pool import pmap

LEVEL = "exploration"


def cases_for(models, rng, quick):
    cases = []
    for d in models:
        desc = {"vars": d["vars"], "constraints": d["constraints"]}
        for solver in ("auto", "dfs", "sat"):
            for sl in (1, 50):
                cases.append({"desc": desc, "solver": solver, "solution_limit": sl, "hints": None, "family": d["family"]})
        # a hint on the first variable (a value inside its domain)
        n, lb, ub = d["vars"][0]
        h = {n: rng.randint(lb, ub)}
        for solver in ("dfs", "sat"):
            cases.append({"desc": desc, "solver": solver, "solution_limit": 1, "hints": h, "family": d["family"]})
    return cases


def run(ctx):
    use_repo()
    rng = random.Random(ctx.seed)
    models = C.gen_models(ctx.seed, ctx.quick)
    cases = cases_for(models, rng, ctx.quick)
    chunks = [cases[i:i + 60] for i in range(0, len(cases), 60)]
    res = pmap(C.eval_c05_chunk, chunks, chunksize=1)
    n = 0
    nontriv = set()
    fam = {}
    samples = []
    claims = {}
    rejected = 0
    for ch in res:
        for c, viol, info in ch:
            if "skipped" in info:
                continue
            n += 1
            fam[c["family"]] = fam.get(c["family"], 0) + 1
            if "rejected" in info:
                rejected += 1
            key = repr((c["desc"], c["hints"]))
            if info.get("feasible_claim") is not None and c["solution_limit"] == 1:
                claims.setdefault(key, {})[c["solver"]] = info["feasible_claim"]
            # non-trivial: the constraint set rules out at least one assignment of the domain box and the box has >= 2 points
            box = 1
            for _, lb, ub in c["desc"]["vars"]:
                box *= (ub - lb + 1)
            if box >= 2 and info.get("n_ref", box) < box:
                nontriv.add(repr((c["desc"], c["solver"], c["solution_limit"], c["hints"])))
            if len(samples) < 6 and n % 1571 == 0:
                samples.append({k: c[k] for k in ("desc", "solver", "solution_limit", "hints")})
            for ob, detail in viol:
                ctx.violation(ob, {k: c[k] for k in ("desc", "solver", "solution_limit", "hints")}, detail)
    for key, cl in claims.items():
        if "dfs" in cl and "sat" in cl and cl["dfs"] != cl["sat"]:
            ctx.violation("C05/Model.solve/ensures:back-ends-agree-on-satisfiability", {"model": key}, f"dfs says {cl['dfs']}, sat says {cl['sat']}")
    ctx.count(n, nontriv, samples or [cases[0]])
    ctx.scope("CP models by family (x solver x solution_limit x hints)", **fam)
    ctx.notes["explicit_rejections"] = rejected
    ctx.rule = ("models built through the public constructors/operators from an independent description: every expression template of "
                "cp_common.rel_templates over 1..3 variables and several domain boxes, every global constraint, pairs of constraints; "
                "x solver in {auto,dfs,sat} x solution_limit in {1,50} x hints. non-trivial = constraint set excludes at least one point of a box with >= 2 points; "
                "distinct = different (model, solver, limit, hints)")
    ctx.assumptions += ["oracle: brute-force enumeration of the domain box with the reference semantics of oracles/cp_sem.py (DESIGN 7 C05)",
                        "an explicit exception (ValueError/TypeError/NotImplementedError) for a shape the solver does not support counts as 'rejected', not as a violation",
                        "anonymous (unnamed) variables are not generated",
                        "INFEASIBLE under hints is judged against assignments that agree with the (in-domain) hints: hints are hard restrictions"]


def replay(rec):
    use_repo()
    c = rec["case"]
    if "desc" not in c:
        print("agreement violation: re-run the check")
        return 1
    v, info = C.eval_c05(c)
    print("replay:", v or "no violation", info)
    return 1 if v else 0

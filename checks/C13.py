"""C13 - kruskal and prim return minimum spanning trees (or say why not).   Bounded back end.

Contract (from the property statement), evaluated on the real solvor.mst.kruskal (backend="python") and
solvor.mst.prim of the tree under check:

  connected graph            -> not INFEASIBLE; solution = n-1 edges, each an edge of the input (as a multiset,
                                either orientation), acyclic, connecting all nodes; objective == exact sum of
                                their weights; that sum == minimum over all spanning trees; kruskal and prim agree.
  disconnected graph         -> status INFEASIBLE (kruskal without allow_forest, prim from any start)
  disconnected, allow_forest -> kruskal: status FEASIBLE and a minimum spanning forest (n-c input edges, acyclic,
                                same components as the graph, objective == sum == minimum over spanning forests)

Oracles (oracles/mst.py): enumeration of every (n-c)-subset of the edges on the small scope; array-based O(V^2)
Prim (no heap, no union-find) on the larger seeded graphs, cross-checked against the enumeration on every graph of
the small scope; cycle-property certificate of the returned tree as a third, self-certifying opinion.

Round 2 (checks/C13_round2.py, oracles/mst_big.py): a size ladder far beyond the small scope (10 .. 20000 nodes, up to
~245000 edges, sizes around powers of two and round numbers, many equal weights, dense core + sparse fringe, cliques
joined by bridges, multigraphs, planted optimum) judged by Boruvka + matrix Prim + cycle-property certificate; fine-grained
numerics (B + k*2^-g with g up to 40, large magnitudes, int/float ties); history mode (one edge list / adjacency dict
object edited in place between calls, every call twice, last call repeated in a fresh process).

Round 3 (checks/C13_round3.py, checks/present3.py): presentation diversity - the small-scope and seeded graphs once more, each
through a presentation drawn per instance (node labels None / falsy / tuples / pairs whose first entry is a node / mixed
types / equal-but-differently-typed spellings; mapping and adjacency container kinds; int and non-integral float weights in
one input; kruskal through backend="python" AND through the default call), plus the frame clauses 'caller-owned input
unchanged' and 'same answer when the call is repeated'.
"""
from __future__ import annotations

import itertools
import random
from collections import Counter

from vf.core import Ctx, use_repo
from vf.pool import pmap
from oracles import mst as O
from checks import C13_round2 as R2
from checks import C13_round3 as R3

LEVEL = "exploration"
W4 = (-1, 0, 1, 2)
SCHEMES = ("int", "intneg", "str", "tuple", "mixed", "frozenset")
ENUM_LIMIT = 3000  # random graphs: enumerate all subsets when there are at most this many


# ------------------------------------------------------------------ labels (prim takes any hashable node)
def label(scheme, i):
    if scheme == "int":
        return i
    if scheme == "intneg":
        return 11 - 3 * i
    if scheme == "str":
        return "v%d" % i
    if scheme == "tuple":
        return (i // 2, i % 2)
    if scheme == "frozenset":
        return frozenset((i, i + 1))
    if scheme == "mixed":  # pairwise unorderable labels: a heap that ever compares two nodes raises TypeError
        return (i, "n%d" % i, (i, "t"), frozenset((i,)), i + 0.5)[i % 5]
    raise ValueError(scheme)


# ------------------------------------------------------------------ cases
def kruskal_case(n, edges, allow_forest, rng):
    es = [[v, u, w] if rng.random() < 0.5 else [u, v, w] for u, v, w in edges]
    rng.shuffle(es)
    return {"fn": "kruskal", "n": n, "edges": es, "allow_forest": allow_forest}


def prim_case(n, edges, rng, scheme, start):
    adj = [[] for _ in range(n)]
    twice = rng.random() < 0.5
    for u, v, w in edges:
        adj[u].append([v, w])
        if u != v:
            adj[v].append([u, w])
        elif twice:
            adj[u].append([u, w])
    for a in adj:
        rng.shuffle(a)
    keys = list(range(n))
    rng.shuffle(keys)
    return {"fn": "prim", "scheme": scheme, "keys": keys, "adj": adj, "start": start,
            "container": "tuple" if rng.random() < 0.3 else "list"}


def prim_graph(case):
    n = len(case["adj"])
    lab = [label(case["scheme"], i) for i in range(n)]
    tup = case["container"] == "tuple"
    g = {}
    for i in case["keys"]:
        lst = [(lab[j], w) for j, w in case["adj"][i]]
        g[lab[i]] = tuple(lst) if tup else lst
    return g, lab


def case_graph(case):
    """(n, undirected edge list in index space) of a case."""
    if case["fn"] == "kruskal":
        return case["n"], [tuple(e) for e in case["edges"]]
    adj = case["adj"]
    n = len(adj)
    edges = []
    for i in range(n):
        loops = [w for j, w in adj[i] if j == i]
        for j, w in adj[i]:
            if j > i:
                edges.append((i, j, w))
        edges += [(i, i, w) for w in loops]
    # the adjacency must describe an undirected graph
    back = Counter((j, i, w) for i in range(n) for j, w in adj[i] if j < i)
    fwd = Counter((i, j, w) for i in range(n) for j, w in adj[i] if j > i)
    assert back == fwd, "generator produced an asymmetric adjacency"
    return n, edges


def call(case):
    """Run the function of the tree under check on the case. Returns (result, exception)."""
    from solvor.mst import kruskal, prim
    from checks.guard import guarded
    try:
        if case["fn"] == "kruskal":
            return guarded("kruskal", kruskal, case["n"], [tuple(e) for e in case["edges"]], allow_forest=case["allow_forest"],
                           backend="python"), None, None
        g, lab = prim_graph(case)
        if case["start"] is None:
            return guarded("prim", prim, g), None, lab
        return guarded("prim", prim, g, start=lab[case["start"]]), None, lab
    except Exception as e:  # noqa: BLE001 - any exception is a contract violation ("each return ...")
        return None, e, None


# ------------------------------------------------------------------ the contract
def judge(case, res, exc, lab, n, edges, c, wmin):
    """List of (obligation suffix, detail). n, edges: the graph; c: its number of components; wmin: exact minimum
    spanning forest weight."""
    from solvor.types import Status
    fn = case["fn"]
    if exc is not None:
        return [("ensures:returns", f"raised {type(exc).__name__}: {exc}")]
    st = res.status
    allow_forest = fn == "kruskal" and case["allow_forest"]
    if c > 1 and not allow_forest:
        if st != Status.INFEASIBLE:
            return [("ensures:disconnected=>INFEASIBLE", f"graph has {c} components, status {st!r}, solution {res.solution!r}")]
        return []
    out = []
    if c > 1:
        if st != Status.FEASIBLE:
            out.append(("ensures:allow_forest-disconnected=>FEASIBLE", f"graph has {c} components, status {st!r}"))
    elif st == Status.INFEASIBLE:
        return [("ensures:connected=>spanning-tree", f"connected graph reported INFEASIBLE (solution {res.solution!r})")]
    sol = res.solution
    if not isinstance(sol, (list, tuple)):
        return out + [("ensures:connected=>spanning-tree" if c == 1 else "ensures:allow_forest=>spanning-forest",
                       f"solution is {sol!r} (status {st!r})")]
    # map back to index space
    tree = []
    if fn == "prim":
        back = {l: i for i, l in enumerate(lab)}
    for e in sol:
        try:
            a, b, w = e
            if fn == "prim":
                a, b = back[a], back[b]
            if not (0 <= a < n and 0 <= b < n):
                raise KeyError(a)
        except Exception:  # noqa: BLE001
            return out + [("ensures:edges-of-the-input", f"{e!r} is not an edge between nodes of the graph")]
        tree.append((a, b, w))
    kind = "tree" if c == 1 else "forest"
    if len(tree) != n - c:
        out.append(("ensures:n-1-edges" if c == 1 else "ensures:forest-has-n-c-edges",
                    f"{len(tree)} edges returned, a spanning {kind} has {n - c}"))
    pool = Counter((min(u, v), max(u, v), w) for u, v, w in edges)
    for a, b, w in tree:
        k = (min(a, b), max(a, b), w)
        if pool[k] <= 0:
            out.append(("ensures:edges-of-the-input", f"edge {(a, b, w)!r} is not in the input (or used more often than given)"))
            break
        pool[k] -= 1
    lab_ = list(range(n))
    cyc = False
    for a, b, _ in tree:
        x, y = lab_[a], lab_[b]
        if x == y:
            out.append(("ensures:acyclic", f"edge ({a},{b}) closes a cycle in the returned edge set {tree!r}"))
            cyc = True
            break
        lab_ = [x if t == y else t for t in lab_]
    if not cyc and len(set(lab_)) != c:
        out.append(("ensures:connects-all-nodes", f"returned edges leave {len(set(lab_))} components, the graph has {c}"))
    try:
        s = sum(O.exact(w) for _, _, w in tree)
        obj = O.exact(res.objective)
    except Exception as e:  # noqa: BLE001
        return out + [("ensures:objective==total-weight", f"objective {res.objective!r}: {e}")]
    if obj != s:
        out.append(("ensures:objective==total-weight", f"objective {res.objective!r}, the returned edges weigh {s}"))
    if obj != wmin:
        out.append(("ensures:minimal", f"objective {res.objective!r}, minimum over all spanning {kind}s is {wmin}"))
    if not out:
        # third opinion; a disagreement between oracles is a checker defect, not a finding
        if not O.is_min_forest_certificate(n, edges, tree):
            raise AssertionError(f"oracles disagree (weight says minimal, cycle property says not): {case!r}")
    return out


class Acc:
    def __init__(self):
        self.evals = 0
        self.graphs = 0
        self.nontrivial = 0
        self.keys = set()
        self.viol = []
        self.per_obl = Counter()
        self.samples = []
        self.heavy = 0  # prim runs whose heap could exceed 4*|V| entries (dense, >= 15 nodes)
        self.uf7 = 0    # kruskal python runs on >= 7 nodes

    def data(self):
        return {"evals": self.evals, "graphs": self.graphs, "nontrivial": self.nontrivial, "keys": self.keys,
                "viol": self.viol, "per_obl": dict(self.per_obl), "samples": self.samples, "heavy": self.heavy,
                "uf7": self.uf7}


def evaluate(case, acc, n, edges, c, wmin):
    res, exc, lab = call(case)
    acc.evals += 1
    bad = judge(case, res, exc, lab, n, edges, c, wmin)
    for obl, detail in bad:
        name = f"C13/{case['fn']}/{obl}"
        acc.per_obl[name] += 1
        if acc.per_obl[name] <= 4:
            acc.viol.append((name, case, detail))
    return res


def oracle(n, edges, small):
    """(c, exact minimum spanning forest weight)."""
    wd, c = O.dense_prim_forest_weight(n, edges)
    if small or O.n_subsets(n, edges) <= ENUM_LIMIT:
        we, c2, _ = O.enum_forest_weight(n, edges)
        if we != wd or c2 != c:
            raise AssertionError(f"oracles disagree on n={n} edges={edges}: enumeration {we}/{c2}, dense prim {wd}/{c}")
    return c, wd


def eval_graph(n, edges, rng, acc, small, count_key, starts="all", schemes=SCHEMES):
    from solvor.types import Status
    c, wmin = oracle(n, edges, small)
    acc.graphs += 1
    m_real = sum(1 for e in edges if e[0] != e[1])
    nontriv = m_real > n - c  # at least one edge has to be left out: there is a choice to get wrong
    if nontriv:
        if count_key is None:
            acc.nontrivial += 1
        elif count_key:
            acc.keys.add(hash((n, tuple(edges))))
    objs = []
    for af in (False, True):
        kc = kruskal_case(n, edges, af, rng)
        r = evaluate(kc, acc, n, edges, c, wmin)
        if n >= 7:
            acc.uf7 += 1
        if r is not None and r.status != Status.INFEASIBLE:
            objs.append(("kruskal", kc, r.objective))
    scheme = schemes[rng.randrange(len(schemes))]
    if starts == "all":
        sts = [None] + list(range(n))
    else:
        sts = [None] + rng.sample(range(n), min(n, starts))
    pc0 = None
    for st in sts:
        pc = prim_case(n, edges, rng, scheme, st)
        if pc0 is None:
            pc0 = pc
        r = evaluate(pc, acc, n, edges, c, wmin)
        if n >= 15 and 2 * m_real > 4 * n:
            acc.heavy += 1
        if r is not None and r.status != Status.INFEASIBLE and len(objs) < 3:
            objs.append(("prim", pc, r.objective))
    if c == 1:
        ks = [o for o in objs if o[0] == "kruskal"]
        ps = [o for o in objs if o[0] == "prim"]
        if ks and ps and ks[0][2] != ps[0][2]:
            name = "C13/kruskal+prim/ensures:agree-on-total-weight"
            acc.per_obl[name] += 1
            if acc.per_obl[name] <= 4:
                acc.viol.append((name, {"fn": "both", "kruskal": ks[0][1], "prim": ps[0][1]},
                                 f"kruskal {ks[0][2]!r} vs prim {ps[0][2]!r} (minimum {wmin})"))
    if len(acc.samples) < 1 and nontriv:
        acc.samples.append(pc0)


# ------------------------------------------------------------------ input spaces
def edge_types(n, W):
    return [(u, v, w) for u in range(n) for v in range(u, n) for w in W]


def chunks_multisets(n, mmax, W):
    T = len(edge_types(n, W))
    out = []
    for m in range(0, mmax + 1):
        if m < 2:
            out.append(("A", n, m, (), W))
        else:
            for a in range(T):
                for b in range(a, T):
                    out.append(("A", n, m, (a, b), W))
    return out


def chunks_simple(n, W, plen):
    P = n * (n - 1) // 2
    plen = min(plen, P)
    return [("B", n, W, pre) for pre in itertools.product(range(len(W) + 1), repeat=plen)]


def gen_weights(rng, palette):
    if palette == "equal":
        x = rng.choice((1, 0, -3, 2.5))
        return lambda: x
    if palette == "01":
        return lambda: rng.randint(0, 1)
    if palette == "w4":
        return lambda: rng.choice(W4)
    if palette == "smallint":
        return lambda: rng.randint(-5, 12)
    if palette == "neg":
        return lambda: -rng.randint(0, 9)
    if palette == "distinct":
        pool = list(range(-40, 2000))
        rng.shuffle(pool)
        return lambda: pool.pop()
    if palette == "dyadic":
        return lambda: rng.randint(-16, 48) / 8
    if palette == "big":
        return lambda: rng.choice((-1, 1)) * (10 ** 9 - rng.randint(0, 3))
    if palette == "mixedtype":
        return lambda: rng.choice((rng.randint(-3, 6), rng.randint(-12, 24) / 4))
    raise ValueError(palette)


PALETTES = ("equal", "01", "w4", "smallint", "neg", "distinct", "dyadic", "big", "mixedtype")


def rand_small(rng):
    n = rng.randint(1, 9)
    wf = gen_weights(rng, rng.choice(PALETTES))
    edges = []
    if n > 1 and rng.random() < 0.75:  # spanning tree first: connected
        perm = list(range(n))
        rng.shuffle(perm)
        for i in range(1, n):
            edges.append((perm[i], perm[rng.randrange(i)], wf()))
    for _ in range(rng.randint(0, 2 * n + 2)):
        k = rng.random()
        if k < 0.15:
            u = rng.randrange(n)
            edges.append((u, u, wf()))
        elif k < 0.35 and edges:
            u, v, w = rng.choice(edges)
            edges.append((u, v, w if rng.random() < 0.5 else wf()))
        else:
            edges.append((rng.randrange(n), rng.randrange(n), wf()))
    return n, [(min(u, v), max(u, v), w) for u, v, w in edges]


def rand_dense(rng):
    n = rng.randint(15, 30)
    wf = gen_weights(rng, rng.choice(("smallint", "distinct", "distinct", "dyadic", "w4", "neg", "big", "mixedtype")))
    p = rng.choice((1.0, 1.0, 0.9, 0.75, 0.6))
    edges = []
    perm = list(range(n))
    rng.shuffle(perm)
    have = set()
    for i in range(1, n):
        u, v = perm[i], perm[rng.randrange(i)]
        have.add((min(u, v), max(u, v)))
        edges.append((min(u, v), max(u, v), wf()))
    for u in range(n):
        for v in range(u + 1, n):
            if (u, v) not in have and rng.random() < p:
                edges.append((u, v, wf()))
    for _ in range(rng.randint(0, n)):
        k = rng.random()
        if k < 0.3:
            u = rng.randrange(n)
            edges.append((u, u, wf()))
        else:
            u, v, w = rng.choice(edges)
            edges.append((u, v, wf()))
    return n, edges


def rand_unionfind(rng):
    """Graphs whose Kruskal run does rank-balanced merges: components are paired level by level through random
    members (not the representatives), then cycle-closing and cross edges follow."""
    n = rng.randint(7, 24)
    ties = rng.random() < 0.4
    comps = [[i] for i in range(n)]
    rng.shuffle(comps)
    edges = []
    w = 0
    while len(comps) > 1:
        nxt = []
        rng.shuffle(comps)
        if not ties:
            w += 1
        for i in range(0, len(comps) - 1, 2):
            a, b = comps[i], comps[i + 1]
            if rng.random() < 0.12:  # leave a pair unmerged now and then (disconnected graphs, odd ranks)
                nxt += [a, b]
                continue
            edges.append((rng.choice(a), rng.choice(b), w))
            nxt.append(a + b)
        if len(comps) % 2:
            nxt.append(comps[-1])
        if len(nxt) == len(comps):
            if rng.random() < 0.5:
                break
        comps = nxt
        if ties:
            w += rng.randint(0, 1)
    for _ in range(rng.randint(1, n)):
        u, v = rng.randrange(n), rng.randrange(n)
        edges.append((u, v, rng.randint(0, w + 2)))
    return n, edges


def rand_sparse(rng):
    n = rng.randint(7, 18)
    wf = gen_weights(rng, rng.choice(("smallint", "distinct", "w4", "01", "dyadic")))
    edges = [(rng.randrange(n), rng.randrange(n), wf()) for _ in range(rng.randint(n - 2, 3 * n))]
    return n, edges


def rand_disconnected(rng):
    n = rng.randint(2, 14)
    k = rng.randint(2, min(n, 4))
    part = [rng.randrange(k) for _ in range(n)]
    groups = [[i for i in range(n) if part[i] == g] for g in range(k)]
    groups = [g for g in groups if g]
    wf = gen_weights(rng, rng.choice(PALETTES))
    edges = []
    for g in groups:
        if len(g) == 1:
            if rng.random() < 0.3:
                edges.append((g[0], g[0], wf()))
            continue
        if rng.random() < 0.85:
            for i in range(1, len(g)):
                edges.append((g[i], g[rng.randrange(i)], wf()))
        for _ in range(rng.randint(0, 2 * len(g))):
            edges.append((rng.choice(g), rng.choice(g), wf()))
    return n, edges


def rand_numeric(rng):
    """small graphs, fine-grained numerics: B + k*2^-g (g up to 40), +-(10^9-k), 2^40+k, int/float ties"""
    n = rng.randint(2, 12)
    wf = R2.weight_fn(rng, rng.choice(("dyadic", "dyadic", "bigmag", "mixedtype")), 64)
    edges = []
    if rng.random() < 0.8:
        for i in range(1, n):
            edges.append((i, rng.randrange(i), wf()))
    for _ in range(rng.randint(0, 3 * n)):
        edges.append((rng.randrange(n), rng.randrange(n), wf()))
    return n, [(min(u, v), max(u, v), w) for u, v, w in edges]


FAMILIES = {"numeric": rand_numeric, "small": rand_small, "dense": rand_dense, "unionfind": rand_unionfind, "sparse": rand_sparse,
            "disconnected": rand_disconnected}


def work(chunk):
    use_repo()
    kind = chunk[0]
    if kind == "L":
        return R2.work_ladder(chunk)
    if kind == "H":
        return R2.work_history(chunk)
    if kind == "P":
        return R3.work_present(chunk)
    acc = Acc()
    if kind == "A":
        _, n, m, pre, W, seed = chunk
        rng = random.Random(f"{seed}/A/{n}/{m}/{pre}")
        types = edge_types(n, W)
        T = len(types)
        if m < 2:
            it = itertools.combinations_with_replacement(range(T), m)
        else:
            it = (pre + rest for rest in itertools.combinations_with_replacement(range(pre[1], T), m - 2))
        for idx in it:
            eval_graph(n, [types[i] for i in idx], rng, acc, True, None)
    elif kind == "B":
        _, n, W, pre, seed = chunk
        rng = random.Random(f"{seed}/B/{n}/{W}/{pre}")
        pairs = [(u, v) for u in range(n) for v in range(u + 1, n)]
        rest = len(pairs) - len(pre)
        for tail in itertools.product(range(len(W) + 1), repeat=rest):
            assign = pre + tail
            edges = [(pairs[i][0], pairs[i][1], W[a - 1]) for i, a in enumerate(assign) if a]
            eval_graph(n, edges, rng, acc, True, None)
    else:
        _, fam, seed, lo, hi = chunk
        for i in range(lo, hi):
            rng = random.Random(f"{seed}/R/{fam}/{i}")
            n, edges = FAMILIES[fam](rng)
            # counted as distinct non-trivial only when provably outside the enumerated scopes
            outside = n >= 6 or any(w not in W4 for _, _, w in edges)
            eval_graph(n, edges, rng, acc, False, outside, starts="all" if n <= 30 else 4)
    return acc.data()


# ------------------------------------------------------------------ driver
def run(ctx: Ctx):
    from vf.prove import prove
    prove(ctx, ["specs.mst"], "C13", lemma_groups=("uf", "wsum", "wsumN"))  # deductive part (specs/mst.py)
    use_repo()
    q = ctx.quick
    seed = ctx.seed
    chunks = []
    scopes = []
    # A: all multigraphs (multisets of weighted edges incl. self loops and parallel edges)
    for n, mmax in ((1, 3), (2, 4), (3, 4 if q else 5), (4, 3 if q else 4), (5, 2 if q else 3)):
        cs = chunks_multisets(n, mmax, W4)
        chunks += [c + (seed,) for c in cs]
        scopes.append(("multigraphs (all multisets of edges, self loops and parallel edges included)",
                       dict(nodes=n, max_edges=mmax, weights=list(W4), exhaustive=True)))
    # B: all simple weighted graphs: every pair absent or one of the weights
    for n, W in ((4, W4), (5, (1,))) + (() if q else ((5, (1, 2)), (6, (1,)))):
        cs = chunks_simple(n, W, 3)
        chunks += [c + (seed,) for c in cs]
        scopes.append(("simple graphs (each pair absent or weighted)", dict(nodes=n, weights=list(W), exhaustive=True)))
    # R: seeded families
    plan = {"small": 6000 if q else 30000, "dense": 320 if q else 2000, "unionfind": 4000 if q else 24000,
            "sparse": 3000 if q else 12000, "disconnected": 3000 if q else 12000, "numeric": 3000 if q else 20000}
    step = {"numeric": 100, "small": 100, "dense": 8, "unionfind": 100, "sparse": 100, "disconnected": 100}
    rchunks = []
    for fam, cnt in plan.items():
        for lo in range(0, cnt, step[fam]):
            rchunks.append(("R", fam, seed, lo, min(cnt, lo + step[fam])))
    # round 2: size ladder (cheap certifying oracles) and history mode (checks/C13_round2.py)
    ctx.notes["oracle_self_test_graphs"] = R2.B.self_test()
    lspecs = R2.ladder_specs(q, seed)
    hspecs = R2.history_specs(q, seed)
    cost = lambda sp: -(sp["size"] ** 2 if sp["family"] in ("core_fringe", "blocks") else  # noqa: E731
                        sp["x"] if sp["family"] == "multigraph" else 3 * sp["size"])
    lspecs.sort(key=cost)
    nbig = sum(1 for sp in lspecs if -cost(sp) >= 8000)
    lchunks = [("L", [sp]) for sp in lspecs[:nbig]] + [("L", lspecs[i:i + 6]) for i in range(nbig, len(lspecs), 6)]
    grow = [h for h in hspecs if h["size"] != "small"]
    small = [h for h in hspecs if h["size"] == "small"]
    hchunks = [("H", [h]) for h in grow] + [("H", small[i:i + 50]) for i in range(0, len(small), 50)]
    # round 3: presentation diversity (checks/C13_round3.py)
    pchunks, pplan = R3.specs(q, seed)
    # heavy chunks first
    items = (pchunks[:len(R3.ENUM_SCOPES)] + lchunks[:nbig] + hchunks[:len(grow)] + [c for c in rchunks if c[1] == "dense"] + lchunks[nbig:] + chunks
             + [c for c in rchunks if c[1] != "dense"] + hchunks[len(grow):] + pchunks[len(R3.ENUM_SCOPES):])
    results = pmap(work, items, chunksize=1)
    evals = graphs = nontriv = heavy = uf7 = 0
    r2 = Counter()
    r3 = Counter()
    lasts = []
    keys = set()
    per_obl = Counter()
    viol = []
    samples = []
    sampled = set()
    for it, r in zip(items, results):
        kind = (it[0], it[1] if it[0] not in ("L", "H") else None)
        if kind not in sampled and r["samples"] and len(str(r["samples"][0])) < 1600:
            sampled.add(kind)
            samples.append(r["samples"][0])
        evals += r["evals"]
        graphs += r["graphs"]
        nontriv += r["nontrivial"]
        heavy += r["heavy"]
        uf7 += r["uf7"]
        keys |= r["keys"]
        per_obl.update(r["per_obl"])
        viol += r["viol"]
        for k, v in r.get("r2", {}).items():
            if k.startswith("ladder_max"):
                r2[k] = max(r2[k], v)
            else:
                r2[k] += v
        r3.update(r.get("r3", {}))
        lasts += r.get("lasts", [])
    # history mode: the last call of a sample of sessions, repeated in a fresh interpreter on newly built arguments
    try:
        fresh = R2.fresh_process([l for _h, l in lasts])
        for (hs, last), ans in zip(lasts, fresh):
            r2["history_fresh_process_comparisons"] += 1
            if ans != last["answer"]:
                name = f"C13/{hs['api']}/ensures:same-status-and-weight-in-a-fresh-process"
                per_obl[name] += 1
                viol.append((name, {"fn": "history", "history": hs, "upto": None, "fresh": True},
                             f"[history, last call] in this process (after the earlier calls and in-place edits) "
                             f"{last['answer']}, in a fresh process on an equal input {ans}"))
    except Exception as e:  # noqa: BLE001
        ctx.defects.append(f"C13 history: fresh-process comparison failed: {e}")
    for name, sc in scopes:
        ctx.scope(name, **sc)
    fam_count = Counter(sp["family"] for sp in lspecs)
    ctx.scope("round 2 size ladder (verdict by Boruvka + matrix Prim <= 1100 nodes + planted optimum + cycle-property "
              "certificate of the returned forest; oracles/mst_big.py)", graphs=dict(fam_count),
              max_nodes=r2["ladder_max_nodes"], max_edges=r2["ladder_max_edges"],
              planted_optimum_known=r2["ladder_planted_optimum"], matrix_prim_crosschecked=r2["ladder_matrix_prim_crosschecked"],
              description={"core_fringe": "complete / 0.8-dense core on 10,11,12,33,65,91,100,129,140,260,520(+180,300,700 thorough) "
                                          "nodes + 1..6 low-degree fringe nodes appended last",
                           "blocks": "2..8 cliques of 10..130 nodes joined by single bridges, or left disconnected",
                           "multigraph": "4..130 nodes with 520..65537 (thorough 131073) parallel edges and loops, last node(s) on late edges",
                           "sparse": "260..4100 (thorough 20000) nodes, tree (random/path/two stars/binary) + n/2..4n extras, "
                                     "half with planted optimum",
                           "shape": "path+chords, cycle, star, wheel, grid, complete bipartite, caterpillar, ladder; 33..1030 "
                                    "(thorough 5000) nodes",
                           "forest": "12..1030 (thorough 5000) nodes in many components (trees, cycles, cliques, isolated)",
                           "weights": "all equal, {1,2}, {1,2,3}, {0,1}, 1..10, 1..100, negative, distinct, mixed int/float "
                                      "ties, +-(10^9-k) / 2^40+k, B + k*2^-g with g up to 40",
                           "calls": "kruskal(backend=python) on the edge list as generated / shuffled+reoriented / reversed, "
                                    "with and without allow_forest; prim (<= 70000 edges) from the first key and two "
                                    "other starts, label scheme and adjacency order drawn per graph"})
    ctx.scope("round 2 history mode: one edge list / adjacency dict object, in-place edits between calls, every call made "
              "twice and judged against the oracle for the input as it is then", sessions=r2["history_sessions"],
              calls=r2["history_calls"], fresh_process_comparisons=r2["history_fresh_process_comparisons"],
              description={"small": "2..9(+) nodes: append / overwrite weight / delete / flip / new node / reverse, shuffle, "
                                    "sort in place; 3..6 edit rounds",
                           "grow": "complete graph on 40..120 nodes growing by late pendant nodes and batches of 50..3000 "
                                   "edges across 1024 / 4096 / 8192 edges"})
    ctx.scope("seeded random families", counts=plan,
              description={"small": "1..9 nodes, ties/negatives/floats/big weights, loops, duplicates",
                           "dense": "15..30 nodes, density 0.6..1 plus duplicates and loops (prim heap > 4|V|)",
                           "unionfind": "7..24 nodes, level-wise rank-balanced merges through non-representative members",
                           "sparse": "7..18 nodes random sparse multigraphs",
                           "disconnected": "2..14 nodes, 2..4 components, isolated nodes",
                           "numeric": "2..12 nodes, weights B + k*2^-g (g in 20..40, B up to 2^24 as far as exact float "
                                      "sums allow), +-(10^9-k), 2^40+k, int/float ties"})
    backends = {k[len("kruskal:"):]: v for k, v in r3.items() if k.startswith("kruskal:")}
    ctx.scope("round 3 presentation diversity: the graphs of the small scope and of the seeded families once more, each "
              "through a presentation drawn per instance (checks/C13_round3.py, checks/present3.py)",
              graphs=r3["graphs"],
              structural_generators={"enumerated": "all multigraphs n=2 m<=3 weights {-1,0,1,2}; n=3 m<=3 weights {1,2}; n=4 "
                                                   "m<=3 weight 1; all simple graphs on 4 nodes with weights {1,2}"
                                                   + ("" if q else " (4 presentations each)"),
                                     "seeded families": pplan},
              transformers={"node labels (prim)": {k[len("labels:"):]: v for k, v in r3.items() if k.startswith("labels:")},
                            "equal-but-differently-typed spellings of a node (1 / 1.0 / True)": r3["with-equal-but-differently-typed-spellings"],
                            "graph mapping kind (prim)": {k[len("graph-as:"):]: v for k, v in r3.items() if k.startswith("graph-as:")},
                            "adjacency value kind (prim)": {k[len("adjacency-as:"):]: v for k, v in r3.items() if k.startswith("adjacency-as:")},
                            "weight typing (both)": {k[len("weights:"):]: v for k, v in r3.items() if k.startswith("weights:")},
                            "kruskal back ends exercised (calls)": backends},
              graphs_with_a_node_labelled_None=r3["graphs-with-a-node-labelled-None"],
              graphs_with_a_falsy_node_label=r3["graphs-with-a-falsy-node-label"],
              graphs_with_a_pair_node_whose_first_entry_is_a_node=r3["graphs-with-a-pair-node-whose-first-entry-is-a-node"],
              calls="kruskal x {allow_forest} x {backend='python', default (no backend argument)}, each twice on the same "
                    "list; prim from the default start and from every node (n <= 6, else 3 drawn), first two twice",
              frame_clauses=["caller-owned edge list / adjacency mapping unchanged after the call",
                             "same answer when the call is repeated on the same objects"],
              left_out="one-shot iterables as adjacency values (prim reads them more than once; the statement does not "
                       "cover container kinds), explicit start for the node labelled None (start=None means 'first key'), "
                       "unhashable or NaN labels, weights that are not int/float or exceed 2^53",
              cpu_seconds=round(r3["cpu_ms"] / 1000, 1))
    ctx.notes["round3"] = dict(r3)
    ctx.notes["kruskal_back_ends_exercised"] = backends
    size = lambda v: len(str(v[1]))  # noqa: E731
    viol.sort(key=lambda v: (v[0], size(v)))
    kept = Counter()
    for name, case, detail in viol:
        kept[name] += 1
        if kept[name] <= 6:
            ctx.violation(name, case, detail)
    ctx.count(evals, keys, samples)
    ctx.exhaustive = True
    ctx.notes["distinct_nontrivial"] = nontriv + len(keys)
    ctx.notes["graphs"] = graphs
    ctx.notes["violations_by_obligation"] = dict(per_obl)
    ctx.notes["prim_runs_dense_ge15_nodes"] = heavy
    ctx.notes["kruskal_python_runs_ge7_nodes"] = uf7
    ctx.notes["round2"] = dict(r2)
    ctx.rule = ("cases = graphs. Enumerated scopes: every multiset of <= max_edges weighted edges (self loops, parallel "
                "edges) on n nodes, and every simple graph with each pair absent or weighted; each enumerated once, so "
                "distinct by construction. Random families: seeded generators (seed/family/index); distinct by hash of "
                "(n, edge list) and counted only when outside the enumerated scopes (n >= 6 or a weight outside "
                "{-1,0,1,2}). Non-trivial = the graph has more non-loop edges than a spanning forest needs (some edge "
                "must be rejected). evaluations = checked solver calls: per graph kruskal(backend=python) with and "
                "without allow_forest on a shuffled, randomly oriented edge list, and prim from start=None and from "
                "every node, with a label scheme (int, negative int, str, tuple, frozenset, mixed unorderable) and "
                "shuffled adjacency / key order drawn per graph. Round 2: one case per ladder spec (family, size, weight "
                "palette, index; graph regenerated from the spec) counted when non-trivial, one per history session "
                "(script regenerated from the spec); distinct by construction; every call of a session is an evaluation. "
                "Round 3: case = (graph as passed, presentation: labels, spellings, containers, key and neighbour order), "
                "distinct by hash, counted when non-trivial; every kruskal / prim call (repeats not counted) is an evaluation.")
    ctx.assumptions += [
        "weights are ints or floats whose partial sums are exactly representable (objective compared exactly; float rounding of sums not modelled)",
        "prim's graph argument is a symmetric adjacency dict that lists every node as a key (an undirected graph)",
        "n >= 1 (kruskal rejects n_nodes = 0; the empty prim graph is not judged)",
        "kruskal is run with backend='python' everywhere; round 3 also makes the default call (no backend argument), which "
        "is the Rust adapter when solvor._solvor_rust is importable in the tree under check and the Python fallback "
        "otherwise (notes.kruskal_back_ends_exercised says which ran); agreement of the two kernels on large inputs is C12's subject",
    ]
    ctx.trusted += ["oracles/mst.py: subset enumeration (definition), array Prim cross-checked against it on every "
                    "enumerated graph, cycle-property certificate on every accepted tree",
                    "oracles/mst_big.py: Boruvka, matrix Prim, binary-lifting cycle-property certificate; self-tested "
                    "against each other and the enumeration at every run, and required to agree on every ladder graph",
                    "CPython itertools/random/fractions"]


def replay(rec) -> int:
    use_repo()
    case = rec["case"]
    if case.get("r3"):
        return R3.replay(rec)
    if case["fn"] == "history" or "ladder" in case or "ladder" in case.get("kruskal", {}):
        return R2.replay(rec)
    cases = [case["kruskal"], case["prim"]] if case["fn"] == "both" else [case]
    bad = 0
    objs = []
    for cs in cases:
        n, edges = case_graph(cs)
        c, wmin = oracle(n, edges, False)
        res, exc, lab = call(cs)
        out = judge(cs, res, exc, lab, n, edges, c, wmin)
        print(f"replay {cs['fn']}: n={n} components={c} minimum={wmin} -> "
              f"{'exception ' + repr(exc) if exc else (res.status.name, res.objective, res.solution)}")
        for o, d in out:
            print(f"  violated C13/{cs['fn']}/{o}: {d}")
        bad += len(out)
        if res is not None:
            objs.append(res.objective)
    if case["fn"] == "both" and len(objs) == 2 and objs[0] != objs[1]:
        print(f"  violated C13/kruskal+prim/ensures:agree-on-total-weight: {objs}")
        bad += 1
    print("replay:", "still violates" if bad else "no violation")
    return 1 if bad else 0

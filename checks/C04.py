"""C04 - solve_milp: answers are integer-feasible, OPTIMAL means proven optimal, INFEASIBLE/UNBOUNDED are justified,
and warm starts / rounding heuristics / LNS never change the verdict.            (bounded back end)

Top-level contract, taken from the property statement, evaluated on the real `solvor.milp.solve_milp`:

  ensures:solution-feasible            status in {OPTIMAL, FEASIBLE} => solution satisfies A x <= b, x >= 0, integrality
  ensures:solutions-entries-feasible   the same for every entry of Result.solutions
  ensures:objective-is-cx              reported objective == c.x
  ensures:optimal-is-proven-optimal    OPTIMAL => no integer-feasible point is better than c.x (within gap_tol)
  ensures:infeasible-means-no-integer-point
  ensures:unbounded-only-if-relaxation-unbounded
  ensures:verdict-invariant            for solution_limit == 1: status (and the OPTIMAL objective) under any
                                       warm_start / heuristics / lns_iterations equals the plain run's

Oracle: oracles.milp_exact (enumeration of the integer box, exact Fraction LP of oracles.lp_exact on the continuous
part).  Float tolerances: TAU = 1e-6 * (1 + max|data|) on rows / sign / integrality, the same relative to the terms on
c.x, and  gap_tol * max(1,|obj|,|OPT|) + TAU  on optimality (instances have integer data and tiny denominators, so a
wrong answer is off by >= ~1e-2).

Round 2 (same clauses, inputs beyond the small scope; see the section "round 2" below and oracles/milp_certs.py):
  ladder-blocks         10 .. 600 variables, block-diagonal composition of exactly solved small blocks (optimum = sum)
  ladder-planted-dual   12 .. 2050 variables, coupled rows, planted integer point with an exact LP-duality certificate
  long-run-single-row   8 .. 24 variables, exact-weight / knapsack / cover rows: thousands of nodes and > 10 000 simplex
                        pivots per call, optimum by meet-in-the-middle enumeration
  history-*             sequences of calls in one process on the SAME c / A / row lists / b / integers / warm-start objects
                        with in-place edits between the calls (also inside the three families above), each call judged
                        against the oracle for the model as it is then; the last call repeated in a fresh interpreter
                        (extra clause  ensures:same-verdict-as-in-a-fresh-process).
Round 3 (checks/C04_round3.py, same clauses): VOLUME between the small scope and the ladders
  vol-general-integer      4..9 variables, 1..3 rows with entries up to 3 / 5 / 9, box 0..3 as explicit rows, multi-knapsack /
                           covering / mixed-sign rows, pure and mixed general-integer, four cost shapes
  vol-integral-lp-value    the same generator restricted to pure-integer programs whose costs are integer combinations of the
                           rows: LP values that are exactly integral at fractional vertices
  mixbin-continuous-cost   6..12 binaries + 1..2 continuous variables that carry a cost, two knapsack / covering rows
  each under default / heuristics=False / heuristics+LNS / all-zero warm start, judged by exact enumeration of the box
  (oracles.milp_exact.solve_int_box); tens of thousands of instances in the thorough tier.
A violation found in round 2 is recorded with the whole call sequence; `replay` rebuilds the objects once and re-applies the
recorded edits in place.   `python -m checks.C04 --fresh` (JSON on stdin) is the fresh-interpreter helper.
"""
from __future__ import annotations

import itertools
import json
import random
import signal
import time
import warnings
from fractions import Fraction

from vf.core import Ctx, digest, use_repo

LEVEL = "exploration"
P = "C04/solve_milp/"
CASE_TIMEOUT = 60  # CPU seconds (ITIMER_VIRTUAL, load-independent) per solver call (tiny instances need milliseconds)


# =============================================================================================== instances
def make_inst(c, rows, rhs, U, integers, box_pos="end", box_scale=None):
    """User rows + explicit box rows a*x_j <= a*U_j + r  (a = 1 unless box_scale says otherwise)."""
    n = len(c)
    brow, brhs = [], []
    for j in range(n):
        if U[j] is None:
            continue
        a, r = (1, 0) if not box_scale else box_scale[j]
        brow.append([a if k == j else 0 for k in range(n)])
        brhs.append(a * U[j] + r)
    if box_pos == "start":
        A, b = brow + [list(r) for r in rows], brhs + list(rhs)
    else:
        A, b = [list(r) for r in rows] + brow, list(rhs) + brhs
    return {"c": list(c), "A": A, "b": b, "integers": sorted(integers)}


def subsets(n, with_empty):
    out = []
    for k in range(0 if with_empty else 1, n + 1):
        out += [list(s) for s in itertools.combinations(range(n), k)]
    return out


def fam_exh2(quick):
    """n=2, one user row, box rows: exhaustive over the listed value sets."""
    if quick:
        cs = [(1, 1), (1, -1), (-1, 2)]
        bs = [-2, -1, 1, 2, 4]
        Us = [(1, 1), (2, 3), (3, 3)]
        vals = (-3, -2, -1, 0, 1, 2, 3)
    else:
        cs = [(1, 0), (0, 1), (1, 1), (1, -1), (2, 1), (1, 2), (2, -1), (-1, 2), (3, 2), (2, 3), (2, -3), (-3, 2)]
        bs = list(range(-3, 6))
        Us = [(u, v) for u in (1, 2, 3) for v in (1, 2, 3)]
        vals = (-3, -2, -1, 0, 1, 2, 3)
    out = []
    for c in cs:
        for a in itertools.product(vals, repeat=2):
            if a == (0, 0):
                continue
            for b0 in bs:
                for U in Us:
                    for ints in subsets(2, not quick):
                        out.append(make_inst(c, [a], [b0], U, ints))
    desc = dict(n=2, user_rows=1, c=cs, row_entries=list(vals), rhs=bs, U=Us,
                integer_subsets="all non-empty" + ("" if quick else " + empty"), exhaustive=True)
    return out, desc


def fam_exh_bin3(quick):
    """n=3, explicit x_j <= 1 rows for all variables, one user row (sparse rows included)."""
    if quick:
        vals, bs = (0, 2, 3, -2), (-1, 1, 3)
        cs = [(1, 1, 1), (3, 2, 1), (2, -1, 1)]
        sets = [[0, 1, 2], [0, 1], [1, 2], [0]]
    else:
        vals, bs = (0, 1, 2, 3, -1, -2), (-2, -1, 1, 2, 3, 4)
        cs = [(1, 1, 1), (3, 2, 1), (1, 2, 3), (2, -1, 1), (-1, -1, 2)]
        sets = subsets(3, False)
    out = []
    for c in cs:
        for a in itertools.product(vals, repeat=3):
            if not any(a):
                continue
            for b0 in bs:
                for ints in sets:
                    out.append(make_inst(c, [a], [b0], (1, 1, 1), ints))
    desc = dict(n=3, user_rows=1, box="x_j <= 1 for all j", c=cs, row_entries=list(vals), rhs=list(bs),
                integer_subsets=sets, exhaustive=True)
    return out, desc


def fam_fake_binary(quick):
    """Thin band  -r-s <= p*x0 - q*x1 <= -r  (LP optimum often inside [0,1]^2, integer points often need x >= 2) combined
    with rows that only LOOK like the bound x_j <= 1:  x_j - x_k <= 1 (rhs 1, one +1 coefficient),  -x_j <= 1 (rhs 1,
    single non-zero), a genuine x_k <= 1 on the *other* / on a continuous variable; the true bounds are x_j <= U_j,
    U_j in {2,3}.  Every combination of pseudo-row kinds per variable, all three integer subsets."""
    out = []
    bands = [(1, 3), (2, 3), (3, 2)] if quick else [(1, 3), (2, 3), (1, 2), (3, 2), (1, 1), (3, 1)]
    cs = [(1, 1), (2, 1), (-1, 1)] if quick else [(1, 1), (2, 1), (-1, 1), (1, -1), (1, 2)]
    kinds = ("none", "diff", "neg", "true1")
    for (p, q) in bands:
        for r in (0, 1, 2):
            for s in ((0,) if quick else (0, 1)):
                for k0 in kinds:
                    for k1 in kinds:
                        for U0 in ((3, 3), (2, 3)):
                            U = list(U0)
                            rows, rhs = [[p, -q], [-p, q]], [-r, r + s]
                            for j, kd in ((0, k0), (1, k1)):
                                if kd == "diff":
                                    rows.append([1, -1] if j == 0 else [-1, 1]); rhs.append(1)
                                elif kd == "neg":
                                    rows.append([-1, 0] if j == 0 else [0, -1]); rhs.append(1)
                                elif kd == "true1":
                                    U[j] = 1
                            for c in cs:
                                for ints in ([0, 1], [0], [1]):
                                    out.append(make_inst(c, rows, rhs, U, ints))
    # a third, continuous variable with a genuine x_2 <= 1 row: it must not be counted as a bounded *integer*
    for (p, q) in bands:
        for r in (0, 1, 2):
            for k0 in kinds:
                for k1 in kinds:
                    U = [3, 3, 1]
                    rows, rhs = [[p, -q, 0], [-p, q, 0]], [-r, r]
                    for j, kd in ((0, k0), (1, k1)):
                        if kd == "diff":
                            rows.append([1, -1, 0] if j == 0 else [-1, 1, 0]); rhs.append(1)
                        elif kd == "neg":
                            rows.append([-1, 0, 0] if j == 0 else [0, -1, 0]); rhs.append(1)
                        elif kd == "true1":
                            U[j] = 1
                    for c in ((1, 1, 1), (2, 1, -1)):
                        out.append(make_inst(c, rows, rhs, U, [0, 1]))
    # three variables: the band can be bought off with a genuinely binary switch z (coefficient -K)
    for p, q, K in ((1, 3, 3), (2, 3, 3), (1, 2, 2), (3, 2, 3)):
        for r in (1, 2):
            for cz in (2, 3, -1):
                for ints in ([0, 1, 2], [0, 1]):
                    rows = [[p, -q, -K], [-p, q, 0], [1, -1, 0], [-1, 1, 0]]
                    out.append(make_inst((1, 1, cz), rows, [-r, r, 1, 1], (3, 3, 1), ints))
    desc = dict(n="2..3", what="band rows + pseudo-bound rows (difference / negative single / genuine) + box U in {1,2,3}",
                exhaustive=True, bands=bands, r=[0, 1, 2], s=[0] if quick else [0, 1], pseudo_row_kinds_per_variable=kinds,
                boxes=[(3, 3), (2, 3)], c=cs, integer_subsets=[[0, 1], [0], [1]], plus="24 switch instances x 2 subsets")
    return out, desc


def gen_general(rng):
    n = rng.choice((1, 2, 2, 3, 3, 3, 4))
    m = rng.randint(1, 4 if n < 4 else 3)
    U = [rng.randint(1, 3 if n < 4 else 2) for _ in range(n)]
    rows, rhs = [], []
    mode = rng.random()
    anchor = [Fraction(rng.randint(0, 2 * u), 2) for u in U]  # a (half-)integer point of the box
    for _ in range(m):
        dens = rng.choice((1.0, 0.7, 0.5))
        row = [rng.randint(-3, 3) if rng.random() < dens else 0 for _ in range(n)]
        rows.append(row)
        lo = sum(min(0, a) * u for a, u in zip(row, U))
        hi = sum(max(0, a) * u for a, u in zip(row, U))
        if mode < 0.5:  # rows pass through / next to the anchor: binding, mostly feasible, often fractional vertices
            v = sum(a * t for a, t in zip(row, anchor))
            rhs.append(int(v // 1) + rng.choice((0, 0, 1)))
        elif mode < 0.7 and hi > lo:  # rhs strictly inside the range of the row over the box
            rhs.append(rng.randint(lo, hi - 1))
        else:
            rhs.append(rng.randint(-3, 6))
    f = rng.random()
    if f < 0.12:  # duplicate / parallel row
        i = rng.randrange(m)
        k = rng.choice((1, 1, 2))
        rows.append([k * v for v in rows[i]]); rhs.append(k * rhs[i] + rng.choice((0, 0, 1, -1)))
    elif f < 0.34:  # equality or thin band
        i = rng.randrange(m)
        rows.append([-v for v in rows[i]]); rhs.append(-rhs[i] + rng.choice((0, 0, 1)))
    elif f < 0.40:  # zero row
        rows.append([0] * n); rhs.append(rng.choice((0, 1, -1)))
    elif f < 0.47:  # zero column
        j = rng.randrange(n)
        for r in rows:
            r[j] = 0
    elif f < 0.55:  # degenerate vertex at the origin
        rhs = [0] * len(rhs)
    elif f < 0.62 and n >= 2:  # difference row with rhs 1 (not a bound)
        j, k = rng.sample(range(n), 2)
        rows.append([1 if t == j else -1 if t == k else 0 for t in range(n)]); rhs.append(1)
    g = rng.random()
    if g < 0.15:
        sg = rng.choice((1, -1))
        c = [sg * v for v in rows[rng.randrange(len(rows))]]  # parallel to a row: ties
    elif g < 0.21:
        c = [0] * n
    else:
        c = [rng.randint(-3, 3) for _ in range(n)]
    h = rng.random()
    if h < 0.40:
        ints = list(range(n))
    elif h < 0.45:
        ints = []
    else:
        ints = [j for j in range(n) if rng.random() < 0.5] or [rng.randrange(n)]
    scale = None
    if rng.random() < 0.15:  # non-unit bound rows: 2*x_j <= 2*U+1 is a bound but not the literal "x_j <= 1" row
        scale = [(rng.choice((1, 2, 3)),) for _ in range(n)]
        scale = [(a[0], rng.randrange(a[0])) for a in scale]
    return make_inst(c, rows, rhs, U, ints, box_pos=rng.choice(("end", "end", "start")), box_scale=scale)


def gen_binary(rng):
    """0/1 programs with explicit x_j <= 1 rows: knapsack, cover, conflict and sparse non-unit rows (the region where
    binary tightening, rounding, flips/swaps and LNS are active)."""
    n = rng.randint(3, 5)
    k = rng.randint(2, n)
    ints = sorted(rng.sample(range(n), k))
    U = [1 if j in ints else rng.randint(1, 3) for j in range(n)]
    if rng.random() < 0.12:
        U[rng.choice(ints)] = 2  # one general integer among the binaries: tightening is then NOT justified
    rows, rhs = [], []
    for _ in range(rng.randint(1, 3)):
        t = rng.random()
        if t < 0.35:  # knapsack
            row = [rng.randint(1, 5) if rng.random() < 0.85 else 0 for _ in range(n)]
            tot = sum(a * u for a, u in zip(row, U))
            rows.append(row); rhs.append(max(1, int(tot * rng.uniform(0.3, 0.7))))
        elif t < 0.6:  # cover  sum a_j x_j >= d
            row = [rng.randint(1, 3) if rng.random() < 0.8 else 0 for _ in range(n)]
            tot = sum(a * u for a, u in zip(row, U))
            rows.append([-a for a in row]); rhs.append(-max(1, int(tot * rng.uniform(0.2, 0.6))))
        elif t < 0.75:  # conflict
            i, j = rng.sample(range(n), 2)
            rows.append([1 if t2 in (i, j) else 0 for t2 in range(n)]); rhs.append(1)
        else:  # sparse non-unit row with odd rhs
            i, j = rng.sample(range(n), 2)
            a, b2 = rng.choice((2, 3)), rng.choice((2, 3))
            row = [a if t2 == i else b2 if t2 == j else 0 for t2 in range(n)]
            rows.append(row); rhs.append(rng.choice((a + b2 - 1, max(a, b2), 3)))
            if rng.random() < 0.4:
                rows[-1] = [-v for v in row]; rhs[-1] = -rng.choice((1, min(a, b2) + 1))
    if rng.random() < 0.8:
        c = [rng.randint(1, 6) for _ in range(n)]
    else:
        c = [rng.randint(-4, 6) for _ in range(n)]
    return make_inst(c, rows, rhs, U, ints, box_pos=rng.choice(("end", "start")))


def gen_fake_binary(rng):
    """Random version of fam_fake_binary with 2..4 variables."""
    n = rng.randint(2, 4)
    ints = list(range(n)) if rng.random() < 0.6 else sorted(rng.sample(range(n), rng.randint(1, n)))
    U = [rng.choice((2, 3)) for _ in range(n)]
    rows, rhs = [], []
    for j in ints:
        t = rng.random()
        if t < 0.2:
            U[j] = 1
        elif t < 0.35:
            pass  # no pseudo row at all for this integer variable
        elif t < 0.5:
            rows.append([-1 if k == j else 0 for k in range(n)]); rhs.append(1)  # -x_j <= 1: vacuous, not a bound
        else:
            row = [0] * n
            row[j] = 1
            others = [k for k in range(n) if k != j]
            for k in rng.sample(others, rng.randint(1, len(others))) if others else []:
                row[k] = -rng.choice((1, 1, 2))
            if any(v < 0 for v in row):
                rows.append(row); rhs.append(1)
    for j in range(n):
        if j not in ints and rng.random() < 0.5:
            U[j] = 1  # genuine x_j <= 1 on a continuous variable must not count for the integers
    i, j = rng.sample(range(n), 2)
    p, q = rng.randint(1, 3), rng.randint(1, 3)
    r = rng.randint(0, 2)
    band = [p if t == i else -q if t == j else 0 for t in range(n)]
    rows.append(band); rhs.append(-r)
    rows.append([-v for v in band]); rhs.append(r + rng.choice((0, 0, 1)))
    if n >= 3 and rng.random() < 0.5:
        k = rng.choice([t for t in range(n) if t not in (i, j)])
        rows[-2][k] = -rng.choice((2, 3))
    c = [rng.randint(-1, 3) for _ in range(n)]
    order = list(range(len(rows)))
    rng.shuffle(order)
    return make_inst(c, [rows[t] for t in order], [rhs[t] for t in order], U, ints)


def gen_open(rng):
    """Some variables without any bound row: the only family where UNBOUNDED can be a correct answer."""
    n = rng.randint(1, 3)
    m = rng.randint(1, 3)
    rows = [[rng.randint(-2, 3) for _ in range(n)] for _ in range(m)]
    rhs = [rng.randint(-2, 6) for _ in range(m)]
    U = [rng.randint(1, 3) if rng.random() < 0.5 else None for _ in range(n)]
    if all(u is not None for u in U):
        U[rng.randrange(n)] = None
    c = [rng.randint(-3, 3) for _ in range(n)]
    ints = [j for j in range(n) if rng.random() < 0.6] or [rng.randrange(n)]
    inst = make_inst(c, rows, rhs, U, ints)
    inst["max_nodes"] = 300
    return inst


# =============================================================================================== configurations
# (heuristics, lns_iterations, solution_limit, lns_destroy_frac, seed)
BASE_OPT = (False, 0, 1, 0.3, 0)
OPTS = [BASE_OPT, (True, 0, 1, 0.3, 0), (True, 3, 1, 0.3, 0), (True, 3, 1, 0.8, 1), (False, 3, 1, 0.3, 0),
        (True, 0, 3, 0.3, 0), (True, 2, 3, 0.5, 2), (False, 0, 3, 0.3, 0), (True, 1, 2, 0.3, 3), (False, 0, 2, 0.3, 0),
        (True, 5, 1, 0.3, 7)]


def fl(x):
    return [float(v) for v in x]


def warm_starts(inst, orc, minimize, rng):
    """[(kind, vector)]: feasible (optimal / other), infeasible (row-violating but better, fractional, negative),
    wrong length.  Built from the oracle's exact points only."""
    from oracles.milp_exact import is_feasible
    c, A, b, ints = inst["c"], inst["A"], inst["b"], inst["integers"]
    n = len(c)
    d = orc["dir"][minimize]
    out = [("none", None)]
    rx = orc["relax"][minimize]["x"]
    if d["status"] == "optimal":
        opt = d["x"]
        out.append(("feasible-optimal", fl(opt)))
        other = orc["dir"][not minimize]["x"]
        if other is None or other == opt:
            other = next((p for p in orc["points"] if p != opt), None)
        if other is not None:
            out.append(("feasible-other", fl(other)))
        # integer neighbours of the optimum that look better: they are necessarily infeasible
        viol = neg = None
        for j in rng.sample(range(n), n):
            if c[j] == 0:
                continue
            step = -1 if (c[j] > 0) == minimize else 1
            x = list(opt)
            x[j] = x[j] + step
            if is_feasible(x, A, b, ints):
                continue  # cannot happen for an exact optimum; be safe
            if any(v < 0 for v in x):
                neg = neg or x
            else:
                viol = viol or x
        if viol is None:  # far corner of the box in the improving direction
            x = [(3 if ((c[j] < 0) == minimize) else 0) for j in range(n)]
            if not is_feasible(x, A, b, ints):
                viol = x
        if viol is not None:
            out.append(("infeasible-row-better", fl(viol)))
        if neg is None:
            neg = list(opt)
            neg[rng.randrange(n)] = -1
        out.append(("infeasible-negative", fl(neg)))
        frac = None
        if rx is not None and not is_feasible(rx, A, b, ints):
            frac = rx  # relaxation optimum: LP-feasible, better objective, fractional
        elif other is not None:
            mid = [(Fraction(u) + Fraction(v)) / 2 for u, v in zip(opt, other)]
            if not is_feasible(mid, A, b, ints):
                frac = mid
        if frac is None and ints:
            frac = list(opt)
            frac[ints[0]] = Fraction(frac[ints[0]]) + Fraction(1, 2)
        if frac is not None:
            out.append(("infeasible-fractional", fl(frac)))
        out.append(("wrong-length-short", fl(opt)[:-1]))
        out.append(("wrong-length-long", fl(opt) + [0.0]))
    else:
        out.append(("infeasible-zeros", [0.0] * n))
        if rx is not None:
            out.append(("infeasible-relaxation-vertex", fl(rx)))
            out.append(("infeasible-rounded-vertex", [float(round(v)) for v in rx]))
        out.append(("infeasible-ones", [1.0] * n))
        out.append(("wrong-length-short", [0.0] * (n - 1)))
    return out


def mk_cfg(ws, opt, inst, gap_tol=None):
    cfg = {"ws_kind": ws[0], "warm_start": ws[1], "heuristics": opt[0], "lns_iterations": opt[1],
           "solution_limit": opt[2], "lns_destroy_frac": opt[3], "seed": opt[4]}
    if "max_nodes" in inst:
        cfg["max_nodes"] = inst["max_nodes"]
    if gap_tol is not None:
        cfg["gap_tol"] = gap_tol
    return cfg


def plan_cfgs(plan, wss, inst, rng):
    """Baseline first. 'full': the whole product; 'cover': every option tuple without warm start, every warm start
    under the plain and the heuristics+LNS tuples, plus `extra` random pairs of the remaining product."""
    pairs = [(w, o) for w in wss for o in OPTS]
    if plan[0] == "full":
        chosen = pairs
    else:
        must = [(w, o) for (w, o) in pairs if w[0] == "none" or o in (BASE_OPT, OPTS[2])]
        rest = [p for p in pairs if p not in must]
        chosen = must + rng.sample(rest, min(plan[1], len(rest)))
    cfgs = [mk_cfg(w, o, inst) for (w, o) in chosen]
    for w in wss[:2]:  # a loose gap tolerance on a few runs (the statement's "within gap_tol")
        if rng.random() < 0.5:
            cfgs.append(mk_cfg(w, rng.choice(OPTS[:4]), inst, gap_tol=0.2))
    return cfgs


# =============================================================================================== contract
class _Timeout(Exception):
    pass


def _alarm(signum, frame):
    raise _Timeout()


def call_solver(inst, minimize, cfg, share=False, timeout=None, ws_obj=None):
    """-> (kind, payload): ('result', Result) | ('raised', repr) | ('timeout', seconds).
    share=False: the solver gets fresh copies of the data (every call is independent of the caller's objects);
    share=True (history mode): it gets the caller's OWN c / A (and row lists) / b / integers objects, and `ws_obj`
    (a list owned by the caller) as warm start - exactly what a program that edits one model in place would pass."""
    from solvor.milp import solve_milp
    timeout = timeout or CASE_TIMEOUT
    kw = dict(minimize=minimize, heuristics=cfg["heuristics"], lns_iterations=cfg["lns_iterations"],
              solution_limit=cfg["solution_limit"], lns_destroy_frac=cfg["lns_destroy_frac"], seed=cfg["seed"])
    if cfg.get("warm_start") is not None:
        kw["warm_start"] = ws_obj if (share and ws_obj is not None) else list(cfg["warm_start"])
    for k in ("max_nodes", "gap_tol"):
        if k in cfg:
            kw[k] = cfg[k]
    if share:
        args = (inst["c"], inst["A"], inst["b"], inst["integers"])
    else:
        args = ([v for v in inst["c"]], [list(r) for r in inst["A"]], list(inst["b"]), list(inst["integers"]))
    old = signal.signal(signal.SIGVTALRM, _alarm)
    signal.setitimer(signal.ITIMER_VIRTUAL, timeout)
    try:
        try:
            with warnings.catch_warnings():
                warnings.simplefilter("ignore")
                res = solve_milp(*args, **kw)
        finally:  # disarm inside the guarded region: a late signal is still caught below
            signal.setitimer(signal.ITIMER_VIRTUAL, 0)
        return "result", res
    except _Timeout:
        return "timeout", timeout
    except Exception as e:  # noqa: BLE001 - a raise is an observation, reported by the caller
        return "raised", f"{type(e).__name__}: {e}"
    finally:
        signal.signal(signal.SIGVTALRM, old)


def tau_of(inst):
    if inst.get("tau"):  # families beyond the small scope (larger integer data): a flat tolerance, see BIG_TAU
        return inst["tau"]
    mx = max([abs(v) for r in inst["A"] for v in r] + [abs(v) for v in inst["b"]] + [abs(v) for v in inst["c"]] + [1])
    return 1e-6 * (1 + mx)


def point_errors(x, inst, tau):
    c, A, b, ints = inst["c"], inst["A"], inst["b"], inst["integers"]
    n = len(c)
    if x is None:
        return ["no solution returned"]
    try:
        x = [float(v) for v in x]
    except Exception:  # noqa: BLE001
        return [f"solution is not a numeric vector: {x!r}"]
    if len(x) != n:
        return [f"solution has length {len(x)}, expected {n}"]
    if any(v != v or v in (float("inf"), float("-inf")) for v in x):
        return [f"non-finite entry in {x}"]
    errs = []
    for j in range(n):
        if x[j] < -tau:
            errs.append(f"x[{j}] = {x[j]} < 0")
    for j in ints:
        if abs(x[j] - round(x[j])) > tau:
            errs.append(f"x[{j}] = {x[j]} is not integral")
    for i, row in enumerate(A):
        lhs = sum(row[j] * x[j] for j in range(n))
        if lhs > b[i] + tau * (1 + sum(abs(v) for v in row)):
            errs.append(f"row {i}: {row} . x = {lhs} > {b[i]}")
    return errs


def contract(inst, minimize, cfg, res, orc):
    """-> (list of (obligation, detail), status name, c.x or None)."""
    c = inst["c"]
    n = len(c)
    tau = tau_of(inst)
    st = getattr(res.status, "name", str(res.status))
    d = orc["dir"][minimize]
    sgn = 1 if minimize else -1
    v = []
    cx = None
    if st in ("OPTIMAL", "FEASIBLE"):
        x = res.solution
        errs = point_errors(x, inst, tau)
        if errs:
            v.append((P + "ensures:solution-feasible", f"status {st}, solution {x}: " + "; ".join(errs[:3])))
        elif d["status"] == "infeasible" and orc["complete"]:
            v.append((P + "ensures:solution-feasible",
                      f"status {st}, solution {x}, but the instance has no integer-feasible point (exact enumeration)"))
        for k, s in enumerate(res.solutions or ()):
            e2 = point_errors(s, inst, tau)
            if e2:
                v.append((P + "ensures:solutions-entries-feasible", f"solutions[{k}] = {s}: " + "; ".join(e2[:3])))
        if x is not None and len(x) == n:
            cx = sum(c[j] * float(x[j]) for j in range(n))
            scale = 1 + sum(abs(c[j] * float(x[j])) for j in range(n))
            if not (abs(res.objective - cx) <= tau * scale):
                v.append((P + "ensures:objective-is-cx", f"objective {res.objective} but c.x = {cx} for x = {x}"))
            if st == "OPTIMAL" and not errs:
                if d["status"] == "unbounded":
                    v.append((P + "ensures:optimal-is-proven-optimal",
                              f"status OPTIMAL (c.x = {cx}) but the MILP is unbounded"))
                elif d["status"] == "optimal":
                    opt = float(d["value"])
                    tol = cfg.get("gap_tol", 1e-6) * max(1.0, abs(cx), abs(opt)) + tau * scale
                    if sgn * cx > sgn * opt + tol:
                        v.append((P + "ensures:optimal-is-proven-optimal",
                                  f"status OPTIMAL with c.x = {cx} at {x}, but {fl(d['x'])} is integer-feasible with "
                                  f"objective {d['value']}"))
                    elif orc["complete"] and sgn * cx < sgn * opt - 1e-3 * scale:
                        raise AssertionError(f"oracle suspect: solver point {x} passes the feasibility contract and "
                                             f"beats the exact optimum {d['value']}: {inst} minimize={minimize}")
    elif st == "INFEASIBLE":
        if budget_exhausted(cfg, res):
            pass  # node budget exhausted (max_nodes is not among the property's configurations): see notes
        elif d["status"] != "infeasible":
            v.append((P + "ensures:infeasible-means-no-integer-point",
                      f"status INFEASIBLE but {fl(d['x'])} is integer-feasible (objective {_dot(c, d['x'])})"))
    elif st == "UNBOUNDED":
        rs = orc["relax"][minimize]["status"]
        if rs != "unbounded":
            v.append((P + "ensures:unbounded-only-if-relaxation-unbounded",
                      f"status UNBOUNDED but the LP relaxation is {rs}"
                      + (f" with optimum {orc['relax'][minimize]['objective']}" if rs == "optimal" else "")))
    return v, st, cx


def _dot(u, w):
    return sum(a * q for a, q in zip(u, w))


def case_of(inst, minimize, cfg, fam, base_cfg=None):
    cs = {"family": fam, "c": inst["c"], "A": inst["A"], "b": inst["b"], "integers": inst["integers"],
          "minimize": minimize, "cfg": cfg}
    if base_cfg is not None:
        cs["baseline_cfg"] = base_cfg
    return cs


def budget_exhausted(cfg, res):
    """Node budget used up (explicit max_nodes of the open-box family, or the default 100 000 in a long run): what is
    reported then (FEASIBLE, or INFEASIBLE without incumbent) is outside the property's configurations."""
    return res.iterations >= cfg.get("max_nodes", 100_000)


def invariance(inst, minimize, cfg, got, base_cfg, base):
    """got/base = (kind, status, cx, node budget exhausted). Only for solution_limit == 1."""
    if base[0] != "result" or cfg.get("gap_tol") != base_cfg.get("gap_tol"):
        return None  # the clause is about warm_start / heuristics / LNS only
    if (got[0] == "result" and got[3]) or base[3]:
        return None  # node budget (max_nodes, set only in the open-box family) exhausted in one of the runs: what is
        #              reported then is outside the property's configurations (see notes: outside-quantifier)
    if got[0] != "result":
        return f"plain run returns {base[1]} but this configuration gives no verdict ({got[0]}: {got[1]})"
    if got[1] != base[1]:
        return f"status {got[1]} with this configuration, {base[1]} without warm start/heuristics/LNS"
    if got[1] == "OPTIMAL" and got[2] is not None and base[2] is not None:
        g = max(cfg.get("gap_tol", 1e-6), base_cfg.get("gap_tol", 1e-6))
        if abs(got[2] - base[2]) > g * max(1.0, abs(got[2]), abs(base[2])) + 10 * tau_of(inst) * (1 + abs(base[2])):
            return f"OPTIMAL objective {got[2]} with this configuration, {base[2]} without warm start/heuristics/LNS"
    return None


_HOOKED = False
_REACH = {}


def _hook_reach():
    """Count calls of the heuristic helpers (observation only; behaviour unchanged)."""
    global _HOOKED
    if _HOOKED:
        return
    _HOOKED = True
    import solvor.milp as M

    def wrap(name, pred=None):
        f = getattr(M, name, None)
        if f is None:
            return

        def g(*a, **k):
            r = f(*a, **k)
            if pred is None or pred(r):
                _REACH[name] = _REACH.get(name, 0) + 1
            return r
        setattr(M, name, g)
    wrap("_round_binary", lambda r: r is not None)
    wrap("_lns_improve")
    wrap("_solve_sub_mip", lambda r: r is not None)
    wrap("_detect_binary", lambda r: bool(r))


def work(unit):
    """One instance: oracle once, both directions, planned configurations. Returns plain data."""
    inst, fam, plan, seed = unit
    if isinstance(inst, str):
        inst = json.loads(inst)
    use_repo()
    _hook_reach()
    from oracles.milp_exact import solve as exact
    rng = random.Random(seed)
    _REACH.clear()
    t0 = time.process_time()
    orc = exact(inst["c"], inst["A"], inst["b"], inst["integers"])
    out = {"n": 0, "keys": [], "viol": [], "stat": {}, "sample": None, "noverdict": []}

    def bump(k, by=1):
        out["stat"][k] = out["stat"].get(k, 0) + by

    bump("family:" + fam)
    bump("instances")
    if not orc["complete"]:
        bump("instances-with-open-box")
    for minimize in (True, False):
        d = orc["dir"][minimize]
        rl = orc["relax"][minimize]
        nontrivial = (d["status"] == "infeasible" and rl["status"] != "infeasible") or \
                     (d["status"] == "optimal" and rl["status"] == "optimal" and rl["objective"] != d["value"]) or \
                     (d["status"] == "optimal" and rl["status"] == "unbounded")
        bump("instance-directions")
        bump("oracle:" + d["status"])
        if nontrivial:
            bump("instance-directions-nontrivial")
            bump("nontrivial-directions:" + fam)
        wss = warm_starts(inst, orc, minimize, rng)
        cfgs = plan_cfgs(plan, wss, inst, rng)
        if not nontrivial and plan[0] != "full":
            # integrality does not matter here (root LP answers it): plain run, two heuristic runs, 5 random others
            cfgs = cfgs[:1] + [cf for cf in cfgs[1:] if cf["ws_kind"] == "none" and
                               (cf["heuristics"], cf["lns_iterations"], cf["solution_limit"]) in ((True, 3, 1), (True, 0, 3))
                               and "gap_tol" not in cf][:2] + rng.sample(cfgs[1:], min(5, len(cfgs) - 1))
        base_cfg, base = cfgs[0], None
        for idx, cfg in enumerate(cfgs):
            kind, res = call_solver(inst, minimize, cfg)
            out["n"] += 1
            bump("ws:" + cfg["ws_kind"])
            if kind == "result":
                viols, st, cx = contract(inst, minimize, cfg, res, orc)
                got = ("result", st, cx, budget_exhausted(cfg, res))
                bump("status:" + st)
                if got[3]:
                    bump("node-budget-exhausted(open-box family)")
                for ob, det in viols:
                    out["viol"].append((ob, case_of(inst, minimize, cfg, fam), det))
            else:
                got = (kind, res, None, False)
                bump("no-verdict:" + kind)
                if len(out["noverdict"]) < 3:
                    out["noverdict"].append({"case": case_of(inst, minimize, cfg, fam), "what": f"{kind}: {res}"})
            if idx == 0:
                base = got
            elif cfg["solution_limit"] == 1:
                msg = invariance(inst, minimize, cfg, got, base_cfg, base)
                if msg:
                    out["viol"].append((P + "ensures:verdict-invariant", case_of(inst, minimize, cfg, fam, base_cfg), msg))
            if nontrivial:
                out["keys"].append(int(digest([inst["c"], inst["A"], inst["b"], inst["integers"], minimize, cfg])[:15], 16))
            if out["sample"] is None and nontrivial and cfg["ws_kind"] != "none" and cfg["heuristics"]:
                out["sample"] = case_of(inst, minimize, cfg, fam)
        if nontrivial and fam in ("random-general", "random-binary"):
            # informational only (max_nodes is outside the property's quantifier): what a tiny node budget reports
            for mxn in (1, 2):
                cf = dict(base_cfg, max_nodes=mxn)
                kind, res = call_solver(inst, minimize, cf)
                if kind != "result":
                    continue
                st = getattr(res.status, "name", str(res.status))
                bump(f"outside-quantifier:max_nodes={mxn}:status:{st}")
                if st == "INFEASIBLE" and d["status"] != "infeasible":
                    bump(f"outside-quantifier:max_nodes={mxn}:INFEASIBLE-although-integer-feasible")
                    if len(out["noverdict"]) < 3:
                        out["noverdict"].append({"case": case_of(inst, minimize, cf, fam),
                                                 "what": "outside quantifier: node budget exhausted, status INFEASIBLE, "
                                                         f"but {fl(d['x'])} is integer-feasible"})
    for k, n_ in _REACH.items():
        bump("reached:" + k, n_)
    bump("cpu_ms:" + fam, int(1000 * (time.process_time() - t0)))
    return out


def work_chunk(units):
    return [work(u) for u in units]


# =============================================================================================== round 2
# Beyond the small scope.  Three capabilities, none of them tied to a particular defect:
#   (a) SIZE LADDER: instances with 10 .. 1000+ variables whose verdict is known from a cheap certifying oracle
#       (block-diagonal composition of exactly solved blocks; planted integer point with an LP-duality certificate);
#   (b) LONG RUNS: single-row 0/1 and bounded-integer programs (exact weight / knapsack / cover, 14..22 variables) that need
#       thousands of nodes and well over 10 000 simplex pivots, judged by meet-in-the-middle enumeration;
#   (c) HISTORY MODE: sequences of calls in ONE process on the SAME argument objects (c, A and its row lists, b, integers,
#       the warm-start list) with in-place edits between the calls; every call is judged against the oracle for the
#       model as it is at that call, and the last call is compared with a fresh process.
# All of them reuse `contract` (the clauses of the property statement) unchanged.
BIG_TAU = 2e-6      # flat float tolerance for (a)/(b): integer data up to 999, so a wrong row / value is off by >= 1e-2
BIG_TIMEOUT = {True: 150, False: 1200}  # CPU seconds per call (quick / thorough); a time-out is recorded, never judged
SIZES_QUICK = (10, 11, 12, 33, 65, 129, 140)
SIZES_THOROUGH = (10, 11, 12, 16, 17, 31, 33, 64, 65, 100, 128, 129, 130, 140, 200, 256, 260)


def _single_block(rng, binary):
    """One-variable filler block (LP optimum integral)."""
    u = 1 if binary else rng.randint(1, 3)
    return make_inst([rng.randint(-3, 4)], [], [], [u], [0])


def _is_all_binary(inst):
    from oracles.milp_exact import explicit_bounds
    ub = explicit_bounds(inst["A"], inst["b"], len(inst["c"]))
    return all(ub[j] == 1 for j in inst["integers"])


def _draw_block(rng, flavour):
    if flavour == "binary":
        for _ in range(20):
            inst = gen_binary(rng)
            if _is_all_binary(inst):
                return inst
        return _single_block(rng, True)
    if flavour == "fake-binary":
        return gen_fake_binary(rng)
    return rng.choice((gen_general, gen_general, gen_binary, gen_fake_binary))(rng)


def _block_verdict(inst, mn):
    """('optimal', value, x, fractional?) | ('infeasible', relaxation status) | None (not usable)."""
    from oracles.milp_exact import solve as exact
    o = exact(inst["c"], inst["A"], inst["b"], inst["integers"])
    if not o["complete"]:
        return None
    d, rl = o["dir"][mn], o["relax"][mn]
    if d["status"] == "optimal" and rl["status"] == "optimal":
        return ("optimal", d["value"], d["x"], rl["objective"] != d["value"])
    if d["status"] == "infeasible" and rl["status"] in ("optimal", "infeasible"):
        return ("infeasible", rl["status"])
    return None


def _expected_of_blocks(verdicts, offs, perm, n):
    from oracles.milp_certs import place
    bad = [v for v in verdicts if v[0] == "infeasible"]
    if bad:
        return {"status": "infeasible", "relax": "infeasible" if any(v[1] == "infeasible" for v in bad) else "optimal"}
    return {"status": "optimal", "relax": "optimal", "value": sum((v[1] for v in verdicts), Fraction(0)),
            "x": place([v[2] for v in verdicts], offs, perm, n)}


def gen_block_ladder(rng, N, F, mn, flavour, want, shuffle):
    """Block-diagonal instance with exactly N variables: F blocks with an integrality gap (LP optimum != MILP optimum in
    direction mn), the rest with LP optimum == MILP optimum; want='infeasible' adds one block without integer point."""
    from oracles.milp_certs import compose
    blocks, verdicts = [], []
    n = nf = 0
    need_bad = 1 if want == "infeasible" else 0
    stale = 0
    while n < N:
        stale += 1
        inst = _draw_block(rng, flavour) if stale < 60 else _single_block(rng, flavour == "binary")
        k = len(inst["c"])
        if n + k > N:
            continue
        v = _block_verdict(inst, mn)
        if v is None:
            continue
        if v[0] == "infeasible":
            if not need_bad:
                continue
            need_bad -= 1
        elif v[3]:
            if nf >= F:
                continue
            nf += 1
        elif nf < F and n + k > N - 3 * (F - nf) and stale < 40:
            continue  # keep room for the blocks with a gap that are still wanted
        blocks.append(inst); verdicts.append(v)
        n += k
        stale = 0
    order = list(range(len(blocks)))
    rng.shuffle(order)
    blocks, verdicts = [blocks[i] for i in order], [verdicts[i] for i in order]
    perm = prow = None
    if shuffle:
        perm = list(range(N)); rng.shuffle(perm)
        prow = list(range(sum(len(bl["b"]) for bl in blocks))); rng.shuffle(prow)
    c, rows, b, ints, offs = compose(blocks, perm, prow)
    return {"c": c, "rows": rows, "b": b, "integers": ints, "minimize": mn,
            "expected": _expected_of_blocks(verdicts, offs, perm, N),
            "nontrivial": nf > 0 or any(v[0] == "infeasible" and v[1] == "optimal" for v in verdicts),
            "meta": {"n": N, "rows": len(b), "blocks": len(blocks), "blocks_with_gap": nf, "flavour": flavour, "want": want,
                     "shuffled": bool(shuffle)},
            "_blocks": blocks, "_verdicts": verdicts, "_offs": offs, "_perm": perm, "_prow": prow}


def edit_block_in_place(rng, g, A, b):
    """History step on a composed instance: change one coefficient or one right-hand side of one block IN PLACE in the
    dense matrix the solver was given before; only that block's exact verdict is recomputed.  -> (ops, expected) | None"""
    blocks, verdicts = g["_blocks"], g["_verdicts"]
    N = len(g["c"])
    perm = g["_perm"] or list(range(N))
    rowstart, r0 = [], 0
    for bl in blocks:
        rowstart.append(r0); r0 += len(bl["b"])
    pos = {old: k for k, old in enumerate(g["_prow"])} if g["_prow"] else None
    for _ in range(40):
        t = rng.randrange(len(blocks))
        bl = blocks[t]
        k = len(bl["c"])
        i = rng.randrange(len(bl["b"]))
        new = {"c": bl["c"], "A": [list(r) for r in bl["A"]], "b": list(bl["b"]), "integers": bl["integers"]}
        if rng.random() < 0.75:
            j = rng.randrange(k)
            val = rng.choice([v for v in (-3, -2, -1, 0, 1, 2, 3) if v != bl["A"][i][j]])
            new["A"][i][j] = val
            gi = rowstart[t] + i
            op = ["setA", pos[gi] if pos else gi, perm[g["_offs"][t] + j], val]
        else:
            val = bl["b"][i] + rng.choice((-2, -1, 1, 2))
            new["b"][i] = val
            gi = rowstart[t] + i
            op = ["setb", pos[gi] if pos else gi, val]
        v = _block_verdict(new, g["minimize"])
        if v is None:
            continue
        apply_op(op, {"A": A, "b": b})
        blocks[t], verdicts[t] = new, v
        return [op], _expected_of_blocks(verdicts, g["_offs"], g["_perm"], N)
    return None


def gen_planted_dual(rng, N, mn, tie, wide=False, xpos=0.3):
    """Coupled sparse rows (2..5 non-zeros in -3..3), an integer point x* planted, right-hand sides b = A x* + slack,
    multipliers y on the tight rows and reduced costs r on the columns with x*_j = 0 chosen at random (zero with probability
    `tie`: degenerate / tied optima), objective w = r - A^T y: x* is optimal by LP duality (oracles.milp_certs).
    Bounded by explicit rows x_j <= U_j (N + N/2..N rows), or - wide=True, for 500..1000+ variables - by one row with
    positive coefficients per group of 6..12 variables (N/9 + N/15 rows: few rows, many columns)."""
    from oracles.milp_certs import check_dual_certificate
    U = [rng.randint(1, 3) for _ in range(N)]
    if wide:
        x = [rng.choice((1, 1, 2, 3)) if rng.random() < xpos else 0 for _ in range(N)]  # xpos: share of positive entries
    else:
        x = [rng.choice((0, 0, u, rng.randint(0, u))) for u in U]
    rows, b, y = [], [], []
    for _ in range(max(2, N // 15 if wide else rng.randint(N // 2, N))):
        cols = rng.sample(range(N), min(N, rng.randint(2, 5)))
        row = sorted([j, rng.choice((-3, -2, -1, 1, 2, 3))] for j in cols)
        slack = 0 if rng.random() < 0.6 else rng.randint(1, 3)
        rows.append(row); b.append(sum(v * x[j] for j, v in row) + slack)
        y.append(0 if slack or rng.random() < tie else rng.randint(1, 3))
    if wide:
        box, j = [], 0
        order = list(range(N)); rng.shuffle(order)
        while j < N:
            grp = sorted(order[j:j + rng.randint(6, 12)])
            j += len(grp)
            row = [[q, rng.randint(1, 3)] for q in grp]
            slack = 0 if rng.random() < 0.5 else rng.randint(1, 4)
            box.append((row, sum(v * x[q] for q, v in row) + slack, 0 if slack or rng.random() < tie else rng.randint(1, 3)))
    else:
        box = [([[j, 1]], U[j], 0 if U[j] > x[j] or rng.random() < tie else rng.randint(1, 3)) for j in range(N)]
    if rng.random() < 0.5:
        rows, b, y = [t[0] for t in box] + rows, [t[1] for t in box] + b, [t[2] for t in box] + y
    else:
        rows, b, y = rows + [t[0] for t in box], b + [t[1] for t in box], y + [t[2] for t in box]
    w = [0 if x[j] or rng.random() < tie else rng.randint(1, 3) for j in range(N)]
    for i, row in enumerate(rows):
        for j, v in row:
            w[j] -= v * y[i]
    val = check_dual_certificate(w, rows, b, x, y)
    ints = list(range(N)) if rng.random() < 0.5 else sorted(j for j in range(N) if rng.random() < 0.6) or [0]
    return {"c": w if mn else [-v for v in w], "rows": rows, "b": b, "integers": ints, "minimize": mn,
            "expected": {"status": "optimal", "relax": "optimal", "value": val if mn else -val, "x": [Fraction(v) for v in x]},
            "nontrivial": False,  # LP optimum == MILP optimum by construction: these runs are counted, not as non-trivial
            "meta": {"n": N, "rows": len(b), "tie": tie, "wide": wide, "positive_entries_of_x*": sum(1 for v in x if v),
                     "certificate": "LP duality (y, reduced costs) verified exactly"}}


ROW_FLAVOURS = ("exact-weight", "exact-weight", "exact-weight-bounded", "knapsack-correlated", "knapsack-ties", "cover")


def gen_single_row(rng, n, flavour):
    """One weight row over n bounded integer variables (+ box rows): equality (two rows), <= or >=; exact optimum by
    meet-in-the-middle enumeration.  Integer data: costs 1..9 / weights 100..999 (exact-weight), weights 20..99 with cost
    = weight + 10 (correlated), weights and capacity multiples of one base with cost = k * weight (ties everywhere)."""
    U = [1] * n
    if flavour in ("exact-weight", "exact-weight-bounded"):
        if flavour == "exact-weight-bounded":
            U = [rng.randint(1, 2) for _ in range(n)]
        c = [rng.randint(1, 9) for _ in range(n)]
        w = [rng.randint(100, 999) for _ in range(n)]
        T = sum(wj * rng.randint(0, u) for wj, u in zip(w, U)) or w[0]
        kind, mn = "eq", rng.random() < 0.5
    elif flavour == "knapsack-correlated":
        w = [rng.randint(20, 99) for _ in range(n)]
        c = [wj + 10 for wj in w]
        T = sum(w) // 2 + rng.randint(-20, 20)
        kind, mn = "le", False
    elif flavour == "knapsack-ties":
        base = rng.choice((5, 10, 12))
        w = [base * rng.randint(2, 9) for _ in range(n)]
        k = rng.randint(1, 3)
        c = [k * wj for wj in w]
        T = base * rng.randint(sum(w) // (3 * base), sum(w) // (2 * base)) + rng.choice((0, 0, 1, base - 1))
        kind, mn = rng.choice(("le", "eq")), False
    else:  # cover
        w = [rng.randint(20, 99) for _ in range(n)]
        c = [wj + rng.randint(-5, 15) for wj in w]
        T = sum(w) // 2 + rng.randint(-20, 20)
        kind, mn = "ge", True
    return _single_row_instance(c, w, U, T, kind, mn, flavour)


def _single_row_instance(c, w, U, T, kind, mn, flavour):
    from oracles.milp_certs import mitm_row
    n = len(c)
    rows, b = [], []
    if kind in ("eq", "le"):
        rows.append([[j, w[j]] for j in range(n) if w[j]]); b.append(T)
    if kind in ("eq", "ge"):
        rows.append([[j, -w[j]] for j in range(n) if w[j]]); b.append(-T)
    for j in range(n):
        rows.append([[j, 1]]); b.append(U[j])
    r = mitm_row(c, w, U, T, kind, mn)
    exp = {"status": "infeasible", "relax": None} if r is None else \
        {"status": "optimal", "relax": "optimal", "value": Fraction(r[0]), "x": [Fraction(v) for v in r[1]]}
    return {"c": list(c), "rows": rows, "b": b, "integers": list(range(n)), "minimize": mn, "expected": exp,
            "nontrivial": None,  # decided by the exact LP relaxation in the worker
            "meta": {"n": n, "rows": len(b), "flavour": flavour, "kind": kind, "T": T},
            "_row": (list(c), list(w), list(U), T, kind)}


def edit_weight_in_place(rng, g, A, b):
    """History step on a single-row instance: one weight changed in place (both rows of an equality)."""
    c, w, U, T, kind = g["_row"]
    j = rng.randrange(len(w))
    w = list(w)
    w[j] = max(1, w[j] + rng.choice((-7, -3, -1, 1, 2, 5, 11)))
    ops, i = [], 0
    if kind in ("eq", "le"):
        ops.append(["setA", i, j, w[j]]); i += 1
    if kind in ("eq", "ge"):
        ops.append(["setA", i, j, -w[j]])
    for op in ops:
        apply_op(op, {"A": A, "b": b})
    g2 = _single_row_instance(c, w, U, T, kind, g["minimize"], g["meta"]["flavour"])
    g["_row"] = g2["_row"]
    return ops, g2["expected"]


# ---------------------------------------------------------------------------------------- in-place edit operations
def apply_op(op, S):
    """Apply one recorded edit IN PLACE to the live objects S = {c, A, b, integers, minimize} (replay uses the same code)."""
    k = op[0]
    if k == "setA":
        S["A"][op[1]][op[2]] = op[3]
    elif k == "setb":
        S["b"][op[1]] = op[2]
    elif k == "setc":
        S["c"][op[1]] = op[2]
    elif k == "append_row":
        S["A"].append(list(op[1])); S["b"].append(op[2])
    elif k == "pop_row":
        S["A"].pop(); S["b"].pop()
    elif k == "scale_row":
        row = S["A"][op[1]]
        for j in range(len(row)):
            row[j] *= op[2]
        S["b"][op[1]] *= op[2]
    elif k == "replace_row":
        S["A"][op[1]] = list(op[2])
    elif k == "flip":
        S["minimize"] = not S["minimize"]
    elif k == "ints_add":
        S["integers"].append(op[1]); S["integers"].sort()
    elif k == "ints_remove":
        S["integers"].remove(op[1])
    elif k == "swap_cols":
        j, t = op[1], op[2]
        for row in S["A"]:
            row[j], row[t] = row[t], row[j]
        S["c"][j], S["c"][t] = S["c"][t], S["c"][j]
        S["integers"][:] = sorted({t if q == j else j if q == t else q for q in S["integers"]})
    elif k != "none":
        raise ValueError(f"unknown edit {op}")


def pick_op(rng, S, box):
    """A random edit of the live model; `box` = indices of the explicit bound rows, which stay bounds (so that the exact
    oracle keeps a complete box).  -> op (not yet applied)."""
    n, m = len(S["c"]), len(S["b"])
    user = [i for i in range(m) if i not in box]
    for _ in range(30):
        t = rng.random()
        if t < 0.36 and user:
            i, j = rng.choice(user), rng.randrange(n)
            return ["setA", i, j, rng.choice([v for v in (-3, -2, -1, 0, 1, 2, 3) if v != S["A"][i][j]])]
        if t < 0.46:
            i = rng.randrange(m)
            if i in box:
                a = max(v for v in S["A"][i])
                return ["setb", i, a * rng.randint(1, 3) + rng.randrange(a)]
            return ["setb", i, S["b"][i] + rng.choice((-2, -1, 1, 2))]
        if t < 0.56:
            j = rng.randrange(n)
            return ["setc", j, rng.choice([v for v in (-3, -2, -1, 0, 1, 2, 3) if v != S["c"][j]])]
        if t < 0.66:
            return ["none"]
        if t < 0.72:
            return ["flip"]
        if t < 0.80 and len(user) < 5:
            return ["append_row", [rng.randint(-3, 3) for _ in range(n)], rng.randint(-3, 6)]
        if t < 0.84 and m - 1 not in box and len(user) > 1:
            return ["pop_row"]
        if t < 0.89:
            i = rng.randrange(m)
            if max(abs(v) for v in S["A"][i] + [S["b"][i]]) <= 6:
                return ["scale_row", i, rng.choice((2, 3))]
        if t < 0.94 and user:
            i = rng.choice(user)
            return ["replace_row", i, [rng.randint(-3, 3) for _ in range(n)]]
        if t < 0.98:
            j = rng.randrange(n)
            if j in S["integers"]:
                if len(S["integers"]) > 1:
                    return ["ints_remove", j]
            else:
                return ["ints_add", j]
        if n >= 2:
            j, q = rng.sample(range(n), 2)
            return ["swap_cols", j, q]
    return ["none"]


def _snap(S):
    return {"c": list(S["c"]), "A": [list(r) for r in S["A"]], "b": list(S["b"]), "integers": list(S["integers"])}


def _fresh_process(snapshot, mn, cfg):
    """The same call in a brand-new interpreter (python -m checks.C04 --fresh): nothing of this process' history."""
    import os
    import subprocess
    import sys
    here = os.path.dirname(os.path.dirname(os.path.abspath(__file__)))
    p = subprocess.run([sys.executable, "-m", "checks.C04", "--fresh"], cwd=here, capture_output=True, text=True,
                       input=json.dumps({"inst": snapshot, "minimize": mn, "cfg": cfg}))
    try:
        return json.loads(p.stdout.strip().splitlines()[-1])
    except Exception:  # noqa: BLE001
        return {"kind": "fresh-process-failed", "what": (p.stderr or p.stdout)[-300:]}


def _fresh_main():
    import sys
    q = json.loads(sys.stdin.read())
    use_repo()
    kind, res = call_solver(q["inst"], q["minimize"], q["cfg"])
    if kind != "result":
        print(json.dumps({"kind": kind, "what": str(res)}))
        return
    x = res.solution
    cx = None
    if x is not None and len(x) == len(q["inst"]["c"]):
        cx = sum(cj * float(v) for cj, v in zip(q["inst"]["c"], x))
    print(json.dumps({"kind": "result", "status": getattr(res.status, "name", str(res.status)), "cx": cx,
                      "solution": None if x is None else [float(v) for v in x]}))


def compare_with_fresh(inst, cfg, got, fresh):
    """got = (kind, status, cx, budget) of the call made after a history; fresh = dict from a new process."""
    if cfg["solution_limit"] != 1 or got[3]:
        return None
    if got[0] != "result" or fresh.get("kind") != "result":
        if (got[0] == "result") != (fresh.get("kind") == "result"):
            return f"after the history: {got[:2]}; the same call in a fresh process: {fresh}"
        return None
    if got[1] != fresh["status"]:
        return f"status {got[1]} after the history, {fresh['status']} for the same call in a fresh process"
    if got[1] == "OPTIMAL" and got[2] is not None and fresh.get("cx") is not None:
        g = cfg.get("gap_tol", 1e-6)
        if abs(got[2] - fresh["cx"]) > g * max(1.0, abs(got[2]), abs(fresh["cx"])) + 10 * tau_of(inst) * (1 + abs(got[2])):
            return f"OPTIMAL objective {got[2]} after the history, {fresh['cx']} for the same call in a fresh process"
    return None


def _new_out(fam):
    out = {"n": 0, "keys": [], "viol": [], "stat": {}, "sample": None, "noverdict": []}
    out["stat"]["family:" + fam] = 1
    return out


def _bump(out, k, by=1):
    out["stat"][k] = out["stat"].get(k, 0) + by


def _relax_nontrivial(snapshot, mn, orc):
    d, rl = orc["dir"][mn], orc["relax"][mn]
    return (d["status"] == "infeasible" and rl["status"] != "infeasible") or \
        (d["status"] == "optimal" and rl["status"] == "optimal" and rl["objective"] != d["value"]) or \
        (d["status"] == "optimal" and rl["status"] == "unbounded")


# ---------------------------------------------------------------------------------------- history mode, small scope
def work_history(unit):
    """One sequence of calls on the SAME objects with in-place edits in between (exact oracle per call)."""
    fam, length, seed, fresh = unit
    use_repo()
    _hook_reach()
    from oracles.milp_exact import solve as exact
    rng = random.Random(seed)
    t0 = time.process_time()
    out = _new_out(fam)
    gen = {"history-general": gen_general, "history-binary": gen_binary, "history-fake-binary": gen_fake_binary}[fam]
    inst = gen(rng)
    S = {"c": inst["c"], "A": inst["A"], "b": inst["b"], "integers": inst["integers"], "minimize": rng.random() < 0.5}
    box = set()  # every row that is a bound a*x_j <= r (a > 0) stays one: the exact oracle's box stays complete
    for i, row in enumerate(S["A"]):
        nz = [j for j, v in enumerate(row) if v]
        if len(nz) == 1 and row[nz[0]] > 0:
            box.add(i)
    ws_obj = []
    steps = []
    cache = {}
    last = None
    for k in range(length):
        ops = []
        if k:
            for _ in range(1 if rng.random() < 0.8 else 2):
                op = pick_op(rng, S, box)
                apply_op(op, S)
                ops.append(op)
        snap = _snap(S)
        mn = S["minimize"]
        key = digest(snap)
        if key not in cache:
            cache[key] = exact(snap["c"], snap["A"], snap["b"], snap["integers"])
        orc = cache[key]
        if not orc["complete"]:  # cannot happen while the bound rows are protected; do not judge if it does
            _bump(out, "history:oracle-box-incomplete")
        wss = warm_starts(snap, orc, mn, rng)
        w = rng.choice(wss) if rng.random() < 0.5 else wss[0]
        cfg = mk_cfg(w, rng.choice(OPTS), snap)
        if w[1] is not None:
            ws_obj[:] = w[1]  # the caller's warm-start list is reused and overwritten in place as well
        steps.append({"ops": ops, "state": dict(snap, minimize=mn), "cfg": cfg})
        kind, res = call_solver(S, mn, cfg, share=True, ws_obj=ws_obj)
        out["n"] += 1
        _bump(out, "history:calls")
        for op in ops:
            _bump(out, "history:edit:" + op[0])
        if _snap(S) != snap:
            _bump(out, "history:solver-changed-its-arguments")
        nontrivial = _relax_nontrivial(snap, mn, orc)
        if kind == "result":
            viols, st, cx = contract(snap, mn, cfg, res, orc)
            got = ("result", st, cx, False)
            _bump(out, "status:" + st)
            for ob, det in viols:
                out["viol"].append((ob, {"family": fam, "history": [dict(s) for s in steps], "failing_call": k},
                                    f"call {k + 1} of a sequence on the same objects (edits before it: {ops}): " + det))
        else:
            got = (kind, res, None, False)
            _bump(out, "no-verdict:" + kind)
        last = (snap, mn, cfg, got)
        if nontrivial:
            out["keys"].append(int(digest(["history", fam, seed, k])[:15], 16))
        if out["viol"]:
            break  # later calls of a sequence that already failed add nothing
    if fresh and last is not None and not out["viol"]:
        snap, mn, cfg, got = last
        fr = _fresh_process(snap, mn, cfg)
        out["n"] += 1
        _bump(out, "history:last-call-repeated-in-a-fresh-process")
        if fr.get("kind") == "fresh-process-failed":
            _bump(out, "history:fresh-process-failed")
            out["noverdict"].append({"case": {"family": fam, "history": steps}, "what": str(fr)})
        else:
            msg = compare_with_fresh(snap, cfg, got, fr)
            if msg:
                out["viol"].append((P + "ensures:same-verdict-as-in-a-fresh-process",
                                    {"family": fam, "history": [dict(s) for s in steps], "failing_call": len(steps) - 1,
                                     "compare_with_fresh_process": True}, msg))
    for k_, n_ in _REACH.items():
        _bump(out, "reached:" + k_, n_)
    _REACH.clear()
    _bump(out, "cpu_ms:" + fam, int(1000 * (time.process_time() - t0)))
    return out


# ---------------------------------------------------------------------------------------- ladder / long runs
def _orc_of(expected, mn):
    d = {"status": expected["status"], "value": expected.get("value"), "x": expected.get("x")}
    return {"complete": True, "dir": {mn: d},
            "relax": {mn: {"status": expected.get("relax") or "optimal", "objective": None, "x": None}}}


def _expected_json(e):
    return {"status": e["status"], "relax": e.get("relax"), "value": None if e.get("value") is None else str(e["value"]),
            "x": None if e.get("x") is None else [str(v) for v in e["x"]]}


def big_cfgs(g, rng, k):
    """Plain first; heuristics + LNS; the certified optimum as warm start; an infeasible warm start; solution_limit 3;
    a second LNS setting - the first k of them."""
    e = g["expected"]
    n = len(g["c"])
    out = [(("none", None), BASE_OPT), (("none", None), OPTS[2])]
    if e["status"] == "optimal":
        xo = fl(e["x"])
        bad = list(xo)
        j = rng.randrange(n)
        bad[j] += 4.0  # beyond every box of the generators
        out += [(("feasible-optimal", xo), OPTS[1]), (("infeasible-row-better", bad), OPTS[2]),
                (("none", None), OPTS[6]), (("feasible-optimal", xo), OPTS[3])]
    else:
        out += [(("infeasible-zeros", [0.0] * n), OPTS[2]), (("infeasible-ones", [1.0] * n), BASE_OPT),
                (("none", None), OPTS[6]), (("wrong-length-short", [0.0] * (n - 1)), OPTS[3])]
    sel = out[:k] if isinstance(k, int) else [out[i] for i in k]
    return [mk_cfg(w, o, {}) for (w, o) in sel]


def build_big(kind, params, rng):
    if kind == "ladder-blocks":
        return gen_block_ladder(rng, params["n"], params["gap_blocks"], params["minimize"], params["flavour"],
                                params["want"], params["shuffle"])
    if kind == "ladder-planted-dual":
        return gen_planted_dual(rng, params["n"], params["minimize"], params["tie"], params.get("wide", False),
                                params.get("xpos", 0.3))
    if kind == "long-run-single-row":
        return gen_single_row(rng, params["n"], params["flavour"])
    raise ValueError(kind)


def work_big(unit):
    """One instance beyond the small scope: generate (deterministic from the seed), certify, call solve_milp with several
    configurations on the SAME objects, then (history) edit the model in place and call again."""
    kind, params, seed, quick = unit
    use_repo()
    _hook_reach()
    from oracles.milp_certs import sparse_feasible, to_dense
    rng = random.Random(seed)
    t0 = time.process_time()
    out = _new_out(kind)
    g = build_big(kind, params, rng)
    n, mn = len(g["c"]), g["minimize"]
    e = g["expected"]
    if e["status"] == "optimal":  # the witness is re-verified exactly against the rows the solver is going to see
        if not sparse_feasible(e["x"], g["rows"], g["b"], g["integers"]) or \
                sum(Fraction(cj) * xj for cj, xj in zip(g["c"], e["x"])) != e["value"]:
            raise AssertionError(f"C04 {kind}: certified witness does not check out ({params}, seed {seed})")
    if g["nontrivial"] is None:
        if e["status"] == "optimal" and n <= 24:
            from oracles import lp_exact
            rl = lp_exact.solve(g["c"], to_dense(g["rows"], n), g["b"], mn)
            g["nontrivial"] = rl["status"] == "optimal" and rl["objective"] != e["value"]
        else:
            g["nontrivial"] = False
    S = {"c": list(g["c"]), "A": to_dense(g["rows"], n), "b": list(g["b"]), "integers": list(g["integers"]), "tau": BIG_TAU}
    ws_obj = []
    steps = []
    base = base_cfg = None
    base_idx = 0
    plan = [("cfg", cf) for cf in big_cfgs(g, rng, params["ncfg"])]
    if params.get("history"):
        plan += [("edit", None), ("cfg", mk_cfg(("none", None), OPTS[2], {})), ("edit", None)]
    pending_ops = []
    first = True
    for what, cfg in plan:
        if what == "edit":
            r = (edit_block_in_place if kind == "ladder-blocks" else edit_weight_in_place)(rng, g, S["A"], S["b"]) \
                if kind != "ladder-planted-dual" else None
            if r is None:
                break
            pending_ops, e = r[0], r[1]
            g["expected"] = e
            if e["status"] == "optimal":
                from oracles.milp_certs import to_sparse
                if not sparse_feasible(e["x"], to_sparse(S["A"]), S["b"], S["integers"]):
                    raise AssertionError(f"C04 {kind}: witness after the in-place edit does not check out (seed {seed})")
            cfg = mk_cfg(("none", None), BASE_OPT, {})
            base = None  # a new model: verdict invariance starts again from this plain run
        orc = _orc_of(e, mn)
        step = {"ops": pending_ops, "cfg": cfg}
        if first or pending_ops:
            from oracles.milp_certs import to_sparse
            step["state"] = {"n": n, "c": list(S["c"]), "rows": to_sparse(S["A"]), "b": list(S["b"]),
                             "integers": list(S["integers"]), "minimize": mn, "tau": BIG_TAU,
                             "expected": _expected_json(e), "certificate": g["meta"]}
        steps.append(step)
        if cfg.get("warm_start") is not None:
            ws_obj[:] = cfg["warm_start"]
        kind_, res = call_solver(S, mn, cfg, share=True, ws_obj=ws_obj, timeout=BIG_TIMEOUT[bool(quick)])
        out["n"] += 1
        _bump(out, f"{kind}:calls")
        if pending_ops:
            _bump(out, f"{kind}:calls-after-in-place-edit")
        if kind_ == "result":
            viols, st, cx = contract(S, mn, cfg, res, orc)
            got = ("result", st, cx, False)
            _bump(out, "status:" + st)
            _bump(out, f"{kind}:nodes", int(res.iterations))
            _bump(out, f"{kind}:simplex-pivots", int(res.evaluations))
            if res.evaluations > 10000:
                _bump(out, f"{kind}:calls-with-more-than-10000-pivots")
            if res.iterations > 1000:
                _bump(out, f"{kind}:calls-with-more-than-1000-nodes")
            for ob, det in viols:
                out["viol"].append((ob, {"family": kind, "params": params, "gen_seed": seed, "history": [dict(s) for s in steps],
                                         "failing_call": len(steps) - 1},
                                    f"{kind} n={n} ({g['meta']}), call {len(steps)} on the same objects"
                                    + (f" after in-place edit {pending_ops}" if pending_ops else "") + ": " + det))
        else:
            got = (kind_, res, None, False)
            _bump(out, "no-verdict:" + kind_)
            if len(out["noverdict"]) < 2:
                out["noverdict"].append({"case": {"family": kind, "params": params, "gen_seed": seed, "cfg": cfg},
                                         "what": f"{kind_}: {res}"})
        if base is None:
            base, base_cfg, base_idx = got, cfg, len(steps) - 1
        elif cfg["solution_limit"] == 1 and got[0] == "result" and base[0] == "result":
            msg = invariance(S, mn, cfg, got, base_cfg, base)
            if msg:
                out["viol"].append((P + "ensures:verdict-invariant",
                                    {"family": kind, "params": params, "gen_seed": seed, "history": [dict(s) for s in steps],
                                     "failing_call": len(steps) - 1, "baseline_call": base_idx}, f"{kind} n={n}: " + msg))
        if g["nontrivial"]:
            out["keys"].append(int(digest([kind, params, seed, len(steps)])[:15], 16))
        pending_ops = []
        first = False
        if out["viol"]:
            break
    _bump(out, f"size:{kind}:n={n}")
    for k_, n_ in _REACH.items():
        _bump(out, "reached:" + k_, n_)
    _REACH.clear()
    _bump(out, "cpu_ms:" + kind, int(1000 * (time.process_time() - t0)))
    return out


def work_item(item):
    tag, payload = item
    if tag == "vol":
        from checks import C04_round3 as R3
        return [R3.work_vol(u) for u in payload]
    if tag == "big":
        return [work_big(payload)]
    if tag == "history":
        return [work_history(u) for u in payload]
    return [work(u) for u in payload]


# =============================================================================================== driver
def build_units(ctx: Ctx):
    rng = random.Random(ctx.seed)
    q = ctx.quick
    units = []
    seen = set()

    def add(insts, fam, plan):
        k = 0
        for inst in insts:
            key = digest(inst)
            if key in seen:
                continue
            seen.add(key)
            units.append((json.dumps(inst, separators=(",", ":")), fam, plan, rng.randrange(1 << 30)))  # compact
            k += 1
        return k

    e2, d2 = fam_exh2(q)
    k = add(e2, "exh-2var-1row", ("cover", 4 if q else 8))
    cfg_note = ("instance space enumerated completely; per instance and direction: all option tuples without warm start, all "
                "warm-start kinds under the plain and the heuristics+LNS tuple, plus random others (reduced to 8 runs "
                "where integrality does not matter) - not the full configuration product")
    ctx.scope("exh-2var-1row", instances=k, configurations=cfg_note, **d2)
    e3, d3 = fam_exh_bin3(q)
    k = add(e3, "exh-binary-3var", ("cover", 4 if q else 8))
    ctx.scope("exh-binary-3var", instances=k, configurations=cfg_note, **d3)
    fb, dfb = fam_fake_binary(q)
    k = add(fb, "fake-binary", ("cover", 6 if q else 12))
    ctx.scope("fake-binary", instances=k, configurations=cfg_note, **dfb)
    for name, gen, nq, nt, plan in (
        ("random-general", gen_general, 1500, 40000, ("cover", 10)),
        ("random-binary", gen_binary, 900, 30000, ("cover", 10)),
        ("random-fake-binary", gen_fake_binary, 600, 12000, ("cover", 8)),
        ("random-open-box", gen_open, 500, 8000, ("cover", 6)),
        ("random-general-full-config-product", gen_general, 150, 3000, ("full",)),
        ("random-binary-full-config-product", gen_binary, 150, 3000, ("full",)),
    ):
        k = add((gen(rng) for _ in range(nq if q else nt)), name, plan)
        ctx.scope(name, instances=k, generator=gen.__doc__ or "n 1..4, m 1..4 user rows with entries -3..3 "
                  "(+ duplicate/parallel rows, equality pairs, zero rows/columns, zero rhs, difference rows, objective "
                  "parallel to a row / zero, non-unit bound rows), box U 1..3, random integer subsets incl. all / none",
                  configurations="full product" if plan[0] == "full" else f"cover + {plan[1]} random", seeded=True)
    return units


def build_round2(ctx: Ctx):
    """-> (big units [(kind, params, seed, quick)], history units [(fam, length, seed, fresh)])."""
    rng = random.Random(ctx.seed + 2)
    q = ctx.quick
    big, hist = [], []

    def add(kind, **params):
        big.append((kind, params, rng.randrange(1 << 30), q))

    # ---- size ladder 1: block-diagonal
    for N in (SIZES_QUICK if q else SIZES_THOROUGH):
        F = 3 if N <= 12 or (q and N >= 100) else 4 if N <= 33 else 5
        cfgs = 6 if N <= 65 else [0, 2] if q else 3
        combos = [(True, "general", "optimal"), (False, "binary", "optimal"), (rng.random() < 0.5, "fake-binary", "optimal"),
                  (rng.random() < 0.5, "general", "infeasible")]
        if not q:
            combos += [(False, "general", "optimal"), (True, "binary", "optimal"), (rng.random() < 0.5, "binary", "infeasible"),
                       (rng.random() < 0.5, "general", "optimal")][:12 if N <= 65 else 2] * (3 if N <= 65 else 1)
        for t, (mn, fl_, want) in enumerate(combos):
            add("ladder-blocks", n=N, gap_blocks=F if want == "optimal" else 2, minimize=mn, flavour=fl_, want=want,
                shuffle=t % 2 == 1, ncfg=[0, 1, 2] if (cfgs == [0, 2] and fl_ == "binary") else cfgs,
                history=N <= 65 or (t == 0 and not q))
    for N, reps, F, cfgs in (((260, 1, 3, [0, 2]),) if q else ((520, 4, 3, [0, 2]), (600, 1, 3, [0, 2]))):
        for t in range(reps):
            add("ladder-blocks", n=N, gap_blocks=F, minimize=t % 2 == 0, flavour=("general", "binary")[t % 2] if t < 2 else "general",
                want="optimal", shuffle=t % 2 == 1, ncfg=cfgs, history=False)
    ctx.scope("ladder-blocks", instances=sum(1 for u in big if u[0] == "ladder-blocks"),
              sizes_n=sorted({u[1]["n"] for u in big if u[0] == "ladder-blocks"}),
              what=gen_block_ladder.__doc__ + " Blocks are small-scope instances (random-general / random-binary / "
              "random-fake-binary generators) solved by oracles.milp_exact; optimum = sum of block optima, witness = "
              "concatenation (re-verified exactly); half of the instances with columns and rows shuffled. 1..6 "
              "configurations per instance on the same objects (plain, heuristics+LNS, certified optimum / infeasible "
              "point as warm start, solution_limit 3); where history=true two in-place edits of one block follow, each "
              "with a new certified optimum.",
              flavours=["general", "binary (all x_j <= 1 rows)", "fake-binary", "one block without integer point"],
              blocks_with_integrality_gap="3..5 per instance (the tree grows like 2^that)",
              oracle="oracles.milp_certs.compose + oracles.milp_exact per block", seeded=True)
    # ---- size ladder 2: planted point with a duality certificate
    if q:
        for N in (12, 33, 65, 130):
            for t in range(2):
                add("ladder-planted-dual", n=N, minimize=t == 0, tie=(0.0, 0.25)[t], ncfg=4 if N < 100 else 2)
        for N, tie, xp in ((520, 0.0, 0.15), (600, 0.15, 0.1), (1000, 0.0, 0.08), (1030, 0.15, 0.05)):
            for mn in (True, False):
                add("ladder-planted-dual", n=N, minimize=mn, tie=tie, wide=True, xpos=xp, ncfg=3)
    else:
        for N in (11, 12, 33, 64, 65, 129, 130, 140, 260):
            for t in range(6):
                add("ladder-planted-dual", n=N, minimize=t % 2 == 0, tie=(0.0, 0.25, 0.5)[t % 3] if N <= 140 else (0.0, 0.1)[t % 2],
                    ncfg=4 if N <= 140 else 2)
        for N in (500, 512, 520, 600, 1000, 1024, 1030, 1100, 1500, 2050):
            for t, (tie, xp) in enumerate(((0.0, 0.08), (0.15, 0.05), (0.0, 0.15), (0.15, 0.1), (0.3, 0.12), (0.0, 0.2))):
                if N > 1100 and xp > 0.08:
                    continue
                add("ladder-planted-dual", n=N, minimize=t % 2 == 0, tie=tie, wide=True, xpos=xp, ncfg=3 if xp <= 0.1 else 2)
    ctx.scope("ladder-planted-dual", instances=sum(1 for u in big if u[0] == "ladder-planted-dual"),
              sizes_n=sorted({u[1]["n"] for u in big if u[0] == "ladder-planted-dual"}), what=gen_planted_dual.__doc__,
              oracle="oracles.milp_certs.check_dual_certificate (exact)", seeded=True,
              note="LP optimum value == MILP optimum here, so these runs are not counted as non-trivial (the LP vertex is "
                   "often fractional all the same - the optimal face is not a point - and the tree has 2..1000+ nodes)")
    # ---- long runs: one weight row, meet-in-the-middle oracle
    for n in ((15, 16, 17, 18) if q else (14, 15, 16, 17, 18, 19, 20)):
        for t in range(5 if q else 10):
            add("long-run-single-row", n=n, flavour="exact-weight", ncfg=(2 if t == 0 else 1) if q else 3,
                history=t == 0 if q else t % 3 == 0)
    for fl_, ns in (("exact-weight-bounded", (10, 11) if q else (8, 10, 11, 12, 13)),
                    ("knapsack-correlated", (14, 17) if q else (12, 15, 16, 18, 20, 22, 24)),
                    ("knapsack-ties", (10, 13) if q else (8, 10, 12, 13, 14, 16)),
                    ("cover", (16, 20) if q else (12, 15, 16, 18, 20, 22, 24))):
        for n in ns:
            for t in range(1 if q else 5):
                add("long-run-single-row", n=n, flavour=fl_, ncfg=3, history=True)
    ctx.scope("long-run-single-row", instances=sum(1 for u in big if u[0] == "long-run-single-row"),
              sizes_n=sorted({u[1]["n"] for u in big if u[0] == "long-run-single-row"}), what=gen_single_row.__doc__,
              flavours=sorted(set(ROW_FLAVOURS)), oracle="oracles.milp_certs.mitm_row (exact)", seeded=True,
              note="exact-weight with 16+ binaries: thousands of nodes, 10 000 .. 40 000 simplex pivots per call (see c04_stats "
                   "long-run-single-row:calls-with-more-than-10000-pivots); history=true: one weight edited in place, solved again")
    # ---- history mode, small scope
    L = 8
    for fam, nq, nt in (("history-general", 750, 16000), ("history-binary", 500, 10000), ("history-fake-binary", 250, 6000)):
        for t in range(nq if q else nt):
            hist.append((fam, L, rng.randrange(1 << 30), t % (40 if q else 100) == 0))
    ctx.scope("history-mode", sequences=len(hist), calls_per_sequence=L,
              what="sequences of solve_milp calls in one process on the SAME c / A (same row lists) / b / integers / warm-start "
                   "objects; between calls 1-2 random IN-PLACE edits (A[i][j]=v, b[i]=v, c[j]=v, append/pop/replace/scale a row, "
                   "swap two columns, add/remove an integer index, flip the direction, nothing at all); every call with a "
                   "random option tuple and warm-start kind, judged against the exact oracle for the model as it is at that "
                   "call; the last call of every 40th (thorough: 100th) sequence is repeated in a fresh interpreter and "
                   "compared", start_instances="random-general / random-binary / random-fake-binary generators",
              oracle="oracles.milp_exact (explicit bound rows are kept bounds, so the box stays complete)", seeded=True)
    return big, hist


def run(ctx: Ctx):
    from vf.prove import prove
    prove(ctx, ["specs.lp_milp"], "C04")  # deductive part (specs/lp_milp.py)
    from vf.pool import pmap
    use_repo()
    units = build_units(ctx)
    big, hist = build_round2(ctx)
    from checks import C04_round3 as R3
    vol = R3.build_units(ctx)  # round 3: volume families (own RNG stream: the rounds 1-2 inputs are unchanged)
    # order: the long single calls first (largest n first), then history sequences, then the small-scope chunks; one item
    # per task so that the pool balances itself; the order is fixed => deterministic
    rng = random.Random(ctx.seed + 1)
    rng.shuffle(units)
    size = 12
    cost = {"ladder-blocks": 1.0, "ladder-planted-dual": 0.5, "long-run-single-row": 8.0}
    big.sort(key=lambda u: -(u[1]["n"] * cost[u[0]] * (0.1 if u[1].get("wide") else 1)))
    items = [("big", u) for u in big]
    items += [("history", hist[i:i + 10]) for i in range(0, len(hist), 10)]
    items += [("small", units[i:i + size]) for i in range(0, len(units), size)]
    items += [("vol", vol[i:i + 25]) for i in range(0, len(vol), 25)]
    stat = {}
    noverdict = []
    per_ob = {}
    for res in pmap(work_item, items, chunksize=1):
        for o in res:
            ctx.count(o["n"], o["keys"], [o["sample"]] if o["sample"] else [])
            for ob, cs, det in o["viol"]:
                fam = cs.get("family", "")
                per_ob[(ob, fam)] = per_ob.get((ob, fam), 0) + 1
                if "history" in cs and per_ob[(ob, fam)] > 3:
                    stat["violations-not-listed(more than 3 per obligation and family)"] = \
                        stat.get("violations-not-listed(more than 3 per obligation and family)", 0) + 1
                    continue
                ctx.violation(ob, cs, det)
            for k, v in o["stat"].items():
                stat[k] = stat.get(k, 0) + v
            noverdict += o["noverdict"][: max(0, 5 - len(noverdict))]
    ctx.notes["c04_stats"] = dict(sorted(stat.items()))
    ctx.notes["c04_no_verdict_or_outside_quantifier_examples"] = noverdict
    ctx.notes["configuration_space"] = {
        "option_tuples(heuristics,lns_iterations,solution_limit,lns_destroy_frac,seed)": [list(o) for o in OPTS],
        "warm_start_kinds": ["none", "feasible-optimal", "feasible-other", "infeasible-row-better", "infeasible-negative",
                             "infeasible-fractional", "wrong-length-short", "wrong-length-long",
                             "(infeasible instances) zeros / relaxation-vertex / rounded-vertex / ones"],
        "extra": "gap_tol=0.2 on some runs; max_nodes=300 in the open-box family",
    }
    ctx.rule = ("case = (instance, minimize|maximize, configuration); every case is one call of solve_milp judged against "
                "the exact oracle. non-trivial = integrality matters for that instance and direction: the exact LP "
                "relaxation optimum differs from the exact MILP optimum, or the relaxation is feasible/unbounded while "
                "the MILP is infeasible/bounded; distinct = different (c, A, b, integers, direction, configuration). "
                "Round-2 families: a call of a history sequence is a case of its own (distinct = sequence seed + position; "
                "non-trivial by the same relaxation rule on the model as it is at that call); ladder-blocks calls are non-trivial "
                "when the instance has a block with an integrality gap (or an integer-infeasible, LP-feasible block); "
                "long-run-single-row calls when the exact LP relaxation optimum differs from the meet-in-the-middle optimum; "
                "ladder-planted-dual calls are never counted as non-trivial (LP optimum = MILP optimum by construction). "
                "Round-3 volume families (vol-*, mixbin-*): case and non-trivial as in round 1 (one direction per instance)")
    ctx.assumptions += [
        "float tolerance: rows/sign/integrality within 1e-6*(1+max|data|) (rows additionally scaled by 1+|row|_1); "
        "OPTIMAL compared within gap_tol*max(1,|obj|,|OPT|) + that tolerance; integer data with entries <= 6",
        "bounded scope: n <= 5 variables, <= 5 user rows, box U <= 3 (explicit rows), see scopes; the volume families of "
        "round 3 reach 9 general-integer variables (box 0..3) / 12 binaries + 2 continuous with entries <= 9, every instance "
        "still enumerated exactly, but the instance space there is sampled, not exhausted; beyond that only the "
        "structured families of round 2 (block-diagonal, planted with duality certificate, one weight row), where the "
        "verdict is certified without enumeration; float tolerance there: 2e-6 flat (rows scaled by 1+|row|_1)",
        "history mode and the ladder / long-run families hand the solver the caller's own objects (no copies) and reuse "
        "them over several calls; a time-out (CPU-time budget per call: 60 s small scope, 150 s / 1200 s ladder quick / "
        "thorough) is recorded under no-verdict:* and never judged in the ladder / long-run families",
        "a raise or a time-out of solve_milp is not judged by the property except through verdict-invariance "
        "(reported under c04_stats no-verdict:*)",
        "with an open box (family random-open-box, outside the property's 'bounded MILPs', kept for the UNBOUNDED clause) "
        "the oracle is one-sided: only witnesses are used; runs there carry max_nodes=300 and a run that exhausts this "
        "node budget is not judged on INFEASIBLE / verdict-invariance (max_nodes is not among the property's "
        "configurations; the code reports budget exhaustion without incumbent as INFEASIBLE - see c04_stats "
        "outside-quantifier:* and the examples in the notes)",
    ]
    ctx.trusted += ["oracles/milp_certs.py (meet-in-the-middle enumeration of one-row programs; block composition; LP-duality "
                    "certificate check; witnesses re-verified exactly against the rows handed to the solver)",
                    "oracles/milp_exact.py (box enumeration; solve_int_box: depth-first enumeration with feasibility-only "
                    "shortcuts for the volume families; every witness re-verified exactly)",
                    "oracles/lp_exact.py (Fraction simplex, every answer validated by its certificate)"]


# =============================================================================================== replay
def _parse_expected(e):
    return {"status": e["status"], "relax": e.get("relax"), "value": None if e.get("value") is None else Fraction(e["value"]),
            "x": None if e.get("x") is None else [Fraction(v) for v in e["x"]]}


def replay_history(cs) -> int:
    """Re-run a recorded sequence: the objects are built once from the first state, every later state is produced by
    applying the recorded edits IN PLACE, and every call gets those same objects."""
    from oracles.milp_certs import sparse_feasible, to_dense, to_sparse
    from oracles.milp_exact import solve as exact
    S = None
    exp = None
    ws_obj = []
    bad = []
    gots = []
    for k, st in enumerate(cs["history"]):
        state = st.get("state")
        if k == 0:
            A = to_dense(state["rows"], state["n"]) if "rows" in state else [list(r) for r in state["A"]]
            S = {"c": list(state["c"]), "A": A, "b": list(state["b"]), "integers": list(state["integers"]),
                 "minimize": state["minimize"]}
            if state.get("tau"):
                S["tau"] = state["tau"]
        for op in st["ops"]:
            apply_op(op, S)
        if state is not None:
            rec_A = to_dense(state["rows"], state["n"]) if "rows" in state else state["A"]
            if (S["c"], S["A"], S["b"], S["integers"], S["minimize"]) != \
                    (state["c"], rec_A, state["b"], state["integers"], state["minimize"]):
                print(f"call {k + 1}: replayed edits do not reproduce the recorded model - replay not faithful")
                return 3
            if "expected" in state:
                exp = _parse_expected(state["expected"])
                if exp["status"] == "optimal":
                    ok = sparse_feasible(exp["x"], to_sparse(S["A"]), S["b"], S["integers"]) and \
                        sum(Fraction(a) * q for a, q in zip(S["c"], exp["x"])) == exp["value"]
                    print(f"call {k + 1}: certified point re-verified exactly against the rows: {ok}; value {exp['value']}")
        mn = S["minimize"]
        snap = dict(_snap(S), **({"tau": S["tau"]} if "tau" in S else {}))
        orc = _orc_of(exp, mn) if exp is not None else exact(snap["c"], snap["A"], snap["b"], snap["integers"])
        d = orc["dir"][mn]
        cfg = st["cfg"]
        if cfg.get("warm_start") is not None:
            ws_obj[:] = cfg["warm_start"]
        kind, res = call_solver(S, mn, cfg, share=True, ws_obj=ws_obj, timeout=BIG_TIMEOUT[False])
        n = len(S["c"])
        head = f"call {k + 1} ({'min' if mn else 'max'}, n={n}, rows={len(S['b'])}, edits before it: {st['ops']})"
        if n <= 8:
            head += f" c={S['c']} A={S['A']} b={S['b']} integers={S['integers']}"
        if kind != "result":
            print(f"{head}: {kind}: {res}")
            gots.append((kind, res, None, False))
            continue
        viols, stn, cx = contract(snap, mn, cfg, res, orc)
        gots.append(("result", stn, cx, False))
        print(f"{head}: status={stn} objective={res.objective} nodes={res.iterations} pivots={res.evaluations}; "
              f"oracle: {d['status']} {d['value']}   cfg={ {q: v for q, v in cfg.items() if q != 'warm_start'} }")
        for ob, det in viols:
            print("   VIOLATES", ob, "::", det[:400])
            bad.append(ob)
    if "baseline_call" in cs and len(gots) > cs["failing_call"]:
        i, j = cs["baseline_call"], cs["failing_call"]
        msg = invariance(S, S["minimize"], cs["history"][j]["cfg"], gots[j], cs["history"][i]["cfg"], gots[i])
        if msg:
            print("   VIOLATES", P + "ensures:verdict-invariant", "::", msg)
            bad.append("verdict-invariant")
    if cs.get("compare_with_fresh_process"):
        fr = _fresh_process(_snap(S), S["minimize"], cs["history"][-1]["cfg"])
        msg = compare_with_fresh(S, cs["history"][-1]["cfg"], gots[-1], fr)
        print("fresh process:", fr)
        if msg:
            print("   VIOLATES", P + "ensures:same-verdict-as-in-a-fresh-process", "::", msg)
            bad.append("fresh")
    print("replay:", "still violated" if bad else "no violation")
    return 1 if bad else 0


def replay(rec) -> int:
    use_repo()
    from oracles.milp_exact import solve as exact
    cs = rec["case"]
    if "history" in cs:
        return replay_history(cs)
    inst = {"c": cs["c"], "A": cs["A"], "b": cs["b"], "integers": cs["integers"]}
    mn = cs["minimize"]
    if str(cs.get("family", "")).startswith(("vol-", "mixbin-")):  # round 3: the fast box enumeration (one direction)
        from checks import C04_round3 as R3
        orc = R3.oracle(inst, mn)
    else:
        orc = exact(inst["c"], inst["A"], inst["b"], inst["integers"])
    d = orc["dir"][mn]
    print(f"instance: {'min' if mn else 'max'} {inst['c']}.x  A={inst['A']} b={inst['b']} integers={inst['integers']}")
    print(f"oracle: {d['status']} value={d['value']} x={d['x']} complete={orc['complete']} "
          f"relaxation={orc['relax'][mn]['status']} {orc['relax'][mn]['objective']}")
    bad = []

    def one(cfg, label):
        kind, res = call_solver(inst, mn, cfg)
        if kind != "result":
            print(f"{label}: {kind}: {res}   cfg={cfg}")
            return (kind, res, None, False)
        viols, st, cx = contract(inst, mn, cfg, res, orc)
        print(f"{label}: status={st} objective={res.objective} solution={res.solution} solutions={res.solutions} cfg={cfg}")
        for ob, det in viols:
            print("   VIOLATES", ob, "::", det)
            bad.append(ob)
        return ("result", st, cx, budget_exhausted(cfg, res))

    got = one(cs["cfg"], "run")
    if "baseline_cfg" in cs:
        base = one(cs["baseline_cfg"], "plain run")
        msg = invariance(inst, mn, cs["cfg"], got, cs["baseline_cfg"], base)
        if msg:
            print("   VIOLATES", P + "ensures:verdict-invariant", "::", msg)
            bad.append(P + "ensures:verdict-invariant")
    print("replay:", "still violated" if bad else "no violation")
    return 1 if bad else 0


if __name__ == "__main__":
    import sys
    if "--fresh" in sys.argv:
        _fresh_main()

"""C04 - solve_milp: answers are integer-feasible, OPTIMAL means proven optimal, INFEASIBLE/UNBOUNDED are justified,
and warm starts / rounding heuristics / LNS never change the verdict.            (bounded back end)

Top-level contract, taken from the property statement, evaluated on the real `solvor.milp.solve_milp`:

  ensures:solution-feasible            status in {OPTIMAL, FEASIBLE} => solution satisfies A x <= b, x >= 0, integrality
  ensures:solutions-entries-feasible   the same for every entry of Result.solutions
  ensures:objective-is-cx              reported objective == c.x
  ensures:optimal-is-proven-optimal    OPTIMAL => no integer-feasible point is better than c.x (within gap_tol)
  ensures:infeasible-means-no-integer-point
  ensures:unbounded-only-if-relaxation-unbounded
  ensures:verdict-invariant            for solution_limit == 1: status (and the OPTIMAL objective) under any
                                       warm_start / heuristics / lns_iterations equals the plain run's

Oracle: oracles.milp_exact (enumeration of the integer box, exact Fraction LP of oracles.lp_exact on the continuous
part).  Float tolerances: TAU = 1e-6 * (1 + max|data|) on rows / sign / integrality, the same relative to the terms on
c.x, and  gap_tol * max(1,|obj|,|OPT|) + TAU  on optimality (instances have integer data and tiny denominators, so a
wrong answer is off by >= ~1e-2).
"""
from __future__ import annotations

import itertools
import json
import random
import signal
import time
import warnings
from fractions import Fraction

from vf.core import Ctx, digest, use_repo

LEVEL = "exploration"
P = "C04/solve_milp/"
CASE_TIMEOUT = 60  # CPU seconds (ITIMER_VIRTUAL, load-independent) per solver call (tiny instances need milliseconds)


# =============================================================================================== instances
def make_inst(c, rows, rhs, U, integers, box_pos="end", box_scale=None):
    """User rows + explicit box rows a*x_j <= a*U_j + r  (a = 1 unless box_scale says otherwise)."""
    n = len(c)
    brow, brhs = [], []
    for j in range(n):
        if U[j] is None:
            continue
        a, r = (1, 0) if not box_scale else box_scale[j]
        brow.append([a if k == j else 0 for k in range(n)])
        brhs.append(a * U[j] + r)
    if box_pos == "start":
        A, b = brow + [list(r) for r in rows], brhs + list(rhs)
    else:
        A, b = [list(r) for r in rows] + brow, list(rhs) + brhs
    return {"c": list(c), "A": A, "b": b, "integers": sorted(integers)}


def subsets(n, with_empty):
    out = []
    for k in range(0 if with_empty else 1, n + 1):
        out += [list(s) for s in itertools.combinations(range(n), k)]
    return out


def fam_exh2(quick):
    """n=2, one user row, box rows: exhaustive over the listed value sets."""
    if quick:
        cs = [(1, 1), (1, -1), (2, 1), (-1, 2)]
        bs = [-2, -1, 1, 2, 4]
        Us = [(1, 1), (2, 3), (3, 3)]
        vals = (-3, -2, -1, 0, 1, 2, 3)
    else:
        cs = [(1, 0), (0, 1), (1, 1), (1, -1), (2, 1), (1, 2), (2, -1), (-1, 2), (3, 2), (2, 3), (2, -3), (-3, 2)]
        bs = list(range(-3, 6))
        Us = [(u, v) for u in (1, 2, 3) for v in (1, 2, 3)]
        vals = (-3, -2, -1, 0, 1, 2, 3)
    out = []
    for c in cs:
        for a in itertools.product(vals, repeat=2):
            if a == (0, 0):
                continue
            for b0 in bs:
                for U in Us:
                    for ints in subsets(2, not quick):
                        out.append(make_inst(c, [a], [b0], U, ints))
    desc = dict(n=2, user_rows=1, c=cs, row_entries=list(vals), rhs=bs, U=Us,
                integer_subsets="all non-empty" + ("" if quick else " + empty"), exhaustive=True)
    return out, desc


def fam_exh_bin3(quick):
    """n=3, explicit x_j <= 1 rows for all variables, one user row (sparse rows included)."""
    if quick:
        vals, bs = (0, 2, 3, -2), (-1, 1, 3)
        cs = [(1, 1, 1), (3, 2, 1), (2, -1, 1)]
        sets = [[0, 1, 2], [0, 1], [1, 2], [0]]
    else:
        vals, bs = (0, 1, 2, 3, -1, -2), (-2, -1, 1, 2, 3, 4)
        cs = [(1, 1, 1), (3, 2, 1), (1, 2, 3), (2, -1, 1), (-1, -1, 2)]
        sets = subsets(3, False)
    out = []
    for c in cs:
        for a in itertools.product(vals, repeat=3):
            if not any(a):
                continue
            for b0 in bs:
                for ints in sets:
                    out.append(make_inst(c, [a], [b0], (1, 1, 1), ints))
    desc = dict(n=3, user_rows=1, box="x_j <= 1 for all j", c=cs, row_entries=list(vals), rhs=list(bs),
                integer_subsets=sets, exhaustive=True)
    return out, desc


def fam_fake_binary(quick):
    """Thin band  -r-s <= p*x0 - q*x1 <= -r  (LP optimum often inside [0,1]^2, integer points often need x >= 2) combined
    with rows that only LOOK like the bound x_j <= 1:  x_j - x_k <= 1 (rhs 1, one +1 coefficient),  -x_j <= 1 (rhs 1,
    single non-zero), a genuine x_k <= 1 on the *other* / on a continuous variable; the true bounds are x_j <= U_j,
    U_j in {2,3}.  Every combination of pseudo-row kinds per variable, all three integer subsets."""
    out = []
    bands = [(1, 3), (2, 3), (1, 2), (3, 2)] if quick else [(1, 3), (2, 3), (1, 2), (3, 2), (1, 1), (3, 1)]
    cs = [(1, 1), (2, 1), (-1, 1)] if quick else [(1, 1), (2, 1), (-1, 1), (1, -1), (1, 2)]
    kinds = ("none", "diff", "neg", "true1")
    for (p, q) in bands:
        for r in (0, 1, 2):
            for s in ((0,) if quick else (0, 1)):
                for k0 in kinds:
                    for k1 in kinds:
                        for U0 in ((3, 3), (2, 3)):
                            U = list(U0)
                            rows, rhs = [[p, -q], [-p, q]], [-r, r + s]
                            for j, kd in ((0, k0), (1, k1)):
                                if kd == "diff":
                                    rows.append([1, -1] if j == 0 else [-1, 1]); rhs.append(1)
                                elif kd == "neg":
                                    rows.append([-1, 0] if j == 0 else [0, -1]); rhs.append(1)
                                elif kd == "true1":
                                    U[j] = 1
                            for c in cs:
                                for ints in ([0, 1], [0], [1]):
                                    out.append(make_inst(c, rows, rhs, U, ints))
    # a third, continuous variable with a genuine x_2 <= 1 row: it must not be counted as a bounded *integer*
    for (p, q) in bands:
        for r in (0, 1, 2):
            for k0 in kinds:
                for k1 in kinds:
                    U = [3, 3, 1]
                    rows, rhs = [[p, -q, 0], [-p, q, 0]], [-r, r]
                    for j, kd in ((0, k0), (1, k1)):
                        if kd == "diff":
                            rows.append([1, -1, 0] if j == 0 else [-1, 1, 0]); rhs.append(1)
                        elif kd == "neg":
                            rows.append([-1, 0, 0] if j == 0 else [0, -1, 0]); rhs.append(1)
                        elif kd == "true1":
                            U[j] = 1
                    for c in ((1, 1, 1), (2, 1, -1)):
                        out.append(make_inst(c, rows, rhs, U, [0, 1]))
    # three variables: the band can be bought off with a genuinely binary switch z (coefficient -K)
    for p, q, K in ((1, 3, 3), (2, 3, 3), (1, 2, 2), (3, 2, 3)):
        for r in (1, 2):
            for cz in (2, 3, -1):
                for ints in ([0, 1, 2], [0, 1]):
                    rows = [[p, -q, -K], [-p, q, 0], [1, -1, 0], [-1, 1, 0]]
                    out.append(make_inst((1, 1, cz), rows, [-r, r, 1, 1], (3, 3, 1), ints))
    desc = dict(n="2..3", what="band rows + pseudo-bound rows (difference / negative single / genuine) + box U in {1,2,3}",
                exhaustive=True, bands=bands, r=[0, 1, 2], s=[0] if quick else [0, 1], pseudo_row_kinds_per_variable=kinds,
                boxes=[(3, 3), (2, 3)], c=cs, integer_subsets=[[0, 1], [0], [1]], plus="24 switch instances x 2 subsets")
    return out, desc


def gen_general(rng):
    n = rng.choice((1, 2, 2, 3, 3, 3, 4))
    m = rng.randint(1, 4 if n < 4 else 3)
    U = [rng.randint(1, 3 if n < 4 else 2) for _ in range(n)]
    rows, rhs = [], []
    mode = rng.random()
    anchor = [Fraction(rng.randint(0, 2 * u), 2) for u in U]  # a (half-)integer point of the box
    for _ in range(m):
        dens = rng.choice((1.0, 0.7, 0.5))
        row = [rng.randint(-3, 3) if rng.random() < dens else 0 for _ in range(n)]
        rows.append(row)
        lo = sum(min(0, a) * u for a, u in zip(row, U))
        hi = sum(max(0, a) * u for a, u in zip(row, U))
        if mode < 0.5:  # rows pass through / next to the anchor: binding, mostly feasible, often fractional vertices
            v = sum(a * t for a, t in zip(row, anchor))
            rhs.append(int(v // 1) + rng.choice((0, 0, 1)))
        elif mode < 0.7 and hi > lo:  # rhs strictly inside the range of the row over the box
            rhs.append(rng.randint(lo, hi - 1))
        else:
            rhs.append(rng.randint(-3, 6))
    f = rng.random()
    if f < 0.12:  # duplicate / parallel row
        i = rng.randrange(m)
        k = rng.choice((1, 1, 2))
        rows.append([k * v for v in rows[i]]); rhs.append(k * rhs[i] + rng.choice((0, 0, 1, -1)))
    elif f < 0.34:  # equality or thin band
        i = rng.randrange(m)
        rows.append([-v for v in rows[i]]); rhs.append(-rhs[i] + rng.choice((0, 0, 1)))
    elif f < 0.40:  # zero row
        rows.append([0] * n); rhs.append(rng.choice((0, 1, -1)))
    elif f < 0.47:  # zero column
        j = rng.randrange(n)
        for r in rows:
            r[j] = 0
    elif f < 0.55:  # degenerate vertex at the origin
        rhs = [0] * len(rhs)
    elif f < 0.62 and n >= 2:  # difference row with rhs 1 (not a bound)
        j, k = rng.sample(range(n), 2)
        rows.append([1 if t == j else -1 if t == k else 0 for t in range(n)]); rhs.append(1)
    g = rng.random()
    if g < 0.15:
        sg = rng.choice((1, -1))
        c = [sg * v for v in rows[rng.randrange(len(rows))]]  # parallel to a row: ties
    elif g < 0.21:
        c = [0] * n
    else:
        c = [rng.randint(-3, 3) for _ in range(n)]
    h = rng.random()
    if h < 0.40:
        ints = list(range(n))
    elif h < 0.45:
        ints = []
    else:
        ints = [j for j in range(n) if rng.random() < 0.5] or [rng.randrange(n)]
    scale = None
    if rng.random() < 0.15:  # non-unit bound rows: 2*x_j <= 2*U+1 is a bound but not the literal "x_j <= 1" row
        scale = [(rng.choice((1, 2, 3)),) for _ in range(n)]
        scale = [(a[0], rng.randrange(a[0])) for a in scale]
    return make_inst(c, rows, rhs, U, ints, box_pos=rng.choice(("end", "end", "start")), box_scale=scale)


def gen_binary(rng):
    """0/1 programs with explicit x_j <= 1 rows: knapsack, cover, conflict and sparse non-unit rows (the region where
    binary tightening, rounding, flips/swaps and LNS are active)."""
    n = rng.randint(3, 5)
    k = rng.randint(2, n)
    ints = sorted(rng.sample(range(n), k))
    U = [1 if j in ints else rng.randint(1, 3) for j in range(n)]
    if rng.random() < 0.12:
        U[rng.choice(ints)] = 2  # one general integer among the binaries: tightening is then NOT justified
    rows, rhs = [], []
    for _ in range(rng.randint(1, 3)):
        t = rng.random()
        if t < 0.35:  # knapsack
            row = [rng.randint(1, 5) if rng.random() < 0.85 else 0 for _ in range(n)]
            tot = sum(a * u for a, u in zip(row, U))
            rows.append(row); rhs.append(max(1, int(tot * rng.uniform(0.3, 0.7))))
        elif t < 0.6:  # cover  sum a_j x_j >= d
            row = [rng.randint(1, 3) if rng.random() < 0.8 else 0 for _ in range(n)]
            tot = sum(a * u for a, u in zip(row, U))
            rows.append([-a for a in row]); rhs.append(-max(1, int(tot * rng.uniform(0.2, 0.6))))
        elif t < 0.75:  # conflict
            i, j = rng.sample(range(n), 2)
            rows.append([1 if t2 in (i, j) else 0 for t2 in range(n)]); rhs.append(1)
        else:  # sparse non-unit row with odd rhs
            i, j = rng.sample(range(n), 2)
            a, b2 = rng.choice((2, 3)), rng.choice((2, 3))
            row = [a if t2 == i else b2 if t2 == j else 0 for t2 in range(n)]
            rows.append(row); rhs.append(rng.choice((a + b2 - 1, max(a, b2), 3)))
            if rng.random() < 0.4:
                rows[-1] = [-v for v in row]; rhs[-1] = -rng.choice((1, min(a, b2) + 1))
    if rng.random() < 0.8:
        c = [rng.randint(1, 6) for _ in range(n)]
    else:
        c = [rng.randint(-4, 6) for _ in range(n)]
    return make_inst(c, rows, rhs, U, ints, box_pos=rng.choice(("end", "start")))


def gen_fake_binary(rng):
    """Random version of fam_fake_binary with 2..4 variables."""
    n = rng.randint(2, 4)
    ints = list(range(n)) if rng.random() < 0.6 else sorted(rng.sample(range(n), rng.randint(1, n)))
    U = [rng.choice((2, 3)) for _ in range(n)]
    rows, rhs = [], []
    for j in ints:
        t = rng.random()
        if t < 0.2:
            U[j] = 1
        elif t < 0.35:
            pass  # no pseudo row at all for this integer variable
        elif t < 0.5:
            rows.append([-1 if k == j else 0 for k in range(n)]); rhs.append(1)  # -x_j <= 1: vacuous, not a bound
        else:
            row = [0] * n
            row[j] = 1
            others = [k for k in range(n) if k != j]
            for k in rng.sample(others, rng.randint(1, len(others))) if others else []:
                row[k] = -rng.choice((1, 1, 2))
            if any(v < 0 for v in row):
                rows.append(row); rhs.append(1)
    for j in range(n):
        if j not in ints and rng.random() < 0.5:
            U[j] = 1  # genuine x_j <= 1 on a continuous variable must not count for the integers
    i, j = rng.sample(range(n), 2)
    p, q = rng.randint(1, 3), rng.randint(1, 3)
    r = rng.randint(0, 2)
    band = [p if t == i else -q if t == j else 0 for t in range(n)]
    rows.append(band); rhs.append(-r)
    rows.append([-v for v in band]); rhs.append(r + rng.choice((0, 0, 1)))
    if n >= 3 and rng.random() < 0.5:
        k = rng.choice([t for t in range(n) if t not in (i, j)])
        rows[-2][k] = -rng.choice((2, 3))
    c = [rng.randint(-1, 3) for _ in range(n)]
    order = list(range(len(rows)))
    rng.shuffle(order)
    return make_inst(c, [rows[t] for t in order], [rhs[t] for t in order], U, ints)


def gen_open(rng):
    """Some variables without any bound row: the only family where UNBOUNDED can be a correct answer."""
    n = rng.randint(1, 3)
    m = rng.randint(1, 3)
    rows = [[rng.randint(-2, 3) for _ in range(n)] for _ in range(m)]
    rhs = [rng.randint(-2, 6) for _ in range(m)]
    U = [rng.randint(1, 3) if rng.random() < 0.5 else None for _ in range(n)]
    if all(u is not None for u in U):
        U[rng.randrange(n)] = None
    c = [rng.randint(-3, 3) for _ in range(n)]
    ints = [j for j in range(n) if rng.random() < 0.6] or [rng.randrange(n)]
    inst = make_inst(c, rows, rhs, U, ints)
    inst["max_nodes"] = 300
    return inst


# =============================================================================================== configurations
# (heuristics, lns_iterations, solution_limit, lns_destroy_frac, seed)
BASE_OPT = (False, 0, 1, 0.3, 0)
OPTS = [BASE_OPT, (True, 0, 1, 0.3, 0), (True, 3, 1, 0.3, 0), (True, 3, 1, 0.8, 1), (False, 3, 1, 0.3, 0),
        (True, 0, 3, 0.3, 0), (True, 2, 3, 0.5, 2), (False, 0, 3, 0.3, 0), (True, 1, 2, 0.3, 3), (False, 0, 2, 0.3, 0),
        (True, 5, 1, 0.3, 7)]


def fl(x):
    return [float(v) for v in x]


def warm_starts(inst, orc, minimize, rng):
    """[(kind, vector)]: feasible (optimal / other), infeasible (row-violating but better, fractional, negative),
    wrong length.  Built from the oracle's exact points only."""
    from oracles.milp_exact import is_feasible
    c, A, b, ints = inst["c"], inst["A"], inst["b"], inst["integers"]
    n = len(c)
    d = orc["dir"][minimize]
    out = [("none", None)]
    rx = orc["relax"][minimize]["x"]
    if d["status"] == "optimal":
        opt = d["x"]
        out.append(("feasible-optimal", fl(opt)))
        other = orc["dir"][not minimize]["x"]
        if other is None or other == opt:
            other = next((p for p in orc["points"] if p != opt), None)
        if other is not None:
            out.append(("feasible-other", fl(other)))
        # integer neighbours of the optimum that look better: they are necessarily infeasible
        viol = neg = None
        for j in rng.sample(range(n), n):
            if c[j] == 0:
                continue
            step = -1 if (c[j] > 0) == minimize else 1
            x = list(opt)
            x[j] = x[j] + step
            if is_feasible(x, A, b, ints):
                continue  # cannot happen for an exact optimum; be safe
            if any(v < 0 for v in x):
                neg = neg or x
            else:
                viol = viol or x
        if viol is None:  # far corner of the box in the improving direction
            x = [(3 if ((c[j] < 0) == minimize) else 0) for j in range(n)]
            if not is_feasible(x, A, b, ints):
                viol = x
        if viol is not None:
            out.append(("infeasible-row-better", fl(viol)))
        if neg is None:
            neg = list(opt)
            neg[rng.randrange(n)] = -1
        out.append(("infeasible-negative", fl(neg)))
        frac = None
        if rx is not None and not is_feasible(rx, A, b, ints):
            frac = rx  # relaxation optimum: LP-feasible, better objective, fractional
        elif other is not None:
            mid = [(Fraction(u) + Fraction(v)) / 2 for u, v in zip(opt, other)]
            if not is_feasible(mid, A, b, ints):
                frac = mid
        if frac is None and ints:
            frac = list(opt)
            frac[ints[0]] = Fraction(frac[ints[0]]) + Fraction(1, 2)
        if frac is not None:
            out.append(("infeasible-fractional", fl(frac)))
        out.append(("wrong-length-short", fl(opt)[:-1]))
        out.append(("wrong-length-long", fl(opt) + [0.0]))
    else:
        out.append(("infeasible-zeros", [0.0] * n))
        if rx is not None:
            out.append(("infeasible-relaxation-vertex", fl(rx)))
            out.append(("infeasible-rounded-vertex", [float(round(v)) for v in rx]))
        out.append(("infeasible-ones", [1.0] * n))
        out.append(("wrong-length-short", [0.0] * (n - 1)))
    return out


def mk_cfg(ws, opt, inst, gap_tol=None):
    cfg = {"ws_kind": ws[0], "warm_start": ws[1], "heuristics": opt[0], "lns_iterations": opt[1],
           "solution_limit": opt[2], "lns_destroy_frac": opt[3], "seed": opt[4]}
    if "max_nodes" in inst:
        cfg["max_nodes"] = inst["max_nodes"]
    if gap_tol is not None:
        cfg["gap_tol"] = gap_tol
    return cfg


def plan_cfgs(plan, wss, inst, rng):
    """Baseline first. 'full': the whole product; 'cover': every option tuple without warm start, every warm start
    under the plain and the heuristics+LNS tuples, plus `extra` random pairs of the remaining product."""
    pairs = [(w, o) for w in wss for o in OPTS]
    if plan[0] == "full":
        chosen = pairs
    else:
        must = [(w, o) for (w, o) in pairs if w[0] == "none" or o in (BASE_OPT, OPTS[2])]
        rest = [p for p in pairs if p not in must]
        chosen = must + rng.sample(rest, min(plan[1], len(rest)))
    cfgs = [mk_cfg(w, o, inst) for (w, o) in chosen]
    for w in wss[:2]:  # a loose gap tolerance on a few runs (the statement's "within gap_tol")
        if rng.random() < 0.5:
            cfgs.append(mk_cfg(w, rng.choice(OPTS[:4]), inst, gap_tol=0.2))
    return cfgs


# =============================================================================================== contract
class _Timeout(Exception):
    pass


def _alarm(signum, frame):
    raise _Timeout()


def call_solver(inst, minimize, cfg):
    """-> (kind, payload): ('result', Result) | ('raised', repr) | ('timeout', seconds)."""
    from solvor.milp import solve_milp
    kw = dict(minimize=minimize, heuristics=cfg["heuristics"], lns_iterations=cfg["lns_iterations"],
              solution_limit=cfg["solution_limit"], lns_destroy_frac=cfg["lns_destroy_frac"], seed=cfg["seed"])
    if cfg.get("warm_start") is not None:
        kw["warm_start"] = list(cfg["warm_start"])
    for k in ("max_nodes", "gap_tol"):
        if k in cfg:
            kw[k] = cfg[k]
    old = signal.signal(signal.SIGVTALRM, _alarm)
    signal.setitimer(signal.ITIMER_VIRTUAL, CASE_TIMEOUT)
    try:
        try:
            with warnings.catch_warnings():
                warnings.simplefilter("ignore")
                res = solve_milp([v for v in inst["c"]], [list(r) for r in inst["A"]], list(inst["b"]),
                                 list(inst["integers"]), **kw)
        finally:  # disarm inside the guarded region: a late signal is still caught below
            signal.setitimer(signal.ITIMER_VIRTUAL, 0)
        return "result", res
    except _Timeout:
        return "timeout", CASE_TIMEOUT
    except Exception as e:  # noqa: BLE001 - a raise is an observation, reported by the caller
        return "raised", f"{type(e).__name__}: {e}"
    finally:
        signal.signal(signal.SIGVTALRM, old)


def tau_of(inst):
    mx = max([abs(v) for r in inst["A"] for v in r] + [abs(v) for v in inst["b"]] + [abs(v) for v in inst["c"]] + [1])
    return 1e-6 * (1 + mx)


def point_errors(x, inst, tau):
    c, A, b, ints = inst["c"], inst["A"], inst["b"], inst["integers"]
    n = len(c)
    if x is None:
        return ["no solution returned"]
    try:
        x = [float(v) for v in x]
    except Exception:  # noqa: BLE001
        return [f"solution is not a numeric vector: {x!r}"]
    if len(x) != n:
        return [f"solution has length {len(x)}, expected {n}"]
    if any(v != v or v in (float("inf"), float("-inf")) for v in x):
        return [f"non-finite entry in {x}"]
    errs = []
    for j in range(n):
        if x[j] < -tau:
            errs.append(f"x[{j}] = {x[j]} < 0")
    for j in ints:
        if abs(x[j] - round(x[j])) > tau:
            errs.append(f"x[{j}] = {x[j]} is not integral")
    for i, row in enumerate(A):
        lhs = sum(row[j] * x[j] for j in range(n))
        if lhs > b[i] + tau * (1 + sum(abs(v) for v in row)):
            errs.append(f"row {i}: {row} . x = {lhs} > {b[i]}")
    return errs


def contract(inst, minimize, cfg, res, orc):
    """-> (list of (obligation, detail), status name, c.x or None)."""
    c = inst["c"]
    n = len(c)
    tau = tau_of(inst)
    st = getattr(res.status, "name", str(res.status))
    d = orc["dir"][minimize]
    sgn = 1 if minimize else -1
    v = []
    cx = None
    if st in ("OPTIMAL", "FEASIBLE"):
        x = res.solution
        errs = point_errors(x, inst, tau)
        if errs:
            v.append((P + "ensures:solution-feasible", f"status {st}, solution {x}: " + "; ".join(errs[:3])))
        elif d["status"] == "infeasible" and orc["complete"]:
            v.append((P + "ensures:solution-feasible",
                      f"status {st}, solution {x}, but the instance has no integer-feasible point (exact enumeration)"))
        for k, s in enumerate(res.solutions or ()):
            e2 = point_errors(s, inst, tau)
            if e2:
                v.append((P + "ensures:solutions-entries-feasible", f"solutions[{k}] = {s}: " + "; ".join(e2[:3])))
        if x is not None and len(x) == n:
            cx = sum(c[j] * float(x[j]) for j in range(n))
            scale = 1 + sum(abs(c[j] * float(x[j])) for j in range(n))
            if not (abs(res.objective - cx) <= tau * scale):
                v.append((P + "ensures:objective-is-cx", f"objective {res.objective} but c.x = {cx} for x = {x}"))
            if st == "OPTIMAL" and not errs:
                if d["status"] == "unbounded":
                    v.append((P + "ensures:optimal-is-proven-optimal",
                              f"status OPTIMAL (c.x = {cx}) but the MILP is unbounded"))
                elif d["status"] == "optimal":
                    opt = float(d["value"])
                    tol = cfg.get("gap_tol", 1e-6) * max(1.0, abs(cx), abs(opt)) + tau * scale
                    if sgn * cx > sgn * opt + tol:
                        v.append((P + "ensures:optimal-is-proven-optimal",
                                  f"status OPTIMAL with c.x = {cx} at {x}, but {fl(d['x'])} is integer-feasible with "
                                  f"objective {d['value']}"))
                    elif orc["complete"] and sgn * cx < sgn * opt - 1e-3 * scale:
                        raise AssertionError(f"oracle suspect: solver point {x} passes the feasibility contract and "
                                             f"beats the exact optimum {d['value']}: {inst} minimize={minimize}")
    elif st == "INFEASIBLE":
        if budget_exhausted(cfg, res):
            pass  # node budget exhausted (max_nodes is not among the property's configurations): see notes
        elif d["status"] != "infeasible":
            v.append((P + "ensures:infeasible-means-no-integer-point",
                      f"status INFEASIBLE but {fl(d['x'])} is integer-feasible (objective {_dot(c, d['x'])})"))
    elif st == "UNBOUNDED":
        rs = orc["relax"][minimize]["status"]
        if rs != "unbounded":
            v.append((P + "ensures:unbounded-only-if-relaxation-unbounded",
                      f"status UNBOUNDED but the LP relaxation is {rs}"
                      + (f" with optimum {orc['relax'][minimize]['objective']}" if rs == "optimal" else "")))
    return v, st, cx


def _dot(u, w):
    return sum(a * q for a, q in zip(u, w))


def case_of(inst, minimize, cfg, fam, base_cfg=None):
    cs = {"family": fam, "c": inst["c"], "A": inst["A"], "b": inst["b"], "integers": inst["integers"],
          "minimize": minimize, "cfg": cfg}
    if base_cfg is not None:
        cs["baseline_cfg"] = base_cfg
    return cs


def budget_exhausted(cfg, res):
    return "max_nodes" in cfg and res.iterations >= cfg["max_nodes"]


def invariance(inst, minimize, cfg, got, base_cfg, base):
    """got/base = (kind, status, cx, node budget exhausted). Only for solution_limit == 1."""
    if base[0] != "result" or cfg.get("gap_tol") != base_cfg.get("gap_tol"):
        return None  # the clause is about warm_start / heuristics / LNS only
    if (got[0] == "result" and got[3]) or base[3]:
        return None  # node budget (max_nodes, set only in the open-box family) exhausted in one of the runs: what is
        #              reported then is outside the property's configurations (see notes: outside-quantifier)
    if got[0] != "result":
        return f"plain run returns {base[1]} but this configuration gives no verdict ({got[0]}: {got[1]})"
    if got[1] != base[1]:
        return f"status {got[1]} with this configuration, {base[1]} without warm start/heuristics/LNS"
    if got[1] == "OPTIMAL" and got[2] is not None and base[2] is not None:
        g = max(cfg.get("gap_tol", 1e-6), base_cfg.get("gap_tol", 1e-6))
        if abs(got[2] - base[2]) > g * max(1.0, abs(got[2]), abs(base[2])) + 10 * tau_of(inst) * (1 + abs(base[2])):
            return f"OPTIMAL objective {got[2]} with this configuration, {base[2]} without warm start/heuristics/LNS"
    return None


_HOOKED = False
_REACH = {}


def _hook_reach():
    """Count calls of the heuristic helpers (observation only; behaviour unchanged)."""
    global _HOOKED
    if _HOOKED:
        return
    _HOOKED = True
    import solvor.milp as M

    def wrap(name, pred=None):
        f = getattr(M, name, None)
        if f is None:
            return

        def g(*a, **k):
            r = f(*a, **k)
            if pred is None or pred(r):
                _REACH[name] = _REACH.get(name, 0) + 1
            return r
        setattr(M, name, g)
    wrap("_round_binary", lambda r: r is not None)
    wrap("_lns_improve")
    wrap("_solve_sub_mip", lambda r: r is not None)
    wrap("_detect_binary", lambda r: bool(r))


def work(unit):
    """One instance: oracle once, both directions, planned configurations. Returns plain data."""
    inst, fam, plan, seed = unit
    if isinstance(inst, str):
        inst = json.loads(inst)
    use_repo()
    _hook_reach()
    from oracles.milp_exact import solve as exact
    rng = random.Random(seed)
    _REACH.clear()
    t0 = time.process_time()
    orc = exact(inst["c"], inst["A"], inst["b"], inst["integers"])
    out = {"n": 0, "keys": [], "viol": [], "stat": {}, "sample": None, "noverdict": []}

    def bump(k, by=1):
        out["stat"][k] = out["stat"].get(k, 0) + by

    bump("family:" + fam)
    bump("instances")
    if not orc["complete"]:
        bump("instances-with-open-box")
    for minimize in (True, False):
        d = orc["dir"][minimize]
        rl = orc["relax"][minimize]
        nontrivial = (d["status"] == "infeasible" and rl["status"] != "infeasible") or \
                     (d["status"] == "optimal" and rl["status"] == "optimal" and rl["objective"] != d["value"]) or \
                     (d["status"] == "optimal" and rl["status"] == "unbounded")
        bump("instance-directions")
        bump("oracle:" + d["status"])
        if nontrivial:
            bump("instance-directions-nontrivial")
            bump("nontrivial-directions:" + fam)
        wss = warm_starts(inst, orc, minimize, rng)
        cfgs = plan_cfgs(plan, wss, inst, rng)
        if not nontrivial and plan[0] != "full":
            # integrality does not matter here (root LP answers it): plain run, two heuristic runs, 5 random others
            cfgs = cfgs[:1] + [cf for cf in cfgs[1:] if cf["ws_kind"] == "none" and
                               (cf["heuristics"], cf["lns_iterations"], cf["solution_limit"]) in ((True, 3, 1), (True, 0, 3))
                               and "gap_tol" not in cf][:2] + rng.sample(cfgs[1:], min(5, len(cfgs) - 1))
        base_cfg, base = cfgs[0], None
        for idx, cfg in enumerate(cfgs):
            kind, res = call_solver(inst, minimize, cfg)
            out["n"] += 1
            bump("ws:" + cfg["ws_kind"])
            if kind == "result":
                viols, st, cx = contract(inst, minimize, cfg, res, orc)
                got = ("result", st, cx, budget_exhausted(cfg, res))
                bump("status:" + st)
                if got[3]:
                    bump("node-budget-exhausted(open-box family)")
                for ob, det in viols:
                    out["viol"].append((ob, case_of(inst, minimize, cfg, fam), det))
            else:
                got = (kind, res, None, False)
                bump("no-verdict:" + kind)
                if len(out["noverdict"]) < 3:
                    out["noverdict"].append({"case": case_of(inst, minimize, cfg, fam), "what": f"{kind}: {res}"})
            if idx == 0:
                base = got
            elif cfg["solution_limit"] == 1:
                msg = invariance(inst, minimize, cfg, got, base_cfg, base)
                if msg:
                    out["viol"].append((P + "ensures:verdict-invariant", case_of(inst, minimize, cfg, fam, base_cfg), msg))
            if nontrivial:
                out["keys"].append(int(digest([inst["c"], inst["A"], inst["b"], inst["integers"], minimize, cfg])[:15], 16))
            if out["sample"] is None and nontrivial and cfg["ws_kind"] != "none" and cfg["heuristics"]:
                out["sample"] = case_of(inst, minimize, cfg, fam)
        if nontrivial and fam in ("random-general", "random-binary"):
            # informational only (max_nodes is outside the property's quantifier): what a tiny node budget reports
            for mxn in (1, 2):
                cf = dict(base_cfg, max_nodes=mxn)
                kind, res = call_solver(inst, minimize, cf)
                if kind != "result":
                    continue
                st = getattr(res.status, "name", str(res.status))
                bump(f"outside-quantifier:max_nodes={mxn}:status:{st}")
                if st == "INFEASIBLE" and d["status"] != "infeasible":
                    bump(f"outside-quantifier:max_nodes={mxn}:INFEASIBLE-although-integer-feasible")
                    if len(out["noverdict"]) < 3:
                        out["noverdict"].append({"case": case_of(inst, minimize, cf, fam),
                                                 "what": "outside quantifier: node budget exhausted, status INFEASIBLE, "
                                                         f"but {fl(d['x'])} is integer-feasible"})
    for k, n_ in _REACH.items():
        bump("reached:" + k, n_)
    bump("cpu_ms:" + fam, int(1000 * (time.process_time() - t0)))
    return out


def work_chunk(units):
    return [work(u) for u in units]


# =============================================================================================== driver
def build_units(ctx: Ctx):
    rng = random.Random(ctx.seed)
    q = ctx.quick
    units = []
    seen = set()

    def add(insts, fam, plan):
        k = 0
        for inst in insts:
            key = digest(inst)
            if key in seen:
                continue
            seen.add(key)
            units.append((json.dumps(inst, separators=(",", ":")), fam, plan, rng.randrange(1 << 30)))  # compact
            k += 1
        return k

    e2, d2 = fam_exh2(q)
    k = add(e2, "exh-2var-1row", ("cover", 4 if q else 8))
    cfg_note = ("instance space enumerated completely; per instance and direction: all option tuples without warm start, all "
                "warm-start kinds under the plain and the heuristics+LNS tuple, plus random others (reduced to 8 runs "
                "where integrality does not matter) - not the full configuration product")
    ctx.scope("exh-2var-1row", instances=k, configurations=cfg_note, **d2)
    e3, d3 = fam_exh_bin3(q)
    k = add(e3, "exh-binary-3var", ("cover", 4 if q else 8))
    ctx.scope("exh-binary-3var", instances=k, configurations=cfg_note, **d3)
    fb, dfb = fam_fake_binary(q)
    k = add(fb, "fake-binary", ("cover", 6 if q else 12))
    ctx.scope("fake-binary", instances=k, configurations=cfg_note, **dfb)
    for name, gen, nq, nt, plan in (
        ("random-general", gen_general, 1500, 40000, ("cover", 10)),
        ("random-binary", gen_binary, 1200, 30000, ("cover", 10)),
        ("random-fake-binary", gen_fake_binary, 600, 12000, ("cover", 8)),
        ("random-open-box", gen_open, 500, 8000, ("cover", 6)),
        ("random-general-full-config-product", gen_general, 150, 3000, ("full",)),
        ("random-binary-full-config-product", gen_binary, 150, 3000, ("full",)),
    ):
        k = add((gen(rng) for _ in range(nq if q else nt)), name, plan)
        ctx.scope(name, instances=k, generator=gen.__doc__ or "n 1..4, m 1..4 user rows with entries -3..3 "
                  "(+ duplicate/parallel rows, equality pairs, zero rows/columns, zero rhs, difference rows, objective "
                  "parallel to a row / zero, non-unit bound rows), box U 1..3, random integer subsets incl. all / none",
                  configurations="full product" if plan[0] == "full" else f"cover + {plan[1]} random", seeded=True)
    return units


def run(ctx: Ctx):
    from vf.prove import prove
    prove(ctx, ["specs.lp_milp"], "C04")  # deductive part (specs/lp_milp.py)
    from vf.pool import pmap
    use_repo()
    units = build_units(ctx)
    # chunk so that results come back in modest pieces; order is fixed => deterministic
    rng = random.Random(ctx.seed + 1)
    rng.shuffle(units)
    size = 12
    chunks = [units[i:i + size] for i in range(0, len(units), size)]
    stat = {}
    noverdict = []
    for res in pmap(work_chunk, chunks, chunksize=1):
        for o in res:
            ctx.count(o["n"], o["keys"], [o["sample"]] if o["sample"] else [])
            for ob, cs, det in o["viol"]:
                ctx.violation(ob, cs, det)
            for k, v in o["stat"].items():
                stat[k] = stat.get(k, 0) + v
            noverdict += o["noverdict"][: max(0, 5 - len(noverdict))]
    ctx.notes["c04_stats"] = dict(sorted(stat.items()))
    ctx.notes["c04_no_verdict_or_outside_quantifier_examples"] = noverdict
    ctx.notes["configuration_space"] = {
        "option_tuples(heuristics,lns_iterations,solution_limit,lns_destroy_frac,seed)": [list(o) for o in OPTS],
        "warm_start_kinds": ["none", "feasible-optimal", "feasible-other", "infeasible-row-better", "infeasible-negative",
                             "infeasible-fractional", "wrong-length-short", "wrong-length-long",
                             "(infeasible instances) zeros / relaxation-vertex / rounded-vertex / ones"],
        "extra": "gap_tol=0.2 on some runs; max_nodes=300 in the open-box family",
    }
    ctx.rule = ("case = (instance, minimize|maximize, configuration); every case is one call of solve_milp judged against "
                "the exact oracle. non-trivial = integrality matters for that instance and direction: the exact LP "
                "relaxation optimum differs from the exact MILP optimum, or the relaxation is feasible/unbounded while "
                "the MILP is infeasible/bounded; distinct = different (c, A, b, integers, direction, configuration)")
    ctx.assumptions += [
        "float tolerance: rows/sign/integrality within 1e-6*(1+max|data|) (rows additionally scaled by 1+|row|_1); "
        "OPTIMAL compared within gap_tol*max(1,|obj|,|OPT|) + that tolerance; integer data with entries <= 6",
        "bounded scope: n <= 5 variables, <= 5 user rows, box U <= 3 (explicit rows), see scopes",
        "a raise or a time-out of solve_milp is not judged by the property except through verdict-invariance "
        "(reported under c04_stats no-verdict:*)",
        "with an open box (family random-open-box, outside the property's 'bounded MILPs', kept for the UNBOUNDED clause) "
        "the oracle is one-sided: only witnesses are used; runs there carry max_nodes=300 and a run that exhausts this "
        "node budget is not judged on INFEASIBLE / verdict-invariance (max_nodes is not among the property's "
        "configurations; the code reports budget exhaustion without incumbent as INFEASIBLE - see c04_stats "
        "outside-quantifier:* and the examples in the notes)",
    ]
    ctx.trusted += ["oracles/milp_exact.py (box enumeration; every witness re-verified exactly)",
                    "oracles/lp_exact.py (Fraction simplex, every answer validated by its certificate)"]


# =============================================================================================== replay
def replay(rec) -> int:
    use_repo()
    from oracles.milp_exact import solve as exact
    cs = rec["case"]
    inst = {"c": cs["c"], "A": cs["A"], "b": cs["b"], "integers": cs["integers"]}
    orc = exact(inst["c"], inst["A"], inst["b"], inst["integers"])
    mn = cs["minimize"]
    d = orc["dir"][mn]
    print(f"instance: {'min' if mn else 'max'} {inst['c']}.x  A={inst['A']} b={inst['b']} integers={inst['integers']}")
    print(f"oracle: {d['status']} value={d['value']} x={d['x']} complete={orc['complete']} "
          f"relaxation={orc['relax'][mn]['status']} {orc['relax'][mn]['objective']}")
    bad = []

    def one(cfg, label):
        kind, res = call_solver(inst, mn, cfg)
        if kind != "result":
            print(f"{label}: {kind}: {res}   cfg={cfg}")
            return (kind, res, None, False)
        viols, st, cx = contract(inst, mn, cfg, res, orc)
        print(f"{label}: status={st} objective={res.objective} solution={res.solution} solutions={res.solutions} cfg={cfg}")
        for ob, det in viols:
            print("   VIOLATES", ob, "::", det)
            bad.append(ob)
        return ("result", st, cx, budget_exhausted(cfg, res))

    got = one(cs["cfg"], "run")
    if "baseline_cfg" in cs:
        base = one(cs["baseline_cfg"], "plain run")
        msg = invariance(inst, mn, cs["cfg"], got, cs["baseline_cfg"], base)
        if msg:
            print("   VIOLATES", P + "ensures:verdict-invariant", "::", msg)
            bad.append(P + "ensures:verdict-invariant")
    print("replay:", "still violated" if bad else "no violation")
    return 1 if bad else 0

"""C01 - SAT models are models.  Bounded back end (top-level contract of solve_sat against brute force / z3)
plus the deductive obligations on the helpers of sat.py that are within the prover's reach."""
from vf.core import use_repo
from checks import sat_common

LEVEL = "exploration"


def run(ctx):
    use_repo()
    prove(ctx)
    sat_common.run_property(ctx, "C01")
    ctx.rule = ("cases = CNF x assumptions x solution_limit x luby_factor x budgets from the families listed in scopes; "
                "contract: every returned assignment satisfies every clause and every assumption, solutions pairwise distinct "
                "(and never more solutions than the formula has models, where brute force can count them); "
                + sat_common.ROUND2_RULE + sat_common.ROUND3_RULE +
                "non-trivial = the run made >= 1 decision on a formula with > 1 clause, or returned > 1 model; distinct = different (formula or recipe, configuration) / different call sequence")
    ctx.assumptions += ["oracle: direct evaluation of every returned assignment; for `a model exists`: planted witness (checked), "
                        "a returned assignment that passes evaluation, brute force up to 14 variables, z3 above (trusted, time-limited on the size ladder)",
                        "bounded: decided only on the enumerated / sampled cases"]


def prove(ctx):
    from vf.prove import prove as _p
    _p(ctx, ["specs.sat"], "C01", lemma_groups=())


def replay(rec):
    use_repo()
    v, info = sat_common.replay_case(rec)
    print("replay:", v or "no violation", info)
    return 1 if any(o.startswith("C01") for o, _ in v) else 0

"""C12, round-2 families (used by checks/C12.py; same contract `C12._judge`, same overlay / rebuilt extension).

  ladder        every function on sparse multigraphs with 10 .. 8192+ nodes (around powers of two and round numbers),
                judged with the near-linear certifying oracles of oracles/c12_big.py (feasible potentials / explicit
                negative cycles, Kosaraju components, union-find forests); floyd_warshall as far as its cubic pure-Python
                loop allows.
  coincidence   pagerank_edges: an independent power iteration gives the per-sweep max-norm changes d_1 > d_2 > ... of the
                graph; tol is placed strictly between d_(c-1) and d_c (geometric mean), so the stopping sweep is c whatever
                the rounding, and max_iter runs over c-2 .. c+5 (all residues mod 4 and mod 8) and 100.
  history       programs executed in ONE interpreter on ONE weighted edge-list object and ONE arc-list object: in-place
                edits (element assignment, append, pop, insert, reverse, slice assignment; length kept or not) interleaved
                with calls of any of the nine functions, each call made with backend=python, rust and the default on the very
                same list object and judged by the contract for the list contents at that moment; calls repeated; the
                last call is re-made in an interpreter that has made no call before and must give the same observation.
                Every program runs in a child forked from a worker that only imported the package, so a reported program
                is self-contained; failing programs are shrunk step by step in further children.
  deep          path-shaped graphs (DFS depth = n) evaluated in a fresh interpreter process per case, so that a crash of
                the process is observed as such; SCC up to depth 20000 with the recursion limit raised (stack exhaustion
                itself is outside the contracts, see the comment at DEEP_SCC_QUICK), the other functions up to 300000 nodes.
"""
from __future__ import annotations

import json
import math
import os
import pickle
import random
import signal
import subprocess
import sys

WEIGHTED = ("floyd_warshall", "bellman_ford", "dijkstra_edges", "kruskal")
ARC_FNS = ("bfs_edges", "dfs_edges", "pagerank_edges", "strongly_connected_components_edges", "topological_sort_edges")
ALL_FNS = WEIGHTED + ARC_FNS
B3 = ("python", "rust", "default")

LADDER_QUICK = (10, 12, 33, 65, 129, 140, 260, 520, 600, 1025, 2049, 4095, 4096, 4097, 5000, 8192)
LADDER_THOROUGH = LADDER_QUICK + (1000, 2048, 3000, 8191, 8193, 10000, 16385)
FW_QUICK = (10, 12, 33, 65, 129, 140)
FW_THOROUGH = FW_QUICK + (260, 300, 520)


# =========================================================================== graph generators
def _perm(rng, n):
    p = list(range(n))
    rng.shuffle(p)
    return p


def arcs_sparse(rng, n, density=2.5, reach=0.8, deep=False):
    """-> (arcs, lab, k): a random arborescence from lab[0] over lab[:k] (deep: parents among the 8 latest nodes),
    extra random arcs inside lab[:k2], duplicated and reversed copies, self loops; lab[k2:] have only outgoing arcs (so they
    are not reachable from the core), lab[k:k2] may or may not be reachable."""
    lab = _perm(rng, n)
    k = max(1, min(n, int(round(n * reach))))
    k2 = k + (n - k) // 2
    arcs = []
    for i in range(1, k):
        j = rng.randrange(max(0, i - 8), i) if deep and rng.random() < 0.9 else rng.randrange(i)
        arcs.append((lab[j], lab[i]))
    for _ in range(int(n * max(0.0, density - 1.0))):
        arcs.append((lab[rng.randrange(k2)], lab[rng.randrange(k2)]))
    for i in range(k2, n):
        if rng.random() < 0.6:
            arcs.append((lab[i], lab[rng.randrange(n)]))
    base = len(arcs)
    tail = set(lab[k2:])
    if base:
        for _ in range(n // 16 + 1):
            arcs.append(arcs[rng.randrange(base)])
        for _ in range(n // 16 + 1):
            u, v = arcs[rng.randrange(base)]
            if u not in tail:  # a reversed copy must not lead INTO the outgoing-only region
                arcs.append((v, u))
    for _ in range(n // 32 + 1):
        u = lab[rng.randrange(k2)]
        arcs.append((u, u))
    rng.shuffle(arcs)
    return arcs, lab, k


def arcs_dag(rng, n, density=2.5):
    lab = _perm(rng, n)
    arcs = []
    for _ in range(int(n * density)):
        i, j = rng.randrange(n), rng.randrange(n)
        if i == j:
            continue
        if i > j:
            i, j = j, i
        arcs.append((lab[i], lab[j]))
    for _ in range(n // 16 + 1):
        if arcs:
            arcs.append(arcs[rng.randrange(len(arcs))])
    rng.shuffle(arcs)
    return arcs, lab


def arcs_blocks(rng, n):
    """Strongly connected blocks of mixed sizes (a cycle plus chords each), joined by arcs that go forward in block order."""
    lab = _perm(rng, n)
    arcs, blocks, i = [], [], 0
    while i < n:
        s = min(n - i, rng.choice([1, 1, 2, 3, 5, 8, 17, 64, 257]))
        blocks.append(lab[i:i + s])
        i += s
    for b in blocks:
        if len(b) > 1:
            for x in range(len(b)):
                arcs.append((b[x], b[(x + 1) % len(b)]))
            for _ in range(len(b) // 3):
                arcs.append((rng.choice(b), rng.choice(b)))
        elif rng.random() < 0.2:
            arcs.append((b[0], b[0]))
    for _ in range(2 * len(blocks)):
        x, y = rng.randrange(len(blocks)), rng.randrange(len(blocks))
        if x == y:
            continue
        if x > y:
            x, y = y, x
        arcs.append((rng.choice(blocks[x]), rng.choice(blocks[y])))
    rng.shuffle(arcs)
    return arcs, lab


def arcs_path(rng, n, back=0, chords=0, shuffle=True):
    lab = _perm(rng, n)
    arcs = [(lab[i], lab[i + 1]) for i in range(n - 1)]
    for _ in range(chords):
        i, j = sorted((rng.randrange(n), rng.randrange(n)))
        arcs.append((lab[i], lab[j]))
    for _ in range(back):
        i, j = sorted((rng.randrange(n), rng.randrange(n)))
        arcs.append((lab[j], lab[i]))
    if shuffle:
        rng.shuffle(arcs)
    return arcs, lab


def weigh(rng, arcs, style, n, cycle_nodes=None):
    """-> weighted edges.  Styles: wide | ties | dyadic | potential (negative edges, no negative cycle) |
    negcycle (potential + one planted closed walk of total weight -1 through cycle_nodes)."""
    if style in ("potential", "negcycle"):
        p = [rng.randint(0, 200) for _ in range(n)]
        E = [(u, v, rng.randint(0, 50) + p[u] - p[v]) for u, v in arcs]
        if style == "negcycle":
            c = cycle_nodes
            extra = [(c[i], c[(i + 1) % len(c)], p[c[i]] - p[c[(i + 1) % len(c)]] + (-1 if i == 0 else 0)) for i in range(len(c))]
            E += extra
            rng.shuffle(E)
        return E
    if style == "wide":
        return [(u, v, rng.randint(1, 10000)) for u, v in arcs]
    if style == "ties":
        return [(u, v, rng.choice([0, 1, 1, 2, 3])) for u, v in arcs]
    if style == "dyadic":
        return [(u, v, rng.randint(0, 80) / 8.0) for u, v in arcs]
    if style == "signed":
        return [(u, v, rng.randint(-50, 100)) for u, v in arcs]
    if style == "fine":
        # near-ties: small integer parts, separated by multiples of 2^-40 (2^-36 above 1024 nodes, so that every sum of
        # at most n weights is still exact in binary64: 8 n < 2^17, 17 + 36 = 53 bits)
        unit = 2.0 ** (-40 if n <= 1024 else -36)
        return [(u, v, rng.randint(1, 6) + rng.randint(-4, 4) * unit) for u, v in arcs]
    raise KeyError(style)


def _listify(E):
    return [list(e) for e in E]


# =========================================================================== ladder
def ladder_variants(fn, tier):
    """Names of the variants generated for one (function, size); `ladder_case` builds them."""
    v = {
        "floyd_warshall": ["wide/directed", "potential/directed", "ties/undirected", "dyadic/undirected", "negcycle/directed", "negative/undirected", "fine/directed", "fine/undirected"],
        "bellman_ford": ["wide/none", "potential/reach", "potential/unreach", "ties/none", "negcycle/unreach", "negcycle/none", "negcycle-apart/reach", "fine/none", "fine/reach",
                         "revpath/none"],
        "dijkstra_edges": ["wide/none", "ties/reach", "dyadic/reach", "wide/unreach", "ties/none", "fine/none", "fine/reach"],
        "bfs_edges": ["sparse/none", "sparse/reach", "sparse/unreach", "path/reach"],
        "dfs_edges": ["sparse/none", "sparse/reach", "sparse/unreach", "path/reach"],
        "kruskal": ["wide/connected", "ties/connected", "signed/forest", "dyadic/disconnected", "signed/connected", "fine/connected"],
        "pagerank_edges": ["default", "short-budget", "loose", "low-damping", "long"],
        "strongly_connected_components_edges": ["blocks", "sparse", "path-back", "dag"],
        "topological_sort_edges": ["dag", "dag+selfloop", "dag+backarc", "blocks"],
    }
    return v[fn]


NEG_CYCLE_MAX_N = {"quick": 1100, "thorough": 2100}  # bellman_ford on a negative cycle always makes n-1 full rounds


def ladder_case(fn, n, variant, seed, tier="quick"):
    """One concrete case (plain JSON data) or None when the variant does not exist at that size."""
    rng = random.Random(f"C12/ladder/{seed}/{fn}/{n}/{variant}")
    c = {"fn": fn, "n": n, "family": f"ladder/{variant}", "backends": list(B3)}
    a, _, b = variant.partition("/")
    if fn == "floyd_warshall":
        arcs, lab, k = arcs_sparse(rng, n, density=2.2, reach=0.85)
        c["directed"] = b == "directed"
        if a == "negcycle":
            cyc = [lab[i] for i in sorted(rng.sample(range(k), min(k, 3)))]
            E = weigh(rng, arcs, "negcycle", n, cyc) if len(cyc) >= 2 else None
            if E is None:
                return None
        elif a == "negative":
            E = weigh(rng, arcs, "ties", n)
            i = rng.randrange(len(E))
            E[i] = (E[i][0], E[i][1], -1)
        else:
            E = weigh(rng, arcs, a, n)
        c["edges"] = _listify(E)
        return c
    if fn == "bellman_ford" and a == "revpath":
        # a path whose edges are listed from the far end: every round of relaxations settles one more node (n - 1 rounds)
        if n > NEG_CYCLE_MAX_N[tier]:
            return None
        arcs, lab = arcs_path(rng, n, chords=n // 10, shuffle=False)
        arcs = arcs[:n - 1][::-1] + arcs[n - 1:]
        c.update(source=lab[0], target=None, edges=_listify(weigh(rng, arcs, "wide", n)))
        return c
    if fn == "bellman_ford":
        arcs, lab, k = arcs_sparse(rng, n, density=2.5, reach=0.8)
        if a.startswith("negcycle"):
            if n > NEG_CYCLE_MAX_N[tier]:
                return None
            pool = range(1, k) if a == "negcycle" else range(k + (n - k) // 2, n)  # reachable from the source / apart from it
            if len(pool) < 2:
                return None
            cyc = [lab[i] for i in sorted(rng.sample(pool, min(len(pool), rng.choice([2, 3, 5]))))]
            E = weigh(rng, arcs, "negcycle", n, cyc)
        else:
            E = weigh(rng, arcs, a, n)
        c.update(source=lab[0], target=_target(rng, b, lab, k, n), edges=_listify(E))
        return c if not (b == "unreach" and c["target"] is None) else None
    if fn == "dijkstra_edges":
        arcs, lab, k = arcs_sparse(rng, n, density=2.5, reach=0.8, deep=True)
        c.update(source=lab[0], target=_target(rng, b, lab, k, n), edges=_listify(weigh(rng, arcs, a, n)))
        return c if not (b == "unreach" and c["target"] is None) else None
    if fn in ("bfs_edges", "dfs_edges"):
        if a == "path":
            arcs, lab = arcs_path(rng, n, back=n // 10, chords=n // 5)
            c.update(source=lab[0], target=lab[-1], edges=_listify(arcs))
            return c
        arcs, lab, k = arcs_sparse(rng, n, density=2.5, reach=0.8, deep=True)
        c.update(source=lab[0], target=_target(rng, b, lab, k, n), edges=_listify(arcs))
        return c if not (b == "unreach" and c["target"] is None) else None
    if fn == "kruskal":
        arcs, lab, k = arcs_sparse(rng, n, density=2.5, reach=1.0 if b == "connected" else 0.85)
        c.update(allow_forest=(b == "forest") or (b == "connected" and rng.random() < 0.5), edges=_listify(weigh(rng, arcs, a, n)))
        return c
    if fn == "pagerank_edges":
        arcs, lab, k = arcs_sparse(rng, n, density=rng.choice([2.0, 3.0]), reach=0.9)
        if variant == "long" and n > 140:
            return None  # thousands of pure-Python sweeps
        opt = {"default": (0.85, 100, 1e-6), "short-budget": (0.85, 7, 1e-8), "loose": (0.9, 50, 1e-3), "low-damping": (0.3, 100, 1e-10),
               "long": (0.995, 10000, 1e-10)}[variant]
        c.update(damping=opt[0], max_iter=opt[1], tol=opt[2], edges=_listify(arcs))
        return c
    if fn == "strongly_connected_components_edges":
        if variant == "blocks":
            arcs, _ = arcs_blocks(rng, n)
        elif variant == "sparse":
            arcs, _, _ = arcs_sparse(rng, n, density=2.2, reach=0.9, deep=True)
        elif variant == "path-back":
            arcs, _ = arcs_path(rng, n, back=max(1, n // 50), chords=n // 10)
        else:
            arcs, _ = arcs_dag(rng, n)
        c.update(edges=_listify(arcs), recursion_limit=20 * n + 10000)
        return c
    if fn == "topological_sort_edges":
        if variant == "blocks":
            arcs, _ = arcs_blocks(rng, n)
        else:
            arcs, lab = arcs_dag(rng, n)
            if variant == "dag+selfloop":
                for _ in range(rng.choice([1, 1, 2])):
                    u = rng.randrange(n)
                    arcs.insert(rng.randrange(len(arcs) + 1), (u, u))
            elif variant == "dag+backarc" and arcs:
                u, v = arcs[rng.randrange(len(arcs))]
                arcs.insert(rng.randrange(len(arcs) + 1), (v, u))
        c["edges"] = _listify(arcs)
        return c
    raise KeyError(fn)


def _target(rng, kind, lab, k, n):
    if kind == "none":
        return None
    if kind == "reach":
        return lab[rng.randrange(k)]
    return lab[n - 1] if k + (n - k) // 2 < n else None  # outgoing-only region


def gen_ladder(unit):
    for fn, n, variant in unit["items"]:
        c = ladder_case(fn, n, variant, unit["seed"], unit["tier"])
        if c is not None:
            yield c


def plan_ladder(tier, seed):
    """-> (units, scope rows).  quick: sizes >= 2049 get two of the variants each (rotating, so every variant meets
    the sizes around 4096 and 8192); thorough: every variant at every size, two seeds."""
    q = tier == "quick"
    units, rows = [], []
    for fn in ALL_FNS:
        sizes = (FW_QUICK if q else FW_THOROUGH) if fn == "floyd_warshall" else (LADDER_QUICK if q else LADDER_THOROUGH)
        vs = ladder_variants(fn, tier)
        n_items = 0
        for rep in range(1 if q else 2):
            small, big = [], []
            for si, n in enumerate(sizes):
                pick = vs if (not q or n < 2049) else [vs[(2 * si + j) % len(vs)] for j in range(2)]
                for v in pick:
                    (big if n >= 2049 or (fn == "floyd_warshall" and n >= 129) else small).append([fn, n, v])
            n_items += len(small) + len(big)
            sd = f"{seed}/{rep}"
            for i in range(0, len(small), 12):
                units.append({"kind": "ladder", "fn": fn, "items": small[i:i + 12], "seed": sd, "tier": tier, "count": 800})
            for it in big:
                units.append({"kind": "ladder", "fn": fn, "items": [it], "seed": sd, "tier": tier, "count": it[1] ** 3 // 300 if fn == "floyd_warshall" else 3000 if it[1] < 8000 else 6000})
        rows.append({"name": f"{fn} size ladder", "nodes": list(sizes), "variants": vs, "cases_planned": n_items, "note": "variants that do not exist at a size are skipped (negative-cycle and reversed-path Bellman-Ford above 1100/2100 nodes, long PageRank runs above 140 nodes); evaluated counts per function and mode are in cases_per_function_and_mode",
                     "edges": "about 2.2-2.5 per node: random arborescence + random arcs + duplicated / reversed copies + self loops + unreachable region",
                     "oracle": "oracles/c12_big.py (certifying, near-linear)"})
    if q:
        units.append({"kind": "ladder", "fn": "floyd_warshall", "items": [["floyd_warshall", 260, "potential/directed"]], "seed": f"{seed}/0", "tier": tier, "count": 50000})
        rows[0]["nodes"] = list(FW_QUICK) + [260]
        rows[0]["cases_planned"] += 1
    return units, rows


# =========================================================================== option coincidence (pagerank_edges)
COINC_SIZES_QUICK = (6, 33, 129, 600, 1025, 4095, 4096, 4097, 5000, 8192)
COINC_SIZES_THOROUGH = COINC_SIZES_QUICK + (12, 65, 260, 2049, 8191, 8193, 10000, 16385)


def coincidence_cases(n, damping, cs, seed, with_default_budget=True):
    """Concrete cases of one graph: for every requested stopping sweep c that the graph admits, tol strictly between
    d_(c-1) and d_c and max_iter = c-2 .. c+5 (+ 100)."""
    import oracles.c12_big as OB
    rng = random.Random(f"C12/coincidence/{seed}/{n}/{damping}")
    arcs, lab, k = arcs_sparse(rng, n, density=rng.choice([2.0, 3.0, 4.0]), reach=0.9)
    edges = _listify(arcs)
    tr = OB.PagerankTrace(n, edges, damping).upto(max(cs) + 1)
    ch = tr.changes
    out = []
    for c in cs:
        if c < 2 or ch[c - 1] <= 0.0:
            continue
        lo, hi = ch[c - 1], ch[c - 2]
        if not (lo < hi * (1 - 1e-3)) or min(ch[:c - 1]) <= hi * (1 - 1e-9):
            continue  # the sequence of changes is not strictly decreasing up to sweep c: c is not a clean stopping sweep
        tol = math.sqrt(lo * hi)
        if not (lo * (1 + 1e-4) < tol < hi * (1 - 1e-4)) or tol < 1e-10:
            continue  # (changes below 1e-10 approach the rounding noise of a sweep: no clean stopping sweep there)
        budgets = list(range(max(1, c - 2), c + 6)) + ([100] if with_default_budget else [])
        for mi in budgets:
            out.append({"fn": "pagerank_edges", "n": n, "edges": edges, "damping": damping, "tol": tol, "max_iter": mi, "trace": True,
                        "family": f"coincidence/stopping-sweep-{c}", "backends": list(B3)})
    return out


def gen_coincidence(unit):
    yield from coincidence_cases(unit["n"], unit["damping"], unit["cs"], unit["seed"])


def plan_coincidence(tier, seed):
    q = tier == "quick"
    units = []
    sizes = COINC_SIZES_QUICK if q else COINC_SIZES_THOROUGH
    for i, n in enumerate(sizes):
        big = n >= 2049
        if q:
            combos = [((0.85, 0.6)[i % 2], [5, 6] if big else [3, 4, 5, 6, 7, 8, 9, 10])]
            if not big:
                combos.append(((0.6, 0.85)[i % 2], [4, 5, 6, 7]))
        else:
            combos = [(d, cs) for d in (0.85, 0.6, 0.95, 0.3) for cs in ([3, 4, 5, 6], [7, 8, 9, 10], [17, 18, 19, 20], [30, 31, 32, 33])]
        for rep in range(1 if q else 2):
            for d, cs in combos:
                units.append({"kind": "coincidence", "fn": "pagerank_edges", "n": n, "damping": d, "cs": cs, "seed": f"{seed}/{rep}", "tier": tier,
                              "count": 12000 if big else 600})
    row = {"name": "pagerank_edges option coincidence", "nodes": list(sizes),
           "options": "tol = geometric mean of two consecutive max-norm changes of an independent power iteration (stopping sweep c known, margin >= 1e-4 relative, tol >= 1e-10); "
                      "max_iter = c-2 .. c+5 and 100; damping 0.85 / 0.6" + ("" if q else " / 0.95 / 0.3"),
           "stopping_sweeps": "5, 6 at >= 2049 nodes, 3..10 below" if q else "3..10, 17..20, 30..33",
           "graphs": len(units)}
    return units, [row]


# =========================================================================== history mode
def _rand_wedge(rng, n, signed):
    w = rng.choice([0, 1, 1, 2, 3, 5, 0.5, 2.25, 7]) if not signed else rng.choice([-2, -1, 0, 1, 2, 3, 5, 0.5, -0.25])
    return [rng.randrange(n), rng.randrange(n), w]


def _rand_arc(rng, n):
    return [rng.randrange(n), rng.randrange(n)]


def history_program(seed, idx):
    rng = random.Random(f"C12/history/{seed}/{idx}")
    n = rng.choice([2, 3, 3, 4, 4, 5, 6, 8, 12, 12, 20, 40])
    signed = rng.random() < 0.4
    new = {"W": lambda: _rand_wedge(rng, n, signed), "A": lambda: _rand_arc(rng, n)}
    cur = {"W": [new["W"]() for _ in range(rng.randint(1, min(2 * n + 2, 30)))],
           "A": [new["A"]() for _ in range(rng.randint(1, min(2 * n + 2, 30)))]}
    prog = {"kind": "history", "n": n, "signed": signed, "lists": {k: [list(e) for e in v] for k, v in cur.items()}, "steps": []}
    steps = prog["steps"]
    fns = [f for f in ALL_FNS if not (signed and f == "dijkstra_edges")]
    focus = rng.choice(["W", "A", None])  # many programs stay on one list object (no other object passes through the adapters in between)

    def edit(which):
        L = cur[which]
        kind = rng.choice(["set", "set", "set", "append+pop", "pop+insert", "reverse", "slice=", "slice", "append", "pop", "setweight"])
        if not L and kind not in ("append",):
            kind = "append"
        if kind == "set":
            i = rng.randrange(len(L))
            v = new[which]()
            L[i] = v
            steps.append(["edit", which, "set", i, v])
        elif kind == "setweight":
            i = rng.randrange(len(L))
            v = list(L[i])
            if which == "W":
                v[2] = new["W"]()[2]
            else:
                v = [v[1], v[0]]
            L[i] = v
            steps.append(["edit", which, "set", i, v])
        elif kind == "append+pop":
            v = new[which]()
            L.append(v)
            i = rng.randrange(len(L) - 1)
            L.pop(i)
            steps.append(["edit", which, "append", v])
            steps.append(["edit", which, "pop", i])
        elif kind == "pop+insert":
            i = rng.randrange(len(L))
            L.pop(i)
            j = rng.randrange(len(L) + 1)
            v = new[which]()
            L.insert(j, v)
            steps.append(["edit", which, "pop", i])
            steps.append(["edit", which, "insert", j, v])
        elif kind == "reverse":
            L.reverse()
            steps.append(["edit", which, "reverse"])
        elif kind in ("slice=", "slice"):
            i = rng.randrange(len(L))
            j = rng.randint(i, min(len(L), i + 4))
            k = (j - i) if kind == "slice=" else rng.randint(0, 3)
            vs = [new[which]() for _ in range(k)]
            L[i:j] = vs
            steps.append(["edit", which, "slice", i, j, vs])
        elif kind == "append":
            v = new[which]()
            L.append(v)
            steps.append(["edit", which, "append", v])
        elif kind == "pop":
            i = rng.randrange(len(L))
            L.pop(i)
            steps.append(["edit", which, "pop", i])

    for t in range(rng.randint(5, 12)):
        pool = fns if focus is None or rng.random() < 0.15 else [f for f in fns if (f in WEIGHTED) == (focus == "W")]
        fn = rng.choice(pool)
        which = "W" if fn in WEIGHTED else "A"
        if t > 0 or rng.random() < 0.3:
            for _ in range(rng.choice([1, 1, 1, 2, 3])):
                edit(which if rng.random() < 0.8 else ("A" if which == "W" else "W"))
        cfg = {"fn": fn}
        if fn == "floyd_warshall":
            cfg["directed"] = rng.random() < 0.5
        elif fn in ("bellman_ford", "dijkstra_edges", "bfs_edges", "dfs_edges"):
            cfg["source"] = rng.randrange(n)
            cfg["target"] = None if rng.random() < 0.5 else rng.randrange(n)
        elif fn == "kruskal":
            cfg["allow_forest"] = rng.random() < 0.5
        elif fn == "pagerank_edges":
            cfg.update(damping=rng.choice([0.85, 0.5, 0.9]), tol=rng.choice([1e-6, 1e-3, 1e-8]), max_iter=rng.choice([3, 10, 100, 100]))
        steps.append(["call", cfg])
        if rng.random() < 0.25:
            steps.append(["call", dict(cfg)])  # the same call repeated, nothing edited in between
    return prog


def _apply_edit(L, step):
    op = step[2]
    if op == "set":
        L[step[3]] = tuple(step[4])
    elif op == "append":
        L.append(tuple(step[3]))
    elif op == "pop":
        L.pop(step[3])
    elif op == "insert":
        L.insert(step[3], tuple(step[4]))
    elif op == "reverse":
        L.reverse()
    elif op == "slice":
        L[step[3]:step[4]] = [tuple(e) for e in step[5]]
    else:
        raise KeyError(op)


def _edit_applicable(L, step):
    op = step[2]
    if op in ("set", "pop"):
        return 0 <= step[3] < len(L)
    if op == "insert":
        return 0 <= step[3] <= len(L)
    return True


def _plain(x):
    """observation -> comparable plain data (dict keys as strings sorted, tuples as lists)"""
    return json.loads(json.dumps(x, sort_keys=True, default=repr))


def run_history(prog):
    """Executed inside a pristine child.  -> dict(fail=None | {step, violations, case}, evals, keys, inc, pvo, last)"""
    import checks.C12 as C
    n = prog["n"]
    L = {k: [tuple(e) for e in v] for k, v in prog["lists"].items()}
    out = {"fail": None, "evals": 0, "calls": 0, "inc": {}, "pvo": {}, "last": None, "nontrivial": 0, "skipped_steps": 0}
    for idx, step in enumerate(prog["steps"]):
        if step[0] == "edit":
            if _edit_applicable(L[step[1]], step):
                _apply_edit(L[step[1]], step)
            else:
                out["skipped_steps"] += 1  # only in shrunk programs
            continue
        cfg = step[1]
        which = "W" if cfg["fn"] in WEIGHTED else "A"
        live = L[which]
        if cfg["fn"] == "dijkstra_edges" and any(e[2] < 0 for e in live):
            out["skipped_steps"] += 1  # not a valid input (only in shrunk programs)
            continue
        snap = [list(e) for e in live]
        case = dict(cfg, n=n, edges=snap, backends=list(B3))
        R = C._run_backends(case, live=live)
        V, nontrivial, inc, pvo = C._judge(case, R)
        if [list(e) for e in live] != snap:
            V = list(V) + [(C._ob(case) + "edge-list-left-untouched", f"the caller's list was {snap} before the call and is {[list(e) for e in live]} after it")]
        out["evals"] += 1
        out["calls"] += len(B3)
        out["nontrivial"] += 1 if nontrivial else 0
        for k in inc:
            out["inc"][k] = out["inc"].get(k, 0) + 1
        for k in pvo:
            out["pvo"][k] = out["pvo"].get(k, 0) + 1
        out["last"] = (case, _plain(R))
        if V:
            out["fail"] = {"step": idx, "violations": V, "case": case}
            break
    return out


def fresh_observation(case):
    """Executed inside a pristine child: the case on a new list, nothing called before."""
    import checks.C12 as C
    R = C._run_backends(case)
    V, _, _, _ = C._judge(case, R)
    return _plain(R), V


try:
    import ctypes
    _PRCTL = ctypes.CDLL(None).prctl
except Exception:  # noqa
    _PRCTL = None


def in_child(fn, arg):
    """Run fn(arg) in a forked child of this (pristine) worker; -> (result | None, exit description | None)."""
    r, w = os.pipe()
    pid = os.fork()
    if pid == 0:
        code = 0
        try:
            os.close(r)
            if _PRCTL is not None:
                _PRCTL(1, signal.SIGKILL)  # PR_SET_PDEATHSIG: never outlive the worker
            data = pickle.dumps(("ok", fn(arg)))
        except BaseException as e:  # noqa
            import traceback
            data = pickle.dumps(("err", f"{type(e).__name__}: {e}\n{traceback.format_exc()[-800:]}"))
            code = 0
        try:
            with os.fdopen(w, "wb") as f:
                f.write(data)
        finally:
            os._exit(code)
    os.close(w)
    chunks = []
    with os.fdopen(r, "rb") as f:
        while True:
            b = f.read(1 << 16)
            if not b:
                break
            chunks.append(b)
    _, st = os.waitpid(pid, 0)
    if os.WIFSIGNALED(st):
        return None, f"the process was killed by signal {os.WTERMSIG(st)} ({signal.Signals(os.WTERMSIG(st)).name})"
    try:
        tag, val = pickle.loads(b"".join(chunks))
    except Exception as e:  # noqa
        return None, f"no result from the child ({type(e).__name__})"
    if tag == "err":
        raise RuntimeError("history child: " + val)
    return val, None


HIST_TAG = " [call history: one list object edited in place between calls]"
FRESH_OB = "same-answer-as-an-interpreter-that-made-no-call-before"


def _truncate(prog, upto):
    return dict(prog, steps=prog["steps"][:upto + 1])


def _fails_same(prog, obligations):
    res, died = in_child(run_history, prog)
    if died or res is None or not res["fail"]:
        return None
    got = {o for o, _ in res["fail"]["violations"]}
    return res if got & obligations else None


def shrink_history(prog, obligations, budget=120):
    """Greedy: drop single steps (last call always kept) while a child forked from the pristine worker still reports one of
    the obligations; then shorten the lists' initial contents from the back."""
    best = prog
    changed = True
    while changed and budget > 0:
        changed = False
        i = len(best["steps"]) - 2
        while i >= 0 and budget > 0:
            cand = dict(best, steps=best["steps"][:i] + best["steps"][i + 1:])
            budget -= 1
            r = _fails_same(cand, obligations)
            if r is not None:
                best = _truncate(cand, r["fail"]["step"])
                changed = True
                i = min(i, len(best["steps"]) - 1)
            i -= 1
    for name in ("W", "A"):
        while budget > 0 and len(best["lists"][name]) > 0:
            cand = dict(best, lists=dict(best["lists"], **{name: best["lists"][name][:-1]}))
            budget -= 1
            r = _fails_same(cand, obligations)
            if r is None or r["skipped_steps"]:
                break
            best = _truncate(cand, r["fail"]["step"])
    return best


def eval_history(prog, shrink=True):
    """-> (reported_case, (V, nontrivial, inc, pvo), n_calls, n_evals)   (runs in the pristine worker; all solver calls in children)"""
    res, died = in_child(run_history, prog)
    if died:
        return prog, ([("C12/history/ensures:returns-on-every-backend", f"while executing the program {died}")], True, {}, []), 0, 0
    inc = dict(res["inc"])
    pvo = [k for k, v in res["pvo"].items() for _ in range(v)]
    V = []
    reported = prog
    if res["fail"]:
        f = res["fail"]
        obligations = {o for o, _ in f["violations"]}
        alone, died2 = in_child(fresh_observation, f["case"])
        alone_obl = {o for o, _ in alone[1]} if alone else set()
        if alone_obl & obligations:  # the failing call fails on its own: an ordinary single-call case
            reported = f["case"]
            V = [(o, d) for o, d in alone[1]]
        else:
            small = shrink_history(_truncate(prog, f["step"]), obligations) if shrink else _truncate(prog, f["step"])
            again = _fails_same(small, obligations)
            src = again["fail"] if again else f
            reported = small if again else _truncate(prog, f["step"])
            V = [(o + HIST_TAG, f"{d}  (call at step {src['step']} of the program; list contents at that moment: {str(src['case']['edges'])[:300]})")
                 for o, d in src["violations"]]
    elif res["last"] is not None:
        case, R = res["last"]
        fresh, died2 = in_child(fresh_observation, case)
        import checks.C12 as C
        if died2:
            V = [(C._ob(case) + "returns-on-every-backend", f"re-made in an interpreter that made no call before: {died2}")]
            reported = case
        else:
            R2 = fresh[0]
            def view(r):
                return json.dumps({k: r.get(k) for k in ("exc", "status", "solution", "objective")}, sort_keys=True)

            diff = [b for b in B3 if view(R[b]) != view(R2[b])]
            if diff:
                b = diff[0]
                V = [(C._ob(case) + FRESH_OB + HIST_TAG,
                      f"last call of the program, backend={b}: in the program's interpreter {json.dumps(R[b])[:200]}; in an interpreter that made no call before {json.dumps(R2[b])[:200]}")]
    return reported, (V, res["nontrivial"] > 0, inc, pvo), res["calls"] + (3 if res["last"] else 0), res["evals"]


def plan_history(tier, seed):
    q = tier == "quick"
    total = 400 if q else 30000
    per = 20 if q else 250
    units = [{"kind": "history", "fn": "history", "first": i, "count": min(per, total - i), "seed": seed, "tier": tier} for i in range(0, total, per)]
    row = {"name": "history mode (all nine functions)", "programs": total, "nodes": "2..40", "steps": "5-12 call groups (25% repeated), 1-3 in-place edits before each",
           "edits": "element assignment, weight/direction change, append, pop, insert, reverse, slice assignment (same length and other), append+pop, pop+insert",
           "objects": "one weighted edge list and one arc list per program, passed as the very same objects to every call; 2/3 of the programs stay on one of them",
           "backends": list(B3), "isolation": "each program in a child forked from a worker that imported the package and made no call; last call re-made in another such child"}
    return units, [row]


# =========================================================================== deep (fresh process per case)
# strongly_connected_components_edges recurses once per DFS level in BOTH implementations: the Python one raises
# RecursionError at depth ~990 under the default limit (documented in solvor/scc.py, callers are told to raise it), the
# Rust one overflows the native stack (SIGSEGV) between depth 40000 and 50000.  Stack exhaustion is outside the contracts
# (assumption A3 of the project); the family stays inside what both can do: depth <= 20000, recursion limit raised
# around the call.  The other arc-list functions keep explicit stacks and are taken to 300000 nodes.
DEEP_SCC_QUICK = (1200, 20000)
DEEP_SCC_THOROUGH = (990, 1200, 5000, 10000, 20000)
DEEP_OTHER_QUICK = (65536,)
DEEP_OTHER_THOROUGH = (20000, 65536, 131072, 300000)


def expand_edges(case):
    """A compact edge description {'shape': 'path', 'n': N[, 'closed': true]} -> the edge list."""
    e = case.get("edges")
    if isinstance(e, dict):
        n = e["n"]
        arcs = [[i, i + 1] for i in range(n - 1)]
        if e.get("closed"):
            arcs.append([n - 1, 0])
        if e.get("weight") is not None:
            arcs = [[u, v, e["weight"]] for u, v in arcs]
        return dict(case, edges=arcs)
    return case


def deep_cases(tier):
    q = tier == "quick"
    out = []
    for n in (DEEP_SCC_QUICK if q else DEEP_SCC_THOROUGH):
        for closed in (False, True):
            e = {"shape": "path", "n": n}
            if closed:
                e["closed"] = True
            out.append({"fn": "strongly_connected_components_edges", "n": n, "edges": e, "family": "deep/cycle" if closed else "deep/path",
                        "recursion_limit": 20 * n + 10000, "backends": list(B3)})
    for n in (DEEP_OTHER_QUICK if q else DEEP_OTHER_THOROUGH):
        for fn in ("topological_sort_edges", "bfs_edges", "dfs_edges"):
            c = {"fn": fn, "n": n, "edges": {"shape": "path", "n": n}, "family": "deep/path", "backends": list(B3)}
            if fn != "topological_sort_edges":
                c.update(source=0, target=n - 1)
            out.append(c)
    return out


def fresh_process(tmp, case, timeout_cpu=600):
    """The case in a NEW interpreter process (python -m checks.C12_round2 --fresh): -> (observations | None, violations, exit description | None)"""
    import checks.C12 as C
    env = dict(os.environ, PYTHONPATH=C.VERIF, C12_OVERLAY=tmp, PYTHONDONTWRITEBYTECODE="1", PYTHONHASHSEED="0")
    p = subprocess.run([sys.executable, "-m", "checks.C12_round2", "--fresh"], input=json.dumps(case), capture_output=True, text=True, env=env, cwd=C.VERIF)
    if p.returncode < 0:
        name = signal.Signals(-p.returncode).name if -p.returncode in [s.value for s in signal.Signals] else str(-p.returncode)
        return None, [], f"the interpreter process was killed by signal {-p.returncode} ({name})"
    try:
        d = json.loads(p.stdout.strip().splitlines()[-1])
    except Exception:  # noqa
        return None, [], f"no result from the fresh interpreter (exit {p.returncode}): {p.stderr[-300:]}"
    return d["R"], [tuple(v) for v in d["V"]], None


def eval_deep(tmp, case):
    """Each back end in its own fresh interpreter (a crash of one must not hide the others), then the contract."""
    import checks.C12 as C
    R, _, d = fresh_process(tmp, case)
    if d:  # the process did not survive: each back end in its own process, so that one crash does not hide the others
        R = {}
        for b in case["backends"]:
            r, _, d = fresh_process(tmp, dict(case, backends=[b]))
            R[b] = {"exc": d} if d else r[b]
    full = expand_edges(case)
    V, nontrivial, inc, pvo = C._judge(full, R)
    return case, (V, nontrivial, inc, pvo), len(case["backends"]), 1


def plan_deep(tier, seed):
    cases = deep_cases(tier)
    units = [{"kind": "deep", "fn": c["fn"], "cases": [c], "tier": tier, "count": 30} for c in cases]
    q = tier == "quick"
    row = {"name": "deep path-shaped graphs (arc-list functions)", "shapes": "path 0->1->...->n-1; for SCC also closed to one cycle",
           "nodes_scc": list(DEEP_SCC_QUICK if q else DEEP_SCC_THOROUGH), "nodes_topological_sort_bfs_dfs": list(DEEP_OTHER_QUICK if q else DEEP_OTHER_THOROUGH),
           "recursion_limit": "raised to 20 n + 10000 around SCC calls (solvor/scc.py docstring); SCC depth capped at 20000 (Rust kernel: native stack overflow between 40000 and 50000)",
           "isolation": "one new interpreter process per case (a native crash is observed as the exit signal; then one process per back end)", "cases": len(cases)}
    return units, [row]


# =========================================================================== worker entry for history / deep units
def results(unit):
    """Generator of (case, (V, nontrivial, inc, pvo), n_backend_calls, n_evals) for C12._work."""
    import checks.C12 as C
    if unit["kind"] == "history":
        progs = unit.get("programs") or [history_program(unit["seed"], i) for i in range(unit["first"], unit["first"] + unit["count"])]
        for prog in progs:
            C._progress({"kind": "history", "n": prog["n"], "steps": len(prog["steps"]), "lists": prog["lists"], "first_steps": prog["steps"][:3]} if len(json.dumps(prog)) > 4000 else prog)
            yield eval_history(prog, shrink=unit.get("shrink", True))
    elif unit["kind"] == "deep":
        for case in unit["cases"]:
            C._progress(case)
            yield eval_deep(C._W["tmp"], case)
    else:
        raise KeyError(unit["kind"])


def _fresh_main():
    import checks.C12 as C
    case = expand_edges(json.loads(sys.stdin.read()))
    C._enter_overlay(os.environ["C12_OVERLAY"], True)
    if C._W.get("fd") is not None:  # no progress file for one-shot interpreters
        os.close(C._W.pop("fd"))
        try:
            os.unlink(os.path.join(os.environ["C12_OVERLAY"], "progress", str(os.getpid())))
        except OSError:
            pass
    if C._W.get("err"):
        print(json.dumps({"R": {b: {"exc": "checker: " + C._W["err"]} for b in case["backends"]}, "V": []}))
        return 0
    R = C._run_backends(case)
    V, _, _, _ = C._judge(case, R) if len(case["backends"]) > 1 else ([], 0, 0, 0)
    print(json.dumps({"R": _plain(R), "V": [list(v) for v in V]}))
    return 0


if __name__ == "__main__":
    if "--fresh" in sys.argv:
        sys.exit(_fresh_main())

"""C11 round 3 - presentation diversity (same contract, same judges, same run_probe as checks/C11.py).

The structural generators of rounds 1 and 2 (exhaustive n=3 arc sets, random structured graphs n<=9, the low end of the
size ladder, random grids) are run again, each instance through a *presentation* chosen from the product of

* node labels    : falsy values (None, 0, "", (), frozenset(), b""), one None among ints, pairs (u, w) whose head u is itself a
                   node and whose tail looks like a weight, frozensets, "1" next to 1, nested tuples, a 12-type mix; every
                   scheme rotated so that the odd labels sit at the source, at targets and in the middle of paths
* equal copies   : every occurrence of a label (start, goal value, entries of the neighbour lists) is a *fresh equal object*
                   (new tuple / str / frozenset), and in the mode "types" an equal object of another type (1 / 1.0 / True,
                   0 / 0.0 / False, k / float(k)).  The statement takes the goal "as value" and the solvers are generic over
                   hashable S, so a node is what ==/hash say it is; the oracle maps every returned label back the same way
* containers     : what neighbors(x) returns: one persistent caller-owned list (the same object every time), persistent tuple,
                   deque, dict items()/keys() view, generator, iter(), map(), zip(), and a rotation of all of them within one
                   call; edge-list entry points: list / tuple of tuples / lists, one persistent object
* goal           : value (fresh equal copy), value that is not a node at all (-> INFEASIBLE), predicate as lambda, bound
                   method frozenset.__contains__, functools.partial, callable object, equality chain
* numbers        : int weights presented as equal floats on part of the arcs; half-integral floats on the later arcs of an
                   otherwise int-weighted input
plus two frame clauses evaluated on every call: `frame:caller-owned-inputs-unchanged` (adjacency lists / tuples / dicts /
deques, edge containers, heuristic table, goal set: repr before == repr after) and `ensures:same-call-same-answer` (the
call is made twice on the same presentation; status, objective and solution must be identical).

Left out (outside the statement): goal value None for bfs/dfs (the API reads None as "no goal, traverse everything"),
callable node labels as goal value (ambiguous with "goal as predicate"), unhashable labels, edges of weight +inf,
neighbours outside the node set (not in C11's quantifier; every neighbour here is a node), one-shot iterables for the
`edges` argument (typed list; bellman_ford must read it n times), node ids of the edge-list entry points other than
ints 0..n-1, non-bool predicate results.
"""
from __future__ import annotations

import functools
import itertools
import operator
import random
from collections import deque

from checks import C11 as B
from checks import C11_round2 as R2

P = B.P

LABELS3 = ("falsy", "none", "pairs", "fsets", "strint", "ints", "nested", "mixed2")
NB_KINDS = ("list", "tuple", "gen", "iter", "map", "zip", "view", "deque", "rot")
EDGE_KINDS = ("list-tuples", "list-lists", "tuple-tuples", "tuple-lists")
GOAL_KINDS = ("lambda", "bound", "partial", "object", "eq")
ALIAS = (None, "copies", "types")
GHOSTS = ("ghost", (), -1, 0.5, ("g",), "")


# ====================================================================== labels
def _nested(i):
    return () if i == 0 else (_nested((i - 1) // 2), i)


def pool3(scheme, n):
    """n labels, pairwise different under ==/hash"""
    if scheme == "falsy":
        base = [None, 0, "", (), frozenset(), b""]
        out = base + list(range(1, n))
    elif scheme == "none":
        out = [None] + list(range(1, n))
    elif scheme == "pairs":  # (u, w): u is a node label, w looks like an arc weight
        out = [i // 2 if i % 2 == 0 else (i // 2, (1, 0.5, 2, 0)[(i // 2) % 4]) for i in range(n)]
        if n >= 6:
            out[5] = ((0, 1), 2)  # a pair whose head is the pair-labelled node 1
    elif scheme == "fsets":
        out = [frozenset() if i == 0 else frozenset({i}) if i % 2 else frozenset({i, i - 1}) for i in range(n)]
    elif scheme == "strint":
        out = [i // 2 if i % 2 == 0 else str(i // 2) for i in range(n)]
    elif scheme == "ints":
        out = list(range(n))
    elif scheme == "nested":
        out = [_nested(i) for i in range(n)]
    elif scheme == "mixed2":
        base = [1, "1", 1.5, (1,), frozenset({1}), b"1", None, (1, "1"), "", 0, (), "None"]
        out = base + [("m", i) for i in range(len(base), n)]
    else:
        raise ValueError(scheme)
    out = out[:n]
    if len(set(out)) != n:
        raise AssertionError(f"label scheme {scheme} is not injective for n={n}")
    return out


def labels3(scheme, n, rot=0):
    out = pool3(scheme, n)
    r = rot % n if n else 0
    return out[r:] + out[:r]


def alt(x, k, types):
    """an object equal to x (same hash), built afresh where the type allows; with types=True possibly of another numeric type"""
    if x is None or isinstance(x, bool):
        return x
    if isinstance(x, int):
        if types and abs(x) < 2 ** 53:
            forms = [x, float(x)] + ([bool(x)] if x in (0, 1) else [])
            return forms[k % len(forms)]
        return x
    if isinstance(x, float):
        if types and x.is_integer() and k % 2:
            return int(x)
        return float(repr(x))
    if isinstance(x, str):
        return "".join(list(x))
    if isinstance(x, bytes):
        return bytes(bytearray(x))
    if isinstance(x, tuple):
        return tuple(alt(y, k + i, types) for i, y in enumerate(x))
    if isinstance(x, frozenset):
        return frozenset(alt(y, k, types) for y in x)
    return x


class PLabels(list):
    """label table whose every read hands out a presentation of the label (run_probe reads the start node from it)"""

    def bind(self, owner):
        self.owner = owner
        return self

    def __getitem__(self, i):
        x = list.__getitem__(self, i)
        return self.owner.present(x) if isinstance(i, int) else x


def _ident(p):
    return p


class _Pred:
    def __init__(self, s):
        self.s = s

    def __call__(self, x):
        return x in self.s


# ====================================================================== presented graph
class PresMixin:
    """oracle side: the de-presented graph (node indices, exact weights) of the base class; solver side: the presentation"""

    def init_pres(self, pres):
        self.pres = pres
        n = self.n
        self.canon = labels3(pres["labels"], n, pres.get("rot", 0))
        self.idx = {l: i for i, l in enumerate(self.canon)}
        self.labels = PLabels(self.canon).bind(self)
        self.types = pres.get("alias") == "types"
        self.fresh = pres.get("alias") in ("copies", "types")
        self.site = 0
        self.calls = 0
        self.cur_k = None
        self.clean = None  # text of the caller-owned objects after the last call that left them alone
        wmix = pres.get("wmix")
        C = self.canon
        self.pw = []  # presented weights, arc by arc (equal values, possibly another numeric type)
        for j, (u, v, w) in enumerate(self.edges):
            if wmix and isinstance(w, int) and not isinstance(w, bool) and abs(w) < 2 ** 53 and (j * 7 + n) % 3 == 0:
                w = float(w)
            self.pw.append(w)
        # caller-owned persistent structures, built once
        self.adj_w = {C[i]: [] for i in range(n)}
        self.adj_u = {C[i]: [] for i in range(n)}
        for (u, v, _), w in zip(self.edges, self.pw):
            y = self.present(C[v])
            self.adj_w[C[u]].append((y, w))
            self.adj_u[C[u]].append(y)
        self.tup_w = {k: tuple(l) for k, l in self.adj_w.items()}
        self.tup_u = {k: tuple(l) for k, l in self.adj_u.items()}
        self.dq_w = {k: deque(l) for k, l in self.adj_w.items()}
        self.dq_u = {k: deque(l) for k, l in self.adj_u.items()}
        self.dict_w = {}
        for k, l in self.adj_w.items():
            d = {}
            for y, w in l:
                if y in d:
                    d = None  # parallel arcs cannot be shown through a dict: this node falls back to its tuple
                    break
                d[y] = w
            self.dict_w[k] = d
        self.dict_u = {k: dict.fromkeys(l) for k, l in self.adj_u.items()}
        self.heads = {k: [y for y, _ in l] for k, l in self.adj_w.items()}
        self.wts = {k: [w for _, w in l] for k, l in self.adj_w.items()}
        ek = pres.get("edges", "list-tuples")
        inner = tuple if ek.endswith("tuples") else list
        outer = tuple if ek.startswith("tuple") else list
        self.E = outer(inner((u, v, w)) for (u, v, _), w in zip(self.edges, self.pw))
        self.UE = outer(inner((u, v)) for u, v, _ in self.edges)
        self.H, self.H0 = {}, {}
        self.GS, self.GS0 = set(), set()
        self.site = 0

    # ---- presentation of one label occurrence
    def present(self, x):
        if not self.fresh:
            return x
        self.site += 1
        return alt(x, self.site, self.types)

    def reset(self, k=None):
        self.site = 1000
        self.calls = 0
        self.cur_k = k

    def frame(self):
        """text of everything the caller owns (the heuristic table and the goal set are filled per call: compared with the copies taken then)"""
        return repr((self.adj_w, self.adj_u, self.tup_w, self.tup_u, self.dq_w, self.dq_u, self.dict_w, self.dict_u, self.heads, self.wts,
                     self.E, self.UE, repr(self.H) == repr(self.H0), sorted(self.GS, key=repr) == sorted(self.GS0, key=repr)))

    # ---- what the solvers get
    def _kind(self):
        k = self.pres.get("nbr", "list")
        if k == "rot":
            self.calls += 1
            k = NB_KINDS[self.calls % (len(NB_KINDS) - 1)]
        return k

    def nb_w(self):
        def nb(x):
            k = self._kind()
            if k == "list":
                return self.adj_w[x]
            if k == "tuple":
                return self.tup_w[x]
            if k == "deque":
                return self.dq_w[x]
            if k == "gen":
                return (p for p in self.adj_w[x])
            if k == "iter":
                return iter(self.adj_w[x])
            if k == "map":
                return map(_ident, self.adj_w[x])
            if k == "zip":
                return zip(self.heads[x], self.wts[x])
            d = self.dict_w[x]
            return self.tup_w[x] if d is None else d.items()
        return nb

    def nb_u(self):
        def nb(x):
            k = self._kind()
            if k == "list":
                return self.adj_u[x]
            if k == "tuple":
                return self.tup_u[x]
            if k == "deque":
                return self.dq_u[x]
            if k == "gen":
                return (p for p in self.adj_u[x])
            if k == "iter":
                return iter(self.adj_u[x])
            if k in ("map", "zip"):
                return map(_ident, self.adj_u[x])
            return self.dict_u[x].keys()
        return nb

    def edge_arg(self):
        return self.E

    def uedge_arg(self):
        return self.UE

    def h_arg(self, h):
        H = self.H
        H.clear()
        for i, x in enumerate(h):
            H[self.canon[i]] = x
        self.H0 = dict(H)
        return lambda x: H[x]

    def goal_arg(self, T, pred):
        C = self.canon
        if not pred:
            if not T:  # a goal value that is not a node of the graph
                r = (self.n + len(self.edges)) % len(GHOSTS)
                return next(g for g in GHOSTS[r:] + GHOSTS[:r] if g not in self.idx)
            (t,) = T
            if C[t] is not None or self.cur_k in ("dijkstra", "astar"):
                return self.present(C[t])
            T = [t]  # bfs / dfs read the goal VALUE None as "no goal": a node labelled None is asked for through a predicate
        GS = self.GS
        GS.clear()
        GS.update(self.present(C[t]) for t in T)
        self.GS0 = set(GS)
        k = self.pres.get("goal", "lambda")
        if k == "lambda":
            return lambda x: x in GS
        if k == "bound":
            return frozenset(GS).__contains__
        if k == "partial":
            return functools.partial(operator.contains, GS)
        if k == "object":
            return _Pred(GS)
        vals = list(GS)
        return lambda x: any(x == y for y in vals)


class PresG(PresMixin, B.G):
    def __init__(self, d):
        base = dict(d, labels="int", gen=False)
        B.G.__init__(self, base)
        self.d = d
        self.init_pres(d["pres"])


class PresBigG(PresMixin, R2.BigG):
    def __init__(self, d):
        base = dict(d, labels="int", gen=False)
        R2.BigG.__init__(self, base)
        self.d = d
        self.init_pres(d["pres"])


# ====================================================================== recorder (the full result of every call)
REC = [None]


def _canon(r):
    try:
        return (r.status.name, repr(r.objective), repr(r.solution))
    except Exception as e:  # noqa: BLE001
        return ("unprintable", repr(e))


def _recorder(f):
    def g(*a, **kw):
        r = f(*a, **kw)
        if REC[0] is not None:
            REC[0].append((f.__name__, _canon(r)))
        return r
    g.__name__ = f.__name__
    return g


def install():
    m = B.M()
    if not m.get("_r3"):
        for k, f in list(m.items()):
            if k != "Status":
                m[k] = _recorder(f)
        m["_r3"] = True
    return m


def run_twice(Gr, p):
    """one probe, made twice on the same presentation -> [(obligation, detail)] (judged answers of the first call,
    the frame clause after each call, and the comparison of the two calls)"""
    install()
    outs = []
    frame_bad = False
    name = "agreement" if p["k"] == "agree" else "bellman_ford" if p["k"] == "bf" else "floyd_warshall" if p["k"] == "fw" else p["k"]
    for rep in range(2):
        Gr.reset(p["k"])
        before = Gr.clean if Gr.clean is not None else Gr.frame()
        REC[0] = rec = []
        try:
            try:
                v, _ = B.run_probe(Gr, p)
            finally:
                REC[0] = None
        except B.SolverRaised as e:
            v = [(f"{P}/{name}/ensures:returns-a-result", str(e))]
            rec.append(("raised", str(e)))
        v = list(v)
        after = Gr.frame()
        Gr.clean = after
        if after != before:
            frame_bad = True
            v.append((f"{P}/{name}/frame:caller-owned-inputs-unchanged",
                      f"a caller-owned object (adjacency list / tuple / dict / deque, edge container, heuristic table or goal set) differs after call #{rep + 1}"))
        outs.append((v, rec))
        if frame_bad:
            break
    v = outs[0][0]
    if len(outs) == 2:
        if outs[0][1] != outs[1][1]:
            v.append((f"{P}/{name}/ensures:same-call-same-answer", f"first call {outs[0][1]!r:.300}, the same call again {outs[1][1]!r:.300}"))
        seen = {o for o, _ in v}
        v += [x for x in outs[1][0] if x[0] not in seen]  # an answer that is wrong only the second time
    if frame_bad:
        Gr.init_pres(Gr.pres)  # the oracle describes the graph as presented: present it afresh
    return v


# ====================================================================== batteries
def pick_pres(rng, n, big=False):
    sch = rng.choice(LABELS3)
    alias = rng.choice(ALIAS)
    if sch == "ints" and alias is None:
        alias = "types"
    return {"labels": sch, "rot": rng.randrange(max(1, n)), "alias": alias, "nbr": rng.choice(NB_KINDS), "edges": rng.choice(EDGE_KINDS),
            "goal": rng.choice(GOAL_KINDS), "wmix": rng.random() < 0.5}


def pres_of_index(i, n):
    """deterministic walk through the product (exhaustive scope: every graph gets one presentation, neighbouring graphs different ones)"""
    return {"labels": LABELS3[i % len(LABELS3)], "rot": (i // 3) % max(1, n), "alias": ALIAS[(i // 8) % 3] if LABELS3[i % len(LABELS3)] != "ints" else "types",
            "nbr": NB_KINDS[(i // 5) % len(NB_KINDS)], "edges": EDGE_KINDS[(i // 7) % 4], "goal": GOAL_KINDS[(i // 11) % 5], "wmix": (i // 2) % 2 == 0}


def ghost_probes(Gr, srcs, unit):
    out = []
    for s in srcs:
        if Gr.nonneg:
            out.append({"k": "dijkstra", "s": s, "T": []})
            out.append({"k": "astar", "s": s, "T": [], "h": [0.0] * Gr.n})
            out.append({"k": "bfs", "s": s, "T": []})
            out.append({"k": "dfs", "s": s, "T": []})
    return out


def check_pres_graph(gd, mode, rng, out, cap=None):
    """gd carries gd["pres"]; mode as in B.battery"""
    Gr = PresG(gd)
    Gr.selfcheck(brute=False)
    probes, srcs = B.battery(Gr, mode, rng)
    probes += ghost_probes(Gr, srcs, False)
    if cap is not None and len(probes) > cap:
        probes = rng.sample(probes, cap)
    if Gr.n:
        s = srcs[0]
        probes += [{"k": "agree", "s": s, "t": t} for t in sorted({rng.randrange(Gr.n), Gr.n - 1})]
    for p in probes:
        try:
            v = run_twice(Gr, p)
        except B.Inconsistent:
            continue
        out["n"] += 2
        for obl, det in v:
            if len(out["viol"]) < B.MAXV:
                out["viol"].append((obl, {"kind": "pres", "graph": gd, "probe": p}, det + f" [presentation {gd['pres']}]"))
    if Gr.nontrivial(srcs):
        out["keys"].append(B.key64(("pres", gd["n"], gd["edges"], sorted(gd["pres"].items()))))
    if out["sample"] is None and len(gd["edges"]) >= 3:
        out["sample"] = {"kind": "pres", "graph": gd, "mode": mode}


def check_pres_big(spec, pres, out):
    gd = dict(R2.gen_big(spec), pres=pres)
    Gr = PresBigG(gd)
    rng = random.Random(spec["seed"] ^ 0xB16)
    probes, srcs = R2.battery_big(Gr, gd, rng)
    probes += ghost_probes(Gr, srcs[:1], False)
    case = lambda p: {"kind": "presbig", "spec": spec, "pres": pres, "nodes": gd["n"], "arcs": len(gd["edges"]), "probe": p}
    with B.cpu_budget(R2.BIG_BUDGET):
        for p in probes:
            try:
                v = run_twice(Gr, p)
            except B.Inconsistent:
                continue
            out["n"] += 2
            for obl, det in v:
                if len(out["viol"]) < B.MAXV:
                    out["viol"].append((obl, case(p), det + f" [presentation {pres}]"))
    out["keys"].append(B.key64(("presbig", sorted(spec.items(), key=repr), sorted(pres.items()))))
    if out["sample"] is None:
        out["sample"] = {"kind": "presbig", "spec": spec, "pres": pres, "n": gd["n"], "arcs": len(gd["edges"])}


# ====================================================================== grids
def present_grid(grid, gp):
    """equal cell values of other numeric types, rows / grid as tuples"""
    rows = []
    for r, row in enumerate(grid):
        cells = [alt(c, r + j, True) if gp.get("cells") else c for j, c in enumerate(row)]
        rows.append(tuple(cells) if gp.get("rows") == "tuple" else cells)
    return tuple(rows) if gp.get("outer") == "tuple" else rows


def grid_probe3(grid, p, gp):
    """astar_grid on a presented grid, twice; the caller's grid / costs dict / blocked set must stay as they are"""
    m = install()
    dirs, blocked, costs = p["dirs"], p.get("blocked", 1), p.get("costs")
    cd = {int(a): b for a, b in costs} if costs else None
    bl = blocked if isinstance(blocked, int) else (frozenset(blocked) if gp.get("blocked") == "frozenset" else set(blocked))
    go = B.GridO(grid, dirs, blocked if isinstance(blocked, int) else set(blocked), cd)
    start, goal = tuple(p["start"]), tuple(p["goal"])
    arg = present_grid(grid, gp)
    kw = {}
    if p.get("max_iter") is not None:
        kw["max_iter"] = p["max_iter"]
    if costs:
        kw["costs"] = cd
    if "blocked" in p:
        kw["blocked"] = bl
    out, recs = [], []
    for rep in range(2):
        before = repr((arg, cd, bl if not isinstance(bl, int) else None))
        try:
            res = m["astar_grid"](arg, start, goal, directions=dirs, heuristic=p.get("heuristic", "auto"), **kw)
        except B.SolverRaised as e:
            return [(f"{P}/astar_grid/ensures:returns-a-result", str(e))]
        recs.append(_canon(res))
        if rep == 0:
            out += B.judge_grid(go, res, start, goal, p.get("max_iter"))
        if repr((arg, cd, bl if not isinstance(bl, int) else None)) != before:
            out.append((f"{P}/astar_grid/frame:caller-owned-inputs-unchanged", "grid / costs / blocked differ after the call"))
            break
    if len(recs) == 2 and recs[0] != recs[1]:
        out.append((f"{P}/astar_grid/ensures:same-call-same-answer", f"first {recs[0]!r:.200}, again {recs[1]!r:.200}"))
    return out


def check_pres_grid(gd, out):
    grid = gd["grid"]
    rng = random.Random(gd["seed"])
    rows, cols = len(grid), len(grid[0])
    cells = [(r, c) for r in range(rows) for c in range(cols)]
    gp = gd["gp"]
    nt = False
    for opt in gd["opts"]:
        if opt.get("k") == "agree":
            continue
        bl = opt.get("blocked", 1)
        bset = {bl} if isinstance(bl, int) else set(bl)
        free = [rc for rc in cells if grid[rc[0]][rc[1]] not in bset]
        if not free:
            continue
        for _ in range(gd.get("pairs", 3)):
            s = rng.choice(free)
            t = rng.choice(cells) if rng.random() < 0.15 else rng.choice(free)
            p = dict(opt)
            p.update(start=list(s), goal=list(t))
            v = grid_probe3(grid, p, gp)
            out["n"] += 2
            nt = nt or s != t
            for obl, det in v:
                if len(out["viol"]) < B.MAXV:
                    out["viol"].append((obl, {"kind": "presgrid", "grid": grid, "probe": p, "gp": gp}, det + f" [presentation {gp}]"))
    if nt:
        out["keys"].append(B.key64(("pg", grid, gd["opts"], sorted(gp.items()))))


# ====================================================================== work items / cases / replay
def work3(case):
    B.M()
    out = {"viol": [], "n": 0, "keys": [], "sample": None}
    kind = case["kind"]
    rng = random.Random(case.get("seed", 0))
    if kind == "pres_enum":
        arcs, n = case["arcs"], case["n"]
        i = case["i0"]
        for ws in itertools.product(case["W"], repeat=len(arcs)):
            base = [[u, v, w] for (u, v), w in zip(arcs, ws)]
            for order in ("fwd", "rev") if len(arcs) > 1 else ("fwd",):
                i += 1
                gd = {"n": n, "edges": base if order == "fwd" else base[::-1], "pres": pres_of_index(i, n)}
                check_pres_graph(gd, case["mode"], rng, out, cap=case.get("cap"))
    elif kind == "pres_graphs":
        for gd in case["graphs"]:
            check_pres_graph(gd, "rand", rng, out, cap=case.get("cap"))
    elif kind == "pres_big":
        check_pres_big(case["spec"], case["pres"], out)
    elif kind == "pres_grids":
        for gd in case["grids"]:
            check_pres_grid(gd, out)
    else:
        raise ValueError(kind)
    return out


def half_weights(gd, rng):
    """'int first, non-integral float later': the arcs of the later half get +0.5 (dyadic, sums stay exact)"""
    E = gd["edges"]
    for j in range(len(E) // 2, len(E)):
        if rng.random() < 0.6 and isinstance(E[j][2], int):
            E[j][2] = E[j][2] + 0.5 if E[j][2] >= 0 else E[j][2] - 0.5
    return gd


def build_cases3(ctx, rng):
    q = ctx.quick
    cases = []
    arcs3 = [(u, v) for u in range(3) for v in range(3)]
    i0 = 0
    kmax = 3 if q else 4
    W = (0, 1, 2)
    for k in range(0, kmax + 1):
        for sub in itertools.combinations(arcs3, k):
            Wk = W if k <= 2 or not q else (1, 2)
            cases.append({"kind": "pres_enum", "n": 3, "arcs": list(sub), "W": Wk, "mode": "lite", "i0": i0, "seed": rng.randrange(1 << 30),
                          "cap": 30 if q else (60 if k == 4 else None)})
            i0 += 2 * len(Wk) ** k + 1
    ctx.scope("presentation diversity, exhaustive: digraphs n=3, arc sets (self loops) of size<=%d, both edge orders, every weighting; each graph under one "
              "presentation, the product labels x copies x containers x goal kind x edge container x int/float walked graph by graph" % kmax,
              weights="{0,1,2}" + ("; size 3: {1,2}; 30 probes drawn per graph from the lite battery" if q else "; size 4: 60 probes drawn per graph"), labels=LABELS3, copies=[str(a) for a in ALIAS], neighbour_containers=NB_KINDS,
              edge_containers=EDGE_KINDS, goal_predicates=GOAL_KINDS, clauses="oracle on the de-presented graph; frame:caller-owned-inputs-unchanged; "
              "ensures:same-call-same-answer (every call made twice)", exhaustive=True)
    R = 400 if q else 8000
    gs = []
    for i in range(R):
        gd = B.rand_graph(rng, neg=(i % 4 == 3))
        if rng.random() < 0.3:
            half_weights(gd, rng)
        gd = {"n": gd["n"], "edges": gd["edges"], "pres": pick_pres(rng, gd["n"])}
        gs.append(gd)
    for ch in B.chunks(gs, 20):
        cases.append({"kind": "pres_graphs", "graphs": ch, "seed": rng.randrange(1 << 30), "cap": 50 if q else 120})
    ctx.scope("presentation diversity, random structured graphs n=2..9 (the generator of the small scope), random presentation each", runs=R,
              probes_per_graph="<= %d drawn from the random battery + goal values that are not nodes + agreement, every call twice" % (50 if q else 120),
              numbers="30 %: half-integral floats on the later arcs of an int-weighted input; 50 %: a third of the int weights shown as equal floats",
              negative_share="1/4")
    specs = []
    sizes = (12, 20, 33) if q else (12, 13, 20, 33, 48, 65, 100, 129)
    for n in sizes:
        for fam in ("sparse", "chain", "line2", "negpot") if not q else (("sparse", "chain", "line2", "negpot")[sizes.index(n) % 4], "sparse"):
            for rep in range(1 if q else 4):
                sd = rng.randrange(1 << 30)
                if fam == "sparse":
                    sp = {"fam": "sparse", "n": n, "m": 4 * n, "W": (0, 1, 2, 5), "targets": 3, "fw": n <= 65, "fw_und": n <= 33, "seed": sd}
                elif fam == "chain":
                    sp = {"fam": "chain", "n": n, "m": 4 * n, "order": "rev", "targets": 3, "fw": n <= 65, "seed": sd}
                elif fam == "line2":
                    sp = {"fam": "line2", "n": n, "a": 3, "p": min(1.0, 14.0 / n), "order": "shuffle", "targets": 3, "fw": n <= 65, "seed": sd}
                else:
                    sp = {"fam": "negpot", "n": n, "base": {"fam": "sparse", "n": n, "m": 4 * n, "W": (0, 1, 2, 5, 9)}, "cyc": rng.choice((None, "reach", "zero")),
                          "P": 50, "targets": 3, "fw": n <= 65, "seed": sd}
                specs.append((sp, pick_pres(rng, n, big=True)))
    for sp, pr in specs:
        cases.append({"kind": "pres_big", "spec": sp, "pres": pr})
    ctx.scope("presentation diversity, mid-size: low end of the size ladder (sparse, chain vs shortcuts, line2, negative weights from potentials) under a random "
              "presentation, polynomial oracle + certificate", instances=len(specs), nodes="%d..%d" % (sizes[0], sizes[-1]))
    RG = 120 if q else 3000
    gr = []
    for i in range(RG):
        g = B.rand_grid(rng, big=(i % 2 == 0))
        g["pairs"] = 3
        g["gp"] = {"cells": rng.random() < 0.6, "rows": rng.choice(("list", "tuple")), "outer": rng.choice(("list", "tuple")),
                   "blocked": rng.choice(("set", "frozenset"))}
        gr.append(g)
    for ch in B.chunks(gr, 20):
        cases.append({"kind": "pres_grids", "grids": ch})
    ctx.scope("presentation diversity, grids: random grids up to 7x7 with options; cells shown as equal values of other numeric types (1 / 1.0 / True), rows and "
              "grid as list or tuple, blocked as set or frozenset; caller's grid / costs / blocked unchanged; every call twice", runs=RG)
    return cases


def replay3(case):
    """-> [(obligation, detail)]"""
    kind = case["kind"]
    if kind == "pres":
        return run_twice(PresG(case["graph"]), case["probe"])
    if kind == "presbig":
        gd = dict(R2.gen_big(case["spec"]), pres=case["pres"])
        with B.cpu_budget(R2.BIG_BUDGET):
            return run_twice(PresBigG(gd), case["probe"])
    if kind == "presgrid":
        return grid_probe3(case["grid"], case["probe"], case["gp"])
    raise ValueError(kind)

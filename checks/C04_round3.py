"""C04 round 3 - VOLUME families between the small scope (n <= 5, entries <= 3) and the structured ladders of round 2.

Same clauses as checks/C04.py (its `contract` / `invariance` are used unchanged); new is only the input space:

  vol-*    pure-integer and mixed general-integer programs with 4..9 variables, 1..3 user rows with integer entries up to
           3 / 5 / 9 (drawn per instance), explicit bound rows x_j <= U_j (U_j in 1..3, mostly 3), three row shapes
           (multi-knapsack / covering / mixed sign) x four cost shapes:
             random         c_j in 1..9 (mixed sign: -5..9)
             small          c_j in 1..3 (many ties between vertices, LP values on a coarse grid)
             dual-integral  c = sum_i y_i * row_i + r  with integer multipliers y_i in 0..2 and a sparse integer reduced-cost
                            vector r: an optimal dual solution of the relaxation (and of many node LPs of the tree) is
                            integral, so the LP VALUE is an integer although the LP VERTEX is fractional (thirds, sevenths,
                            ... from the row intersections) - the values a float simplex reports there are k +- 1e-15
             row-sum        c = row_1 + ... + row_m (the special case y = 1)
           vol-general-integer draws from all of it (about 72 % pure integer, 24 % one continuous variable, 4 % two);
           vol-integral-lp-value is the same generator restricted to pure-integer programs with dual-integral / row-sum costs
           and 2..3 rows (LP values exactly integral at fractional vertices; the optimum often equals the LP bound).
           Every instance is solved in ONE direction (knapsack: max, cover: min, mixed sign: drawn) under the option sets
           VOL_OPTS = default / heuristics=False / heuristics + LNS / all-zero warm start (quick tier of
           vol-integral-lp-value: one of them per instance in rotation, all four on every 8th instance - the solver call
           and the oracle cost about the same there, so this buys three times the instances), and judged by exact enumeration
           of the whole box (oracles.milp_exact.solve_int_box; one continuous variable: closed-form interval per integer
           assignment; two continuous variables: oracles.milp_exact.solve, exact LP per assignment).
  mixbin-continuous-cost
           0/1 programs (6..12 binaries with explicit x_j <= 1 rows; 4..6 when there are two continuous variables) plus 1..2
           continuous variables (bound rows 1..5) that carry a cost, two knapsack (max) or covering (min) rows over all
           variables; run with heuristics=False (plain tree search: the incumbent improves several times inside the tree
           while many nodes are open) and with the default options.
           Oracle: all 2^k binary assignments, continuous part in closed form (one) / by the exact LP oracle (two).

Instances are deduplicated by digest; every family has its own RNG stream.  non-trivial = the exact LP relaxation optimum
differs from the exact optimum (as in checks/C04.py); additionally counted (c04_stats): how many instances have an exactly
integral LP value at a fractional LP vertex, and how many have their optimum equal to that LP bound.

Measured per instance (CPU): solve_milp 1..4 ms per call at 6..8 variables with entries <= 3, 4..10 ms at 9 variables with
entries <= 9; box enumeration 0.5 / 2 / 5 / 20 ms at 6 / 7 / 8 / 9 general integers; exact LP relaxation 1..2.5 ms.
"""
from __future__ import annotations

import json
import random
import time
from fractions import Fraction

from vf.core import digest, use_repo

# (label, heuristics, lns_iterations, seed, warm start)
VOL_OPTS = (("default", True, 0, 0, None), ("heuristics-off", False, 0, 0, None), ("lns", True, 3, 0, None),
            ("warm-start-zero", True, 0, 0, "zero"))
MIXBIN_OPTS = (("heuristics-off", False, 0, 0, None), ("default", True, 0, 0, None))
ROW_SHAPES = ("knapsack", "knapsack", "cover", "mixed-sign")
COST_SHAPES = ("random", "small", "dual-integral", "dual-integral", "row-sum")


# =============================================================================================== generators
def _cost(rng, shape, rows, n, signed, rdens=0.3, ymax=2):
    m = len(rows)
    if shape == "random":
        return [rng.randint(-5, 9) if signed else rng.randint(1, 9) for _ in range(n)]
    if shape == "small":
        return [rng.randint(-2, 3) if signed else rng.randint(1, 3) for _ in range(n)]
    if shape == "row-sum":
        y = [1] * m
        r = [0] * n
    else:
        y = [rng.randint(0, ymax) for _ in range(m)]
        if not any(y):
            y[rng.randrange(m)] = 1
        r = [rng.choice((-2, -1, 1, 2)) if rng.random() < rdens else 0 for _ in range(n)]
    return [sum(y[i] * abs(rows[i][j]) if not signed else y[i] * rows[i][j] for i in range(m)) + r[j] for j in range(n)]


def gen_vol(rng, nmin=4, nmax=9, amax=(3, 5, 9), costs=COST_SHAPES, pure=0.72, rdens=0.3, ymax=2, mrows=(1, 2, 2, 3, 3)):
    """-> instance dict {c, A, b, integers, minimize, meta}: user rows first, then one bound row per variable."""
    t = rng.random()
    ncont = 0 if t < pure else 1 if t < pure + 0.24 else 2
    # two continuous variables: exact LP per integer assignment - keep the integer box at <= 4^5
    if ncont == 2:
        n = rng.randint(4, 5)
    else:
        n = rng.choice([k for k in (4, 5, 5, 6, 6, 6, 7, 7, 7, 8, 8, 9) if nmin <= k <= nmax])
    m = rng.choice(mrows)
    amax = rng.choice(amax)  # entry range of this instance
    U = [3 if rng.random() < 0.75 else rng.randint(1, 2) for _ in range(n)]
    shape = rng.choice(ROW_SHAPES)
    rows, rhs = [], []
    for _ in range(m):
        if shape == "mixed-sign":
            row = [rng.randint(-3, amax) if rng.random() < 0.9 else 0 for _ in range(n)]
            if not any(row):
                row[rng.randrange(n)] = rng.randint(1, 9)
            lo = sum(min(0, a) * u for a, u in zip(row, U))
            hi = sum(max(0, a) * u for a, u in zip(row, U))
            rows.append(row); rhs.append(lo + int((hi - lo) * rng.uniform(0.25, 0.75)))
        else:
            row = [rng.randint(1, amax) if rng.random() < 0.92 else 0 for _ in range(n)]
            if not any(row):
                row[rng.randrange(n)] = rng.randint(1, amax)
            tot = sum(a * u for a, u in zip(row, U))
            if shape == "knapsack":
                rows.append(row); rhs.append(max(1, int(tot * rng.uniform(0.25, 0.75))))
            else:
                rows.append([-a for a in row]); rhs.append(-max(1, int(tot * rng.uniform(0.2, 0.7))))
    cshape = rng.choice(costs)
    c = _cost(rng, cshape, rows, n, signed=(shape == "mixed-sign"), rdens=rdens, ymax=ymax)
    if not any(c):
        c[rng.randrange(n)] = 1
    minimize = {"knapsack": False, "cover": True}.get(shape, rng.random() < 0.5)
    cont = sorted(rng.sample(range(n), ncont))
    A = [list(r) for r in rows] + [[1 if k == j else 0 for k in range(n)] for j in range(n)]
    b = list(rhs) + list(U)
    return {"c": c, "A": A, "b": b, "integers": [j for j in range(n) if j not in cont], "minimize": minimize,
            "meta": {"n": n, "user_rows": m, "rows": shape, "cost": cshape, "continuous": ncont, "entries_up_to": amax}}


def gen_mixbin(rng, kmax=10):
    """0/1 variables + 1..2 continuous variables with a cost, two knapsack / covering rows."""
    ncont = 1 if rng.random() < 0.88 else 2
    k = rng.randint(6, kmax) if ncont == 1 else rng.randint(4, 6)  # two continuous: an exact LP per 0/1 assignment
    n = k + ncont
    pos = sorted(rng.sample(range(n), ncont))  # where the continuous variables sit
    U = [rng.randint(1, 5) if j in pos else 1 for j in range(n)]
    cover = rng.random() < 0.35
    rows, rhs = [], []
    for _ in range(2):
        row = [rng.randint(1, 9) if rng.random() < 0.9 else 0 for _ in range(n)]
        if not any(row):
            row[rng.randrange(n)] = rng.randint(1, 9)
        tot = sum(a * u for a, u in zip(row, U))
        if cover:
            rows.append([-a for a in row]); rhs.append(-max(1, int(tot * rng.uniform(0.25, 0.7))))
        else:
            rows.append(row); rhs.append(max(1, int(tot * rng.uniform(0.3, 0.75))))
    cs = rng.choice(("random", "random", "small", "dual-integral"))
    c = _cost(rng, cs, rows, n, signed=False)
    for j in pos:
        c[j] = max(1, c[j])  # the continuous variables carry a cost
    A = [list(r) for r in rows] + [[1 if t == j else 0 for t in range(n)] for j in range(n)]
    b = list(rhs) + list(U)
    return {"c": c, "A": A, "b": b, "integers": [j for j in range(n) if j not in pos], "minimize": cover,
            "meta": {"n": n, "binaries": k, "continuous": ncont, "rows": "cover" if cover else "knapsack", "cost": cs}}


# =============================================================================================== oracle
def split_box(inst):
    """-> (user rows, rhs, U) when the LAST n rows are exactly the bound rows x_j <= U_j (how gen_* build them)."""
    n = len(inst["c"])
    A, b = inst["A"], inst["b"]
    m = len(b) - n
    for j in range(n):
        if A[m + j] != [1 if k == j else 0 for k in range(n)]:
            raise ValueError("instance is not in the user-rows + box-rows layout")
    return [list(r) for r in A[:m]], list(b[:m]), list(b[m:])


def oracle(inst, mn):
    """Exact verdict for direction mn in the shape checks.C04.contract expects (dir / relax / complete)."""
    from oracles import lp_exact
    from oracles.milp_exact import solve as exact, solve_int_box
    n = len(inst["c"])
    ints = sorted(set(inst["integers"]))
    cont = [j for j in range(n) if j not in ints]
    rl = lp_exact.solve(inst["c"], inst["A"], inst["b"], mn)
    if len(cont) <= 1:
        rows, rhs, U = split_box(inst)
        order = ints + cont  # the continuous variable (if any) goes last
        r = solve_int_box([inst["c"][j] for j in order], [[row[j] for j in order] for row in rows], rhs,
                          [U[j] for j in order], cont_last=bool(cont))
        best = r[mn]
        if best is None:
            d = {"status": "infeasible", "value": None, "x": None}
        else:
            x = [None] * n
            for k, j in enumerate(order):
                x[j] = Fraction(best[1][k])
            d = {"status": "optimal", "value": Fraction(best[0]), "x": x}
    else:
        g = exact(inst["c"], inst["A"], inst["b"], ints)
        if not g["complete"]:
            raise AssertionError("C04 round 3: box of a volume instance is not complete")
        d = g["dir"][mn]
    return {"complete": True, "dir": {mn: d}, "relax": {mn: rl}}


# =============================================================================================== worker
def work_vol(unit):
    """One instance, one direction, the family's option sets; plain data back (same layout as checks.C04.work)."""
    from checks import C04 as B
    inst_s, fam, optsel = unit
    inst = json.loads(inst_s) if isinstance(inst_s, str) else inst_s
    use_repo()
    B._hook_reach()
    B._REACH.clear()
    t0 = time.process_time()
    mn = inst["minimize"]
    out = B._new_out(fam)
    B._bump(out, "instances")
    n = len(inst["c"])
    orc = oracle(inst, mn)
    t1 = time.process_time()
    d, rl = orc["dir"][mn], orc["relax"][mn]
    nontrivial = B._relax_nontrivial(inst, mn, orc)
    B._bump(out, f"{fam}:instances")
    B._bump(out, f"{fam}:oracle:" + d["status"])
    if nontrivial:
        B._bump(out, f"{fam}:instances-nontrivial")
    if rl["status"] == "optimal":
        frac_vertex = any(Fraction(rl["x"][j]).denominator != 1 for j in inst["integers"])
        if frac_vertex and Fraction(rl["objective"]).denominator == 1:
            B._bump(out, f"{fam}:root-LP-value-integral-at-a-fractional-vertex")
        if frac_vertex and d["status"] == "optimal" and rl["objective"] == d["value"]:
            B._bump(out, f"{fam}:optimum-equals-LP-bound-at-a-fractional-vertex")
    meta = inst.get("meta") or {}
    for k in ("rows", "cost", "continuous", "entries_up_to"):
        if k in meta:
            B._bump(out, f"{fam}:{k}={meta[k]}")
    B._bump(out, f"size:{fam}:n={n}")
    core = {"c": inst["c"], "A": inst["A"], "b": inst["b"], "integers": inst["integers"]}
    base = base_cfg = None
    allopts = MIXBIN_OPTS if fam.startswith("mixbin") else VOL_OPTS
    for label, heur, lns, seed, ws in [allopts[i] for i in optsel]:
        w = ("none", None) if ws is None else ("all-zero", [0.0] * n)
        cfg = B.mk_cfg(w, (heur, lns, 1, 0.3, seed), core)
        kind, res = B.call_solver(core, mn, cfg)
        out["n"] += 1
        B._bump(out, f"{fam}:calls:{label}")
        if kind == "result":
            viols, st, cx = B.contract(core, mn, cfg, res, orc)
            got = ("result", st, cx, B.budget_exhausted(cfg, res))
            B._bump(out, "status:" + st)
            B._bump(out, f"{fam}:nodes", int(res.iterations))
            if res.iterations > 20:
                B._bump(out, f"{fam}:calls-with-more-than-20-nodes")
            for ob, det in viols:
                out["viol"].append((ob, B.case_of(core, mn, cfg, fam), det))
        else:
            got = (kind, res, None, False)
            B._bump(out, "no-verdict:" + kind)
            if len(out["noverdict"]) < 2:
                out["noverdict"].append({"case": B.case_of(core, mn, cfg, fam), "what": f"{kind}: {res}"})
        if base is None:
            base, base_cfg = got, cfg
        else:
            msg = B.invariance(core, mn, cfg, got, base_cfg, base)
            if msg:
                out["viol"].append((B.P + "ensures:verdict-invariant", B.case_of(core, mn, cfg, fam, base_cfg), msg))
        if nontrivial:
            out["keys"].append(int(digest([core["c"], core["A"], core["b"], core["integers"], mn, cfg])[:15], 16))
        if out["sample"] is None and nontrivial and label != "default":
            out["sample"] = B.case_of(core, mn, cfg, fam)
    for k_, n_ in B._REACH.items():
        B._bump(out, "reached:" + k_, n_)
    B._REACH.clear()
    t2 = time.process_time()
    B._bump(out, "cpu_ms:" + fam, int(1000 * (t2 - t0)))
    B._bump(out, "cpu_ms_oracle:" + fam, int(1000 * (t1 - t0)))
    return out


# =============================================================================================== driver part
INTEGRAL_KW = {"pure": 1.0, "costs": ("dual-integral", "row-sum"), "mrows": (2, 3, 3, 3)}
VOLUME = {  # family -> generator, per tier: instances, generator parameters, rotate (one option set per instance, all of
    #         them on every 8th) or all option sets on every instance
    "vol-general-integer": {
        "gen": gen_vol, "what": "all row shapes x all cost shapes, entries up to 3 / 5 / 9 (drawn per instance), ~72 % pure "
                                "integer, ~24 % one continuous variable, ~4 % two (then n = 4..5)",
        "quick": (400, {"nmax": 7}, False), "thorough": (22000, {"nmax": 9}, False)},
    "vol-integral-lp-value": {
        "gen": gen_vol, "what": "pure-integer programs whose costs are integer combinations of the rows (cost shapes "
                                "dual-integral and row-sum), 2..3 user rows: the LP value of the root and of many tree nodes is "
                                "exactly an integer at a fractional vertex, the optimum often equals the LP bound",
        "quick": (2800, dict(INTEGRAL_KW, nmin=6, nmax=8, amax=(3,)), True),
        "thorough": (36000, dict(INTEGRAL_KW, nmin=6, nmax=9, amax=(3, 3, 5)), False)},
    "mixbin-continuous-cost": {
        "gen": gen_mixbin, "what": "0/1 variables with explicit x_j <= 1 rows + 1..2 continuous variables (bound rows 1..5) "
                                   "that carry a cost, two knapsack (max) / covering (min) rows over all variables",
        "quick": (200, {"kmax": 10}, False), "thorough": (14000, {"kmax": 12}, False)},
}


def build_units(ctx):
    """-> [(instance json, family, indices of the option sets to run)] deduplicated by digest; scopes recorded on ctx."""
    units = []
    seen = set()
    for fam, spec in VOLUME.items():
        rng = random.Random(f"C04 round 3/{fam}/{ctx.seed}")  # one stream per family (a string seed is hashed by sha512)
        count, kw, rotate = spec["quick" if ctx.quick else "thorough"]
        opts = MIXBIN_OPTS if fam.startswith("mixbin") else VOL_OPTS
        k = r = 0
        for _ in range(count):
            inst = spec["gen"](rng, **kw)
            key = digest([inst["c"], inst["A"], inst["b"], inst["integers"], inst["minimize"]])
            if key in seen:
                continue
            seen.add(key)
            if rotate and k % 8:
                sel = [r % len(opts)]
                r += 1
            else:
                sel = list(range(len(opts)))
            units.append((json.dumps(inst, separators=(",", ":")), fam, sel))
            k += 1
        ctx.scope(fam, instances=k, what=spec["what"], generator=" ".join((spec["gen"].__doc__ or "").split()),
                  parameters={a: (list(b) if isinstance(b, tuple) else b) for a, b in kw.items()},
                  option_sets=[o[0] for o in opts],
                  option_sets_per_instance="one, in rotation (all of them on every 8th instance)" if rotate else "all",
                  oracle="oracles.milp_exact.solve_int_box (exact enumeration of the integer box, closed-form interval for "
                         "one continuous variable) / oracles.milp_exact.solve (two continuous variables); LP relaxation by "
                         "oracles.lp_exact", deduplicated_by="digest of (c, A, b, integers, direction)", seeded=True)
    return units

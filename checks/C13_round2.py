"""C13 round 2: families beyond the small scope (used by checks/C13.py; same contract, same obligation names).

* size ladder  - graphs with 10 .. 20000+ nodes and up to ~130000 edges (dense cores with a sparse fringe, cliques joined
                 by bridges, multigraphs with thousands of parallel edges, sparse graphs with a planted minimum tree, paths /
                 stars / grids / wheels / complete bipartite graphs, forests with many components), sizes around powers of
                 two and round numbers, many equal weights.  Verdict by cheap certifying oracles (oracles/mst_big.py):
                 Boruvka (BFS relabelling), O(V^2) matrix Prim (<= 1100 nodes), planted optimum where the construction
                 gives one, and the cycle-property certificate of the returned forest itself.
* fine numerics - weights B + k*2^-g (g up to 40, B as large as exact float sums allow), +-(10^9 - k), 2^40 + k, mixed
                 int/float ties; negative everything.
* history mode - ONE edge list / adjacency dict object used for a sequence of calls with in-place edits between the
                 calls (append, overwrite, delete, reorder, new nodes, relabelled start), every answer judged against the
                 oracle for the input as it is at that call; every call made twice; last call repeated in a fresh process.
"""
from __future__ import annotations

import json
import os
import random
import subprocess
import sys
from collections import Counter

from checks.guard import guarded
from oracles import mst_big as B
from vf.core import use_repo

MATRIX_LIMIT = 1100   # matrix Prim cross-check up to this many nodes
EMBED_LIMIT = 12000   # reported kruskal violations carry the concrete edge list when it has at most this many edges
PRIM_EDGE_LIMIT = 70000  # prim (pure Python heap) is run on ladder graphs with at most this many edges


def base():
    from checks import C13
    return C13


def short(x, k=260):
    s = repr(x)
    return s if len(s) <= k else s[:k] + f"... ({len(s)} chars)"


# =========================================================================================== weights
def weight_fn(rng, palette, n):
    """Weight generator.  Every palette keeps all partial sums of any <= n weights exactly representable as floats."""
    if palette == "equal":
        x = rng.choice((1, 1, 0, -3, 2.5, 7))
        return lambda: x
    if palette == "two":
        return lambda: rng.choice((1, 2))
    if palette == "three":
        return lambda: rng.randint(1, 3)
    if palette == "01":
        return lambda: rng.randint(0, 1)
    if palette == "smallint":
        return lambda: rng.randint(1, 10)
    if palette == "int100":
        return lambda: rng.randint(1, 100)
    if palette == "neg":
        return lambda: -rng.randint(0, 9)
    if palette == "distinct":
        box = [0]

        def nxt():
            box[0] += 1
            return (box[0] * 7919) % 1000003 - 40  # distinct for < 1000003 draws
        return nxt
    if palette == "mixedtype":
        return lambda: rng.choice((1, 1.0, 2, 2.0, 1.5, 0.5, 3, -1, -1.0))
    if palette == "bigmag":
        if n < 2048 and rng.random() < 0.5:
            sgn = rng.choice((1, 1, -1))
            return lambda: sgn * (2 ** 40 + rng.randint(0, 3))
        sgn = rng.choice((1, -1))
        return lambda: sgn * (10 ** 9 - rng.randint(0, 3))
    if palette == "dyadic":
        g = rng.choice((20, 30, 36, 40))
        while True:
            a = (53 - g) - max(1, n).bit_length() - 2  # n * 2^(a+1) < 2^(53-g)
            if a >= 1:
                break
            g -= 2
        a = min(a, 24)
        b = rng.choice((1, 1, -1)) * 2.0 ** a
        span = rng.choice((1, 3, 3, 7, 1023))
        unit = 2.0 ** -g
        ws = [b + k * unit for k in range(span + 1)]
        for k, w in enumerate(ws):
            assert B.exact(w) == B.exact(b) + k_unit(k, g)  # representable: no rounding happened
        return lambda: ws[rng.randint(0, span)]
    raise ValueError(palette)


def k_unit(k, g):
    from fractions import Fraction
    return Fraction(k, 2 ** g)


TIE_PALETTES = ("equal", "two", "three", "01")
ALL_PALETTES = ("equal", "two", "three", "01", "smallint", "int100", "neg", "distinct", "mixedtype", "bigmag", "dyadic")


# =========================================================================================== ladder generators
def gen_core_fringe(rng, size, palette):
    """dense core on `size` nodes + a few low-degree fringe nodes (pendants, short tails) appended last"""
    c = size
    f = rng.choice((1, 1, 2, 3, 6))
    n = c + f
    wf = weight_fn(rng, palette, n)
    p = rng.choice((1.0, 1.0, 1.0, 0.8))
    edges = []
    for u in range(c):
        for v in range(u + 1, c):
            if p >= 1.0 or rng.random() < p:
                edges.append((u, v, wf()))
    if p < 1.0:  # keep the core connected
        for v in range(1, c):
            edges.append((rng.randrange(v), v, wf()))
    spare = rng.random() < 0.5
    for v in range(c, n):
        for _ in range(rng.choice((1, 1, 2))):
            edges.append((rng.randrange(v), v, wf()))
        if spare and palette not in ("equal",):
            edges.append((rng.randrange(c), v, wf()))
    return n, edges, None


def gen_blocks(rng, size, palette, k=2, joined=True):
    """k dense blocks of about `size` nodes; joined in a chain by single bridges (connected) or not (disconnected)"""
    sizes = [max(2, size + rng.randint(-1, 1)) for _ in range(k)]
    n = sum(sizes)
    wf = weight_fn(rng, palette, n)
    edges = []
    start = 0
    firsts = []
    for s in sizes:
        ids = list(range(start, start + s))
        firsts.append(ids)
        for i in range(s):
            for j in range(i + 1, s):
                edges.append((ids[i], ids[j], wf()))
        start += s
    bridges = []
    for i in range(k - 1):
        if joined or (k > 2 and i % 2 == 0 and rng.random() < 0.5):
            bridges.append((rng.choice(firsts[i]), rng.choice(firsts[i + 1]), wf()))
    pos = rng.choice(("end", "end", "front", "mid"))
    if pos == "end":
        edges += bridges
    elif pos == "front":
        edges = bridges + edges
    else:
        for b in bridges:
            edges.insert(rng.randrange(len(edges) + 1), b)
    known = None
    if palette == "equal":
        c = k - len(bridges)
        known = (n - c) * edges[0][2]
    return n, edges, known


def gen_multigraph(rng, size, palette, m=4097):
    """few nodes, thousands of parallel edges on a hot subset, the last node(s) reachable through one or two late edges"""
    n = size
    wf = weight_fn(rng, palette, n)
    cold = rng.choice((1, 1, 2))
    hot = max(2, n - cold)
    edges = []
    for v in range(1, hot):
        edges.append((rng.randrange(v), v, wf()))
    while len(edges) < m - 2 * cold:
        u, v = rng.randrange(hot), rng.randrange(hot)
        edges.append((u, v, wf()))  # self loops included
    for v in range(hot, n):
        for _ in range(rng.choice((1, 2))):
            edges.append((rng.randrange(v), v, wf()))
    return n, edges, None


def gen_sparse(rng, size, palette, planted=True):
    """random tree + ~2n extra edges.  planted: tree weights <= K <= extra weights, so the tree is minimum by the cycle
    property and the optimum is known by construction."""
    n = size
    edges = []
    shape = rng.choice(("random", "random", "path", "star2", "binary"))
    perm = list(range(n))
    rng.shuffle(perm)
    if not planted:
        wf = weight_fn(rng, palette, n)
        tw = xw = wf
    else:
        lo, K, hi = rng.choice(((1, 1, 1), (1, 2, 3), (0, 5, 9), (-7, -2, 4), (1, 40, 41)))
        if palette == "dyadic":
            g = 40
            while (53 - g) - n.bit_length() - 5 < 1:
                g -= 2
            unit = 2.0 ** -g
            base_ = 8.0
            tw = lambda: base_ + rng.randint(0, 4) * unit  # noqa: E731
            xw = lambda: base_ + rng.randint(4, 9) * unit  # noqa: E731
        else:
            tw = lambda: rng.randint(lo, K)  # noqa: E731
            xw = lambda: rng.randint(K, hi)  # noqa: E731
    tree = []
    for i in range(1, n):
        if shape == "random":
            j = rng.randrange(i)
        elif shape == "path":
            j = i - 1
        elif shape == "star2":
            j = 0 if i < n // 2 or i == n // 2 else n // 2
        else:
            j = (i - 1) // 2
        tree.append((perm[j], perm[i], tw()))
    extra = []
    for _ in range(rng.choice((n // 2, 2 * n, 2 * n, 4 * n))):
        u, v = rng.randrange(n), rng.randrange(n)
        extra.append((u, v, xw()))
    edges = tree + extra
    known = B.exact_sum(w for _, _, w in tree) if planted else None
    return n, edges, known


def gen_shape(rng, size, palette, shape="path"):
    n = size
    wf = weight_fn(rng, palette, n)
    edges = []
    if shape == "path":  # long path + a few chords
        edges = [(i, i + 1, wf()) for i in range(n - 1)]
        edges += [(rng.randrange(n), rng.randrange(n), wf()) for _ in range(max(1, n // 16))]
    elif shape == "cycle":
        edges = [(i, (i + 1) % n, wf()) for i in range(n)]
    elif shape == "star":
        edges = [(0, i, wf()) for i in range(1, n)] + [(i, i + 1, wf()) for i in range(1, n - 1, 2)]
    elif shape == "wheel":
        edges = [(0, i, wf()) for i in range(1, n)] + [(i, i % (n - 1) + 1, wf()) for i in range(1, n)]
    elif shape == "grid":
        r = max(2, int(n ** 0.5))
        n = r * r
        for i in range(r):
            for j in range(r):
                if j + 1 < r:
                    edges.append((i * r + j, i * r + j + 1, wf()))
                if i + 1 < r:
                    edges.append((i * r + j, (i + 1) * r + j, wf()))
    elif shape == "bipartite":
        a = max(1, min(n // 2, 40))
        for u in range(a):
            for v in range(a, n):
                edges.append((u, v, wf()))
    elif shape == "caterpillar":
        spine = max(2, n // 3)
        edges = [(i, i + 1, wf()) for i in range(spine - 1)]
        edges += [(rng.randrange(spine), v, wf()) for v in range(spine, n)]
        edges += [(rng.randrange(n), rng.randrange(n), wf()) for _ in range(n // 8)]
    elif shape == "ladder":
        h = n // 2
        n = 2 * h
        for i in range(h):
            edges.append((i, h + i, wf()))
            if i + 1 < h:
                edges.append((i, i + 1, wf()))
                edges.append((h + i, h + i + 1, wf()))
    else:
        raise ValueError(shape)
    return n, edges, None


def gen_forest(rng, size, palette):
    """many components: trees, cycles, cliques, isolated nodes, loops on isolated nodes"""
    n = size
    wf = weight_fn(rng, palette, n)
    ids = list(range(n))
    rng.shuffle(ids)
    edges = []
    k = 0
    while k < n:
        s = min(n - k, rng.choice((1, 1, 2, 3, 5, 8, 13, max(2, n // 6))))
        part = ids[k:k + s]
        k += s
        kind = rng.choice(("tree", "cycle", "clique", "dense"))
        if s == 1:
            if rng.random() < 0.3:
                edges.append((part[0], part[0], wf()))
            continue
        for i in range(1, s):
            edges.append((part[rng.randrange(i)], part[i], wf()))
        if kind == "cycle":
            edges.append((part[0], part[-1], wf()))
        elif kind in ("clique", "dense") and s <= 200:
            for i in range(s):
                for j in range(i + 1, s):
                    if kind == "clique" or rng.random() < 0.5:
                        edges.append((part[i], part[j], wf()))
    rng.shuffle(edges)
    return n, edges, None


def ladder_graph(spec):
    """spec = {"family","size","palette","idx","seed", optional extra} -> (n, edges, planted optimum or None)"""
    rng = random.Random("L/" + json.dumps(spec, sort_keys=True))
    fam = spec["family"]
    x = spec.get("x")
    if fam == "core_fringe":
        return gen_core_fringe(rng, spec["size"], spec["palette"])
    if fam == "blocks":
        return gen_blocks(rng, spec["size"], spec["palette"], k=x[0], joined=bool(x[1]))
    if fam == "multigraph":
        return gen_multigraph(rng, spec["size"], spec["palette"], m=x)
    if fam == "sparse":
        return gen_sparse(rng, spec["size"], spec["palette"], planted=bool(x))
    if fam == "shape":
        return gen_shape(rng, spec["size"], spec["palette"], shape=x)
    if fam == "forest":
        return gen_forest(rng, spec["size"], spec["palette"])
    raise ValueError(fam)


def ladder_specs(quick, seed):
    S = []

    def add(fam, size, pal, reps, x=None):
        for i in range(reps):
            S.append({"family": fam, "size": size, "palette": pal, "idx": i, "seed": seed, "x": x})

    r = 2 if quick else 6
    for size in (10, 11, 12, 33, 65, 91, 100, 129, 140):
        for pal in ALL_PALETTES:
            add("core_fringe", size, pal, (2 if pal in TIE_PALETTES else 1) * r)
    for size in ((260, 520) if quick else (180, 260, 300, 520, 700)):
        for pal in (("equal", "two", "dyadic") if quick else ("equal", "two", "three", "smallint", "dyadic", "distinct")):
            if quick and size == 520 and pal == "dyadic":
                continue
            add("core_fringe", size, pal, 1 if quick or size >= 300 else 2)
    for k, size in ((2, 12), (5, 10), (4, 33), (3, 50), (2, 65), (2, 66), (2, 100)) + (() if quick else ((2, 130), (3, 129), (8, 33))):
        for pal in ("equal", "two", "01", "dyadic", "smallint", "neg"):
            add("blocks", size, pal, r, [k, 1])
            add("blocks", size, pal, r, [k, 0])
    for size, m in ((4, 1025), (10, 4097), (12, 520), (12, 8200), (33, 4100), (33, 20000), (12, 65537)) + \
            (() if quick else ((65, 33000), (130, 9000), (33, 131073))):
        for pal in ("equal", "two", "01", "smallint", "dyadic", "mixedtype"):
            if quick and m > 60000 and pal not in ("equal", "two"):
                continue
            add("multigraph", size, pal, 1 if m > 60000 else r, m)
    for size in (260, 520, 600, 1000, 1030, 2049, 4100) + (() if quick else (8200, 20000)):
        for pal in ("two", "smallint", "dyadic", "distinct"):
            add("sparse", size, pal, 1 if quick or size > 4100 else 3, 1)
            add("sparse", size, pal, 1 if quick or size > 4100 else 3, 0)
    for shape in ("path", "cycle", "star", "wheel", "grid", "bipartite", "caterpillar", "ladder"):
        for size in (33, 129, 600, 1030) + (() if quick else (2049, 5000)):
            for pal in ("two", "dyadic") + (() if quick else ("equal", "smallint", "neg")):
                add("shape", size, pal, 1 if quick else 2, shape)
    for size in (12, 65, 140, 600, 1030) + (() if quick else (2049, 5000)):
        for pal in ("equal", "two", "smallint", "dyadic"):
            add("forest", size, pal, r)
    return S


# =========================================================================================== running one ladder graph
def order_edges(edges, how, rng):
    if how == "given":
        return list(edges)
    if how == "reversed":
        return list(reversed(edges))
    es = [(v, u, w) if rng.random() < 0.5 else (u, v, w) for u, v, w in edges]
    rng.shuffle(es)
    return es


def prim_inputs(n, edges, scheme, key_order, rng):
    C = base()
    lab = [C.label(scheme, i) for i in range(n)]
    adj = [[] for _ in range(n)]
    for u, v, w in edges:
        adj[u].append((lab[v], w))
        if u != v:
            adj[v].append((lab[u], w))
    keys = list(range(n))
    if key_order == "shuffled":
        rng.shuffle(keys)
        for a in adj:
            rng.shuffle(a)
    elif key_order == "descending":
        keys.reverse()
    return {lab[i]: adj[i] for i in keys}, lab


def call_case(case, n, edges):
    """Run the function under check on a ladder case. -> (result, exception, label list or None).
    A kruskal case that carries its concrete argument ("input": {"n_nodes", "edges"}, attached to reported violations)
    is run on exactly that argument."""
    from solvor.mst import kruskal, prim
    rng = random.Random("call/" + json.dumps({k: v for k, v in case.items() if k != "input"}, sort_keys=True))
    try:
        if case["fn"] == "kruskal":
            if "input" in case:
                es = [tuple(e) for e in case["input"]["edges"]]
            else:
                es = order_edges(edges, case["order"], rng)
            case["_args"] = es
            return guarded("kruskal", kruskal, n, es, allow_forest=case["allow_forest"], backend="python"), None, None
        g, lab = prim_inputs(n, edges, case["scheme"], case["order"], rng)
        if case["start"] is None:
            return guarded("prim", prim, g), None, lab
        return guarded("prim", prim, g, start=lab[case["start"]]), None, lab
    except Exception as e:  # noqa: BLE001
        return None, e, None


def judge_big(fn, allow_forest, res, exc, lab, n, edges, glabel, c, wmin):
    """Same contract and obligation names as checks/C13.judge, in O((V+E) log V)."""
    from solvor.types import Status
    if exc is not None:
        return [("ensures:returns", f"raised {type(exc).__name__}: {exc}")]
    st = res.status
    allow_forest = fn == "kruskal" and allow_forest
    if c > 1 and not allow_forest:
        if st != Status.INFEASIBLE:
            return [("ensures:disconnected=>INFEASIBLE", f"graph has {c} components, status {st!r}, solution {short(res.solution)}")]
        return []
    out = []
    if c > 1:
        if st != Status.FEASIBLE:
            out.append(("ensures:allow_forest-disconnected=>FEASIBLE", f"graph has {c} components, status {st!r}"))
    elif st == Status.INFEASIBLE:
        return [("ensures:connected=>spanning-tree", f"connected graph reported INFEASIBLE (solution {short(res.solution)})")]
    sol = res.solution
    kind = "tree" if c == 1 else "forest"
    if not isinstance(sol, (list, tuple)):
        return out + [("ensures:connected=>spanning-tree" if c == 1 else "ensures:allow_forest=>spanning-forest",
                       f"solution is {short(sol)} (status {st!r})")]
    tree = []
    back = {l: i for i, l in enumerate(lab)} if fn == "prim" else None
    for e in sol:
        try:
            a, b, w = e
            if back is not None:
                a, b = back[a], back[b]
            if not (0 <= a < n and 0 <= b < n):
                raise KeyError(a)
        except Exception:  # noqa: BLE001
            return out + [("ensures:edges-of-the-input", f"{e!r} is not an edge between nodes of the graph")]
        tree.append((a, b, w))
    shape_bad = B.forest_shape(n, edges, tree, glabel, c)
    for k, d in shape_bad:
        if k == "edges-of-the-input":
            out.append(("ensures:edges-of-the-input", d))
        elif k == "count":
            out.append(("ensures:n-1-edges" if c == 1 else "ensures:forest-has-n-c-edges", d))
        elif k == "acyclic":
            out.append(("ensures:acyclic", d))
        else:
            out.append(("ensures:connects-all-nodes", d))
    try:
        s = B.exact_sum(w for _, _, w in tree)
        obj = B.exact(res.objective)
    except Exception as e:  # noqa: BLE001
        return out + [("ensures:objective==total-weight", f"objective {res.objective!r}: {e}")]
    if obj != s:
        out.append(("ensures:objective==total-weight", f"objective {res.objective!r}, the returned edges weigh {s}"))
    if obj != wmin:
        out.append(("ensures:minimal", f"objective {res.objective!r}, minimum over all spanning {kind}s is {wmin}"
                                        f" (difference {float(obj - wmin)!r})"))
    if not out:
        ok, wit = B.is_min_forest_fast(n, edges, tree)
        if not ok:
            raise AssertionError(f"oracles disagree (weight says minimal, cycle property says not: {wit})")
    return out


def big_oracle(n, edges, known):
    """(component labels, c, exact minimum spanning forest weight); every available opinion must agree."""
    glabel, c = B.components_bfs(n, edges)
    w, cb, _ = B.boruvka(n, edges)
    if cb != c:
        raise AssertionError(f"oracles disagree on the number of components: bfs {c}, boruvka {cb}")
    if n <= MATRIX_LIMIT:
        wm, cm = B.matrix_prim(n, edges)
        if (wm, cm) != (w, c):
            raise AssertionError(f"oracles disagree: boruvka {w}/{c}, matrix prim {wm}/{cm}")
    if known is not None and known != w:
        raise AssertionError(f"oracles disagree: planted optimum {known}, boruvka {w}")
    return glabel, c, w


def eval_ladder(spec, acc):
    from solvor.types import Status
    n, edges, known = ladder_graph(spec)
    glabel, c, wmin = big_oracle(n, edges, known)
    C = base()
    m = len(edges)
    acc.graphs += 1
    if sum(1 for e in edges if e[0] != e[1]) > n - c:  # non-trivial: some edge has to be rejected
        acc.keys.add(hash(("L", json.dumps(spec, sort_keys=True))))
    acc.r2["ladder_graphs"] += 1
    acc.r2["ladder_max_nodes"] = max(acc.r2["ladder_max_nodes"], n)
    acc.r2["ladder_max_edges"] = max(acc.r2["ladder_max_edges"], m)
    if known is not None:
        acc.r2["ladder_planted_optimum"] += 1
    if n <= MATRIX_LIMIT:
        acc.r2["ladder_matrix_prim_crosschecked"] += 1
    rng = random.Random("plan/" + json.dumps(spec, sort_keys=True))
    cases = []
    for order in ("given", "shuffled") + (("reversed",) if spec["idx"] % 2 else ()):
        for af in (False, True):
            cases.append({"fn": "kruskal", "ladder": spec, "order": order, "allow_forest": af})
    if m <= PRIM_EDGE_LIMIT:
        scheme = rng.choice(C.SCHEMES)
        starts = [None, rng.randrange(n), n - 1]
        for i, st in enumerate(starts):
            cases.append({"fn": "prim", "ladder": spec, "scheme": scheme if i else rng.choice(("int", scheme)),
                          "order": ("given", "shuffled", "descending")[i], "start": st})
    objs = {}
    for case in cases:
        res, exc, lab = call_case(case, n, edges)
        acc.evals += 1
        bad = judge_big(case["fn"], case.get("allow_forest", False), res, exc, lab, n, edges, glabel, c, wmin)
        args = case.pop("_args", None)
        for obl, detail in bad:
            name = f"C13/{case['fn']}/{obl}"
            acc.per_obl[name] += 1
            if acc.per_obl[name] <= 3:
                cc = dict(case)
                if args is not None and m <= EMBED_LIMIT:  # the concrete argument list, exactly as passed
                    cc["input"] = {"n_nodes": n, "edges": [list(e) for e in args]}
                acc.viol.append((name, cc, f"[ladder {spec['family']} n={n} m={m} weights={spec['palette']}] " + detail))
        if res is not None and res.status != Status.INFEASIBLE and case["fn"] not in objs:
            objs[case["fn"]] = (case, res.objective)
    if c == 1 and len(objs) == 2 and objs["kruskal"][1] != objs["prim"][1]:
        name = "C13/kruskal+prim/ensures:agree-on-total-weight"
        acc.per_obl[name] += 1
        if acc.per_obl[name] <= 3:
            acc.viol.append((name, {"fn": "both", "kruskal": objs["kruskal"][0], "prim": objs["prim"][0]},
                             f"[ladder {spec['family']} n={n} m={m}] kruskal {objs['kruskal'][1]!r} vs prim "
                             f"{objs['prim'][1]!r} (minimum {wmin})"))
    if not acc.samples:
        acc.samples.append({"fn": "kruskal", "ladder": spec, "order": "shuffled", "allow_forest": False, "n": n, "m": m})


def work_ladder(chunk):
    """chunk = ("L", [specs])"""
    use_repo()
    acc = base().Acc()
    acc.r2 = Counter()
    for spec in chunk[1]:
        eval_ladder(spec, acc)
    d = acc.data()
    d["r2"] = dict(acc.r2)
    return d


# =========================================================================================== history mode
def hist_script(hs):
    """Deterministic session script from the spec hs = {"api","seed","idx","size"}: initial state + list of steps.
    Node labels are indices; prim sessions map them through a label scheme.  The script never depends on answers."""
    rng = random.Random(f"{hs['seed']}/H/{hs['api']}/{hs['size']}/{hs['idx']}")
    size = hs["size"]
    if size == "small":
        n = rng.randint(2, 9)
        pal = rng.choice(("equal", "two", "01", "smallint", "neg", "mixedtype", "dyadic", "bigmag"))
        dens = rng.choice((0.3, 0.6, 1.0))
    else:  # "grow": starts below and grows across size thresholds (edges 1024 / 4096 / 8192, nodes 64 / 128)
        n = rng.choice((40, 60, 62, 88, 120))
        pal = rng.choice(("equal", "two", "01", "smallint", "dyadic"))
        dens = 1.0
    wf = weight_fn(rng, pal, 400 if size != "small" else 64)
    edges = [(u, v, wf()) for u in range(n) for v in range(u + 1, n) if rng.random() < dens]
    if size == "small" and rng.random() < 0.7:
        for v in range(1, n):
            edges.append((rng.randrange(v), v, wf()))
    rng.shuffle(edges) if size == "small" else None
    steps = []
    ncalls = rng.randint(3, 6) if size == "small" else rng.randint(4, 6)
    nn = n
    cur = len(edges)
    for k in range(ncalls):
        if k:
            edits = []
            for _ in range(rng.randint(1, 3) if size == "small" else rng.randint(1, 2)):
                r = rng.random()
                if size != "small":
                    if r < 0.55:  # new node hanging on late, equally light edges (+ sometimes a block of new nodes)
                        for _ in range(rng.choice((1, 1, 2, 8))):
                            edits.append(["node"])
                            nn += 1
                            for _ in range(rng.choice((1, 1, 2))):
                                edits.append(["add", rng.randrange(nn - 1), nn - 1, wf()])
                                cur += 1
                    elif r < 0.85:  # a batch of parallel / extra edges: crosses the edge-count thresholds
                        for _ in range(rng.choice((50, 700, 3000))):
                            edits.append(["add", rng.randrange(nn), rng.randrange(nn), wf()])
                            cur += 1
                    else:
                        edits.append(["reorder", rng.choice(("reverse", "shuffle")), rng.randrange(10 ** 6)])
                    continue
                if r < 0.3:
                    edits.append(["add", rng.randrange(nn), rng.randrange(nn), wf()])
                    cur += 1
                elif r < 0.5 and cur:
                    edits.append(["set", rng.randrange(cur), wf()])
                elif r < 0.65 and cur:
                    edits.append(["del", rng.randrange(cur)])
                    cur -= 1
                elif r < 0.8:
                    edits.append(["node"])
                    nn += 1
                    if rng.random() < 0.7:
                        edits.append(["add", rng.randrange(nn - 1), nn - 1, wf()])
                        cur += 1
                elif r < 0.9:
                    edits.append(["reorder", rng.choice(("reverse", "shuffle", "sort")), rng.randrange(10 ** 6)])
                elif cur:
                    edits.append(["flip", rng.randrange(cur)])
            steps.append({"edits": edits})
        else:
            steps.append({"edits": []})
        steps[-1]["allow_forest"] = rng.random() < 0.5
        steps[-1]["start"] = None if rng.random() < 0.4 else rng.randrange(nn)
    scheme = rng.choice(base().SCHEMES)
    return n, edges, steps, scheme


class KruskalSession:
    """ONE list object `edges` handed to every call; edits are made in place."""

    def __init__(self, n, edges):
        self.n = n
        self.edges = [tuple(e) for e in edges]

    def apply(self, ed):
        es = self.edges
        op = ed[0]
        if op == "add":
            es.append((ed[1], ed[2], ed[3]))
        elif op == "set":
            u, v, _ = es[ed[1]]
            es[ed[1]] = (u, v, ed[2])
        elif op == "del":
            del es[ed[1]]
        elif op == "node":
            self.n += 1
        elif op == "flip":
            u, v, w = es[ed[1]]
            es[ed[1]] = (v, u, w)
        elif op == "reorder":
            if ed[1] == "reverse":
                es.reverse()
            elif ed[1] == "sort":
                es.sort(key=lambda e: (e[2], e[0], e[1]))
            else:
                random.Random(ed[2]).shuffle(es)

    def graph(self):
        return self.n, list(self.edges)

    def call(self, step):
        from solvor.mst import kruskal
        return guarded("kruskal", kruskal, self.n, self.edges, allow_forest=step["allow_forest"], backend="python")


class PrimSession:
    """ONE adjacency dict (and its list objects) handed to every call; edits are made in place.  Edge k of the script
    is tracked by a stable id so that 'set' / 'del' / 'flip' address the same undirected edge in both lists."""

    def __init__(self, n, edges, scheme):
        C = base()
        self.scheme = scheme
        self.lab = [C.label(scheme, i) for i in range(n)]
        self.g = {self.lab[i]: [] for i in range(n)}
        self.es = []  # current undirected edges (index space), in script order
        for u, v, w in edges:
            self._add(u, v, w)

    def _add(self, u, v, w):
        self.es.append((u, v, w))
        self.g[self.lab[u]].append((self.lab[v], w))
        if u != v:
            self.g[self.lab[v]].append((self.lab[u], w))

    def _remove(self, u, v, w):
        self.g[self.lab[u]].remove((self.lab[v], w))
        if u != v:
            self.g[self.lab[v]].remove((self.lab[u], w))

    def apply(self, ed):
        op = ed[0]
        if op == "add":
            self._add(ed[1], ed[2], ed[3])
        elif op == "set":
            u, v, w = self.es[ed[1]]
            # overwrite in place in both adjacency lists
            for a, b in ((u, v), (v, u)) if u != v else ((u, v),):
                lst = self.g[self.lab[a]]
                lst[lst.index((self.lab[b], w))] = (self.lab[b], ed[2])
            self.es[ed[1]] = (u, v, ed[2])
        elif op == "del":
            u, v, w = self.es.pop(ed[1])
            self._remove(u, v, w)
        elif op == "node":
            i = len(self.lab)
            self.lab.append(base().label(self.scheme, i))
            self.g[self.lab[i]] = []
        elif op == "flip":
            pass
        elif op == "reorder":
            r = random.Random(ed[2])
            for lst in self.g.values():
                if ed[1] == "reverse":
                    lst.reverse()
                elif ed[1] == "sort":
                    lst.sort(key=lambda t: t[1])
                else:
                    r.shuffle(lst)

    def graph(self):
        return len(self.lab), list(self.es)

    def call(self, step):
        from solvor.mst import prim
        if step["start"] is None:
            return guarded("prim", prim, self.g)
        return guarded("prim", prim, self.g, start=self.lab[step["start"] % len(self.lab)])


def summ(res):
    return [res.status.name, repr(res.objective)]


def run_history(hs, upto=None):
    """-> (violations [(obligation suffix, step index, detail)], number of judged calls, final record for the fresh process)"""
    C = base()
    n, edges, steps, scheme = hist_script(hs)
    api = hs["api"]
    sess = KruskalSession(n, edges) if api == "kruskal" else PrimSession(n, edges, scheme)
    out = []
    calls = 0
    last = None
    for k, step in enumerate(steps):
        if upto is not None and k > upto:
            break
        for ed in step["edits"]:
            sess.apply(ed)
        gn, ges = sess.graph()
        small = hs["size"] == "small"
        if small:
            c, wmin = C.oracle(gn, ges, False)
            glabel = None
        else:
            glabel, c, wmin = big_oracle(gn, ges, None)
        answers = []
        for rep in (0, 1):  # every call is made twice on the unchanged objects
            try:
                res, exc = sess.call(step), None
            except Exception as e:  # noqa: BLE001
                res, exc = None, e
            calls += 1
            lab = sess.lab if api == "prim" else None
            if small:
                case = {"fn": api, "allow_forest": step["allow_forest"]}
                bad = C.judge(case, res, exc, lab, gn, ges, c, wmin)
            else:
                bad = judge_big(api, step["allow_forest"], res, exc, lab, gn, ges, glabel, c, wmin)
            why = ("first call on the new objects" if k == 0 and rep == 0 else
                   "the same call repeated on the unchanged objects" if rep else
                   f"after in-place edits {short(step['edits'], 160)} on the same {'list' if api == 'kruskal' else 'dict'} object")
            for obl, d in bad:
                state = {"n_nodes": gn, "edges": [list(e) for e in ges], "allow_forest": step["allow_forest"],
                         "start": step["start"], "repeat": bool(rep)} if len(ges) <= EMBED_LIMIT else None
                out.append((obl, k, f"[history, call #{k + 1}{'b' if rep else ''}: {why}; graph now n={gn} "
                                    f"edges={short(ges, 300)}] {d}", state))
            answers.append(None if res is None else summ(res))
        if answers[0] is not None:
            last = {"api": api, "n": gn, "edges": [list(e) for e in ges], "scheme": scheme,
                    "allow_forest": step["allow_forest"], "start": step["start"], "answer": answers[0]}
    return out, calls, last


def fresh_eval(item):
    """In a NEW interpreter: build equal arguments from scratch, one call, summary of the result."""
    if item["api"] == "kruskal":
        s = KruskalSession(item["n"], item["edges"])
    else:
        s = PrimSession(item["n"], item["edges"], item["scheme"])
    try:
        return summ(s.call(item))
    except Exception as e:  # noqa: BLE001
        return ["exception", repr(e)]


def fresh_process(items):
    if not items:
        return []
    here = os.path.dirname(os.path.dirname(os.path.abspath(__file__)))
    p = subprocess.run([sys.executable, "-m", "checks.C13_round2", "--fresh"], input=json.dumps(items),
                       capture_output=True, text=True, cwd=here, env=dict(os.environ))
    if p.returncode != 0:
        raise RuntimeError("fresh-process helper failed: " + p.stderr[-800:])
    return json.loads(p.stdout)


def work_history(chunk):
    """chunk = ("H", [history specs])"""
    use_repo()
    acc = base().Acc()
    acc.r2 = Counter()
    lasts = []
    for hs in chunk[1]:
        bad, calls, last = run_history(hs)
        acc.evals += calls
        acc.r2["history_sessions"] += 1
        acc.r2["history_calls"] += calls
        acc.keys.add(hash(("H", json.dumps(hs, sort_keys=True))))
        for obl, k, d, state in bad:
            name = f"C13/{hs['api']}/{obl}"
            acc.per_obl[name] += 1
            if acc.per_obl[name] <= 3:
                acc.viol.append((name, {"fn": "history", "history": hs, "upto": k, "input_at_failing_call": state}, d))
        if last is not None and hs["size"] == "small" and hs["idx"] % 8 == 0:
            lasts.append((hs, last))
    d = acc.data()
    d["r2"] = dict(acc.r2)
    d["lasts"] = lasts
    return d


def history_specs(quick, seed):
    out = []
    for api in ("kruskal", "prim"):
        out += [{"api": api, "seed": seed, "idx": i, "size": "small"} for i in range(800 if quick else 6000)]
        out += [{"api": api, "seed": seed, "idx": i, "size": "grow"} for i in range(6 if quick else 40)]
    return out


def replay(rec) -> int:
    use_repo()
    case = rec["case"]
    bad = 0
    if case["fn"] == "history":
        hs = case["history"]
        out, calls, last = run_history(hs, case.get("upto"))
        for obl, k, d, _state in out:
            print(f"  violated C13/{hs['api']}/{obl}: {d[:1500]}")
        bad = len(out)
        if case.get("fresh") and last is not None:
            ans = fresh_process([last])[0]
            print(f"replay: last call here {last['answer']}, fresh process {ans}")
            bad += ans != last["answer"]
        print("replay:", "still violates" if bad else "no violation")
        return 1 if bad else 0
    cases = [case["kruskal"], case["prim"]] if case["fn"] == "both" else [case]
    objs = []
    for cs in cases:
        n, edges, known = ladder_graph(cs["ladder"])
        glabel, c, wmin = big_oracle(n, edges, known)
        res, exc, lab = call_case(cs, n, edges)
        cs.pop("_args", None)
        out = judge_big(cs["fn"], cs.get("allow_forest", False), res, exc, lab, n, edges, glabel, c, wmin)
        print(f"replay {cs['fn']} on ladder graph {cs['ladder']}: n={n} m={len(edges)} components={c} minimum={wmin} -> "
              f"{'exception ' + repr(exc) if exc else (res.status.name, res.objective, short(res.solution, 200))}")
        print(f"  input edge list (first 12 of {len(edges)}, as generated): {edges[:12]} ... last 4: {edges[-4:]}")
        for o, d in out:
            print(f"  violated C13/{cs['fn']}/{o}: {d}")
        bad += len(out)
        if res is not None:
            objs.append(res.objective)
    if case["fn"] == "both" and len(objs) == 2 and objs[0] != objs[1]:
        print(f"  violated C13/kruskal+prim/ensures:agree-on-total-weight: {objs}")
        bad += 1
    print("replay:", "still violates" if bad else "no violation")
    return 1 if bad else 0


if __name__ == "__main__":
    if sys.argv[1:] == ["--fresh"]:
        use_repo()
        print(json.dumps([fresh_eval(it) for it in json.load(sys.stdin)]))

"""C20 - UnionFind and FenwickTree behave like their reference models.

Deductive part: every method of both classes under contract (specs/data_structures.py), obligations
generated from /repo's current source and discharged by z3 (bit lemmas at BV64).
Bounded part (cross-check only, never counted as proved): model-based runs of operation histories.
"""
from __future__ import annotations

import itertools
import random

from vf.core import Ctx, use_repo

LEVEL = "proof"
SPEC_MODULES = ["specs.data_structures"]


def proved_keys():
    from pyvc.spec import REG
    import specs.data_structures  # noqa
    return [k for k, s in REG.fns.items() if s.prop == "C20"]


# ------------------------------------------------------------------ bounded: reference models
class Partition:
    def __init__(self, n):
        self.label = list(range(n))

    def union(self, a, b):
        la, lb = self.label[a], self.label[b]
        if la == lb:
            return False
        self.label = [la if x == lb else x for x in self.label]
        return True

    def classes(self):
        d = {}
        for i, l in enumerate(self.label):
            d.setdefault(l, set()).add(i)
        return sorted(map(sorted, d.values()))


def observe_uf(uf, ref, n, where, bad):
    for a in range(n):
        for b in range(n):
            if uf.connected(a, b) != (ref.label[a] == ref.label[b]):
                bad.append((where, f"connected({a},{b}) = {uf.connected(a, b)}"))
                return
    for a in range(n):
        if ref.label[uf.find(a)] != ref.label[a]:
            bad.append((where, f"find({a}) = {uf.find(a)} is outside the class of {a}"))
            return
        if uf.find(uf.find(a)) != uf.find(a):
            bad.append((where, f"find not idempotent at {a}"))
            return
    cl = ref.classes()
    if uf.component_count != len(cl):
        bad.append((where, f"component_count = {uf.component_count}, model {len(cl)}"))
    elif sorted(uf.component_sizes()) != sorted(len(c) for c in cl):
        bad.append((where, f"component_sizes = {uf.component_sizes()}"))
    elif sorted(sorted(c) for c in uf.get_components()) != cl:
        bad.append((where, f"get_components = {uf.get_components()}, model {cl}"))
    elif len(uf) != n:
        bad.append((where, f"len = {len(uf)}"))


def run_uf_history(n, hist):
    from solvor.utils.data_structures import UnionFind
    uf, ref = UnionFind(n), Partition(n)
    bad = []
    merged = False
    for step, op in enumerate(hist):
        if op[0] == "u":
            r, e = uf.union(op[1], op[2]), ref.union(op[1], op[2])
            merged |= e
            if r != e:
                bad.append((step, f"union({op[1]},{op[2]}) returned {r}, model {e}"))
                break
        elif op[0] == "f":
            uf.find(op[1])
        elif op[0] == "c":
            uf.connected(op[1], op[2])
        observe_uf(uf, ref, n, step, bad)
        if bad:
            break
    return bad, merged


def run_uf_big(n, kind):
    """adversarial union orders on n elements; every answer is checked against a label array"""
    from solvor.utils.data_structures import UnionFind
    uf = UnionFind(n)
    label = list(range(n))
    members = {i: [i] for i in range(n)}

    def model_union(a, b):
        la, lb = label[a], label[b]
        if la == lb:
            return False
        if len(members[la]) < len(members[lb]):
            la, lb = lb, la
        for x in members[lb]:
            label[x] = la
        members[la].extend(members.pop(lb))
        return True

    bad = []
    try:
        if kind == "caterpillar":
            # each brand-new element (given first) is joined to a rank-0 child of the current root
            uf.union(0, 1); model_union(0, 1)
            leaf = 1
            for x in range(2, n):
                r = uf.union(x, leaf)
                if r != model_union(x, leaf):
                    bad.append(f"union({x},{leaf}) returned {r}")
                    break
                leaf = x if x % 2 == 0 else leaf
        elif kind == "chain-first-arg":
            for x in range(1, n):
                if uf.union(x, x - 1) != model_union(x, x - 1):
                    bad.append(f"union({x},{x - 1})")
                    break
        elif kind == "chain-second-arg":
            for x in range(1, n):
                if uf.union(x - 1, x) != model_union(x - 1, x):
                    bad.append(f"union({x - 1},{x})")
                    break
        else:
            for x in range(0, n - 1, 2):
                uf.union(x, x + 1); model_union(x, x + 1)
            for x in range(0, n - 2, 2):
                if uf.union(x + 1, x + 3 if x + 3 < n else x + 2) != model_union(x + 1, x + 3 if x + 3 < n else x + 2):
                    bad.append(f"merge step at {x}")
                    break
        for a in (1, 0, n - 1, n // 2, 2, 3):
            if label[uf.find(a)] != label[a]:
                bad.append(f"find({a}) outside its class")
        if uf.connected(1, n - 1) != (label[1] == label[n - 1]):
            bad.append("connected(1, n-1) wrong")
        if uf.component_count != len(members):
            bad.append(f"component_count {uf.component_count}, model {len(members)}")
    except RecursionError as e:
        bad.append(f"RecursionError on a history of {n} elements ({kind}): no answer")
    except Exception as e:  # noqa
        bad.append(f"raised {e!r}")
    return bad


def run_ft_history(init, hist, exact=False):
    from solvor.utils.data_structures import FenwickTree
    ft = FenwickTree(list(init) if not isinstance(init, int) else init)
    arr = [0] * init if isinstance(init, int) else list(init)
    n = len(arr)
    bad = []

    def obs(where):
        if len(ft) != n:
            bad.append((where, f"len {len(ft)}"))
            return
        for i in range(n):
            if ft.prefix(i) != sum(arr[: i + 1]):
                bad.append((where, f"prefix({i}) = {ft.prefix(i)}, model {sum(arr[:i + 1])}"))
                return
        if n and ft.prefix(-1) != 0:
            bad.append((where, "prefix(-1) != 0"))
        for l in range(n):
            for r in range(l, n):
                if ft.range_sum(l, r) != sum(arr[l: r + 1]):
                    bad.append((where, f"range_sum({l},{r}) = {ft.range_sum(l, r)}, model {sum(arr[l:r + 1])}"))
                    return

    obs("init")
    for step, (op, i, d) in enumerate(hist):
        if bad:
            break
        if op == "q":  # interleaved query (must not change later answers)
            ft.prefix(i)
            if n:
                ft.range_sum(min(i, d) % n, max(i, d) % n)
        else:
            ft.update(i, d)
            arr[i] += d
        obs(step)
    return bad


def bounded(ctx: Ctx):
    rng = random.Random(ctx.seed)
    n_eval = 0
    nontriv = set()
    samples = []
    # --- UnionFind exhaustive histories
    n = 3
    ops = [("u", a, b) for a in range(n) for b in range(n)] + [("f", a) for a in range(n)]
    L = 3 if ctx.quick else 5
    for ln in range(1, L + 1):
        for hist in itertools.product(ops, repeat=ln):
            bad, merged = run_uf_history(n, hist)
            n_eval += 1
            if merged:
                nontriv.add(("uf", n, hist))
            for b in bad:
                ctx.violation("C20/UnionFind/history-vs-partition-model", {"kind": "uf", "n": n, "history": [list(o) for o in hist]},
                              f"step {b[0]}: {b[1]}")
    ctx.scope("UnionFind exhaustive", n=n, max_len=L, ops=len(ops), exhaustive=True)
    # --- UnionFind random longer histories
    R = 600 if ctx.quick else 60000
    for _ in range(R):
        n = rng.randint(2, 12)
        hist = []
        for _ in range(rng.randint(3, 24)):
            k = rng.random()
            if k < 0.6:
                hist.append(("u", rng.randrange(n), rng.randrange(n)))
            elif k < 0.8:
                hist.append(("f", rng.randrange(n)))
            else:
                hist.append(("c", rng.randrange(n), rng.randrange(n)))
        bad, merged = run_uf_history(n, hist)
        n_eval += 1
        if merged:
            nontriv.add(("uf", n, tuple(hist)))
        if len(samples) < 2:
            samples.append({"kind": "uf", "n": n, "history": [list(o) for o in hist]})
        for b in bad:
            ctx.violation("C20/UnionFind/history-vs-partition-model", {"kind": "uf", "n": n, "history": [list(o) for o in hist]},
                          f"step {b[0]}: {b[1]}")
    ctx.scope("UnionFind random", runs=R, n="2..12", len="3..24")
    # --- Fenwick exhaustive
    vals = (0, 1, -2)
    deltas = (-1, 1, 2)
    for n in range(0, 4):
        for init in itertools.product(vals, repeat=n):
            upd = [("u", i, d) for i in range(n) for d in deltas] + ([("q", i, j) for i in range(n) for j in range(n)] if n else [])
            for ln in range(0, (2 if ctx.quick else 3) + 1):
                if ln and not upd:
                    continue
                for hist in itertools.product(upd, repeat=ln):
                    bad = run_ft_history(init, hist)
                    n_eval += 1
                    if any(h[0] == "u" for h in hist):
                        nontriv.add(("ft", init, hist))
                    for b in bad:
                        ctx.violation("C20/FenwickTree/history-vs-array-model",
                                      {"kind": "ft", "init": list(init), "history": [list(h) for h in hist]}, f"step {b[0]}: {b[1]}")
    ctx.scope("FenwickTree exhaustive", n="0..3", init_values=vals, deltas=deltas, max_len=2 if ctx.quick else 3, exhaustive=True)
    # --- Fenwick random, sizes that exercise many bit patterns, both constructors
    R = 400 if ctx.quick else 40000
    for r in range(R):
        n = rng.randint(0, 70)
        init = n if r % 3 == 0 else [rng.randint(-5, 5) for _ in range(n)]
        hist = []
        for _ in range(rng.randint(1, 12) if n else 0):
            if rng.random() < 0.3:
                hist.append(("q", rng.randrange(n), rng.randrange(n)))
            else:
                hist.append(("u", rng.randrange(n), rng.randint(-4, 4)))
        bad = run_ft_history(init, hist)
        n_eval += 1
        if any(h[0] == "u" for h in hist):
            nontriv.add(("ft", str(init), tuple(hist)))
        if len(samples) < 4:
            samples.append({"kind": "ft", "init": init, "history": [list(h) for h in hist]})
        for b in bad:
            ctx.violation("C20/FenwickTree/history-vs-array-model",
                          {"kind": "ft", "init": init, "history": [list(h) for h in hist]}, f"step {b[0]}: {b[1]}")
    ctx.scope("FenwickTree random", runs=R, n="0..70")
    # --- size ladder: adversarial union orders on thousands of elements (deep trees if balancing or compression
    #     is lost: find must still answer), long random histories on big structures
    for n, kind in ((2200, "caterpillar"), (2600, "chain-first-arg"), (3000, "chain-second-arg"), (1500, "pairs-then-merge")):
        bad = run_uf_big(n, kind)
        n_eval += 1
        nontriv.add(("uf-big", n, kind))
        for b in bad:
            ctx.violation("C20/UnionFind/history-vs-partition-model", {"kind": "uf-big", "n": n, "order": kind}, b)
    ctx.scope("UnionFind size ladder", sizes=[2200, 2600, 3000, 1500], orders=["caterpillar", "chain-first-arg", "chain-second-arg", "pairs-then-merge"])
    # --- fine-grained deltas: multiples of 2**-60 (exactly representable, sums exact), oracle in Fractions
    from fractions import Fraction
    unit = 2.0 ** -60
    for r in range(60 if ctx.quick else 600):
        n = rng.randint(1, 40)
        init = [rng.randint(-8, 8) * unit for _ in range(n)] if r % 2 else n
        hist = [("u", rng.randrange(n), rng.choice([1, -1, 2, 4, 1024, 3]) * unit) for _ in range(rng.randint(1, 10))]
        bad = run_ft_history(init, hist, exact=True)
        n_eval += 1
        nontriv.add(("ft-tiny", str(init), tuple(hist)))
        for b in bad:
            ctx.violation("C20/FenwickTree/history-vs-array-model", {"kind": "ft", "init": init, "history": [list(h) for h in hist], "exact": True},
                          f"step {b[0]}: {b[1]}")
    ctx.scope("FenwickTree tiny deltas (multiples of 2**-60)", runs=60 if ctx.quick else 600)
    ctx.count(n_eval, {repr(x) for x in nontriv}, samples)


def run(ctx: Ctx):
    from pyvc.run import prove_functions
    use_repo()
    keys = proved_keys()
    rep = prove_functions(SPEC_MODULES, keys, tier=ctx.tier, lemma_groups=("fenwick", "uf"))
    ctx.add_proof_report(rep)
    ctx.notes["hygiene"] = rep["hygiene"]
    # engine self-test: crafted functions the prover must refuse or fail to prove (aliasing lint, write sets)
    import sys as _sys
    _sys.path.insert(0, __import__("os").path.join(__import__("vf.core", fromlist=["VERIF"]).VERIF, "tools"))
    import selftest_engine
    bad = selftest_engine.run()
    ctx.notes["engine_selftest"] = bad or "ok: 3 aliasing functions refused, copy proved, 2 false contracts not proved"
    for b in bad:
        ctx.defects.append("engine self-test: " + b)
    bounded(ctx)
    ctx.rule = ("proof: one obligation per ensures-conjunct / invariant / bounds / frame / call-precondition of every "
                "contract listed in functions_under_contract. bounded cross-check: operation histories against a naive "
                "partition / plain list; non-trivial = history with at least one merging union (resp. one update); "
                "distinct = different (size, initial values, history)")
    ctx.assumptions += [
        "A1 Python int is mathematical (faithful)",
        "A2 FenwickTree element values are mathematical reals: 'exactly as a plain array' holds for integer data and in the real model; float rounding order is not modelled",
        "A9 up(i)=i|(i+1), lo(i)=i&(i+1): Int-level facts are the BV64 lemmas, valid for 0 <= i < 2^62 (longer lists cannot exist)",
        "M0 refinement meta-theorem: constructor establishes the invariant, every method preserves it and commutes with the model operation => all finite histories (standard; not machine-checked)",
        "value semantics for lists (no aliasing between the fields of one object; __slots__ fields are only assigned in __init__)",
        "termination of loops/recursion is proved where a `decreases` is given (find, update, prefix); otherwise partial correctness",
    ]


def replay(rec):
    use_repo()
    case = rec.get("case") or {}
    if rec.get("kind") == "proof-obligation":
        from pyvc.concrete import replay as rp
        import specs.data_structures  # noqa
        name = rec["obligation"]
        key = name.split("/", 1)[1].rsplit("/", 1)[0]
        key = key.split("{")[0]
        out = rp(key, case)
        print(out)
        return 1 if out.get("confirmed") else 0
    if case.get("kind") == "uf-big":
        bad = run_uf_big(case["n"], case["order"])
    elif case.get("kind") == "uf":
        bad, _ = run_uf_history(case["n"], [tuple(o) for o in case["history"]])
    else:
        init = case["init"]
        bad = run_ft_history(init, [tuple(h) for h in case["history"]])
    print("replay:", bad or "no violation")
    return 1 if bad else 0

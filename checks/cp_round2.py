"""Round-2 families shared by C05 and C06 (beyond the small scope of cp_common.gen_models):

* size ladder: structured models with 10 .. 1000+ variables whose verdict comes from a cheap certifying oracle - a planted
  solution (checked directly with cp_sem.violated), a matching / parity certificate, block structure - never brute force;
* direct probes: full assignments of the named variables with a known status (permutations of every cycle type offered
  to circuit, duplicate pairs offered to all_different, overloads offered to cumulative ...); C05 offers them as hints,
  C06 asks an independent solver (z3) whether captured CNF + assignment is satisfiable;
* history mode: one Model object solved, extended with int_var / add, solved again ...; every answer judged against brute
  force for the model as it is at that call, against a freshly built model, and against a fresh process;
* long runs: instances that need thousands of conflicts / many stored solutions.
"""
from __future__ import annotations

import json
import os
import random
import signal
import subprocess
import sys

from checks import cp_common as C
from oracles import cp_sem
from vf.core import use_repo

V, K = C.V, C.K


class CpuTimeout(Exception):
    pass


def _vt(s, f):
    raise CpuTimeout()


class cpu_guard:
    """per-call guard on CPU time (a wall-clock alarm fires spuriously when the box is loaded)"""

    def __init__(self, seconds):
        self.seconds = seconds

    def __enter__(self):
        signal.signal(signal.SIGVTALRM, _vt)
        signal.setitimer(signal.ITIMER_VIRTUAL, self.seconds)

    def __exit__(self, *a):
        signal.setitimer(signal.ITIMER_VIRTUAL, 0)
        return False


# =========================================================================================== generators
def partitions(n, maxpart=None):
    if n == 0:
        yield []
        return
    for p in range(min(n, maxpart or n), 0, -1):
        for rest in partitions(n - p, p):
            yield [p] + rest


def perm_of_type(parts, rng):
    n = sum(parts)
    nodes = list(range(n))
    rng.shuffle(nodes)
    succ = [None] * n
    k = 0
    for p in parts:
        cyc = nodes[k:k + p]
        k += p
        for q, i in enumerate(cyc):
            succ[i] = cyc[(q + 1) % p]
    return succ


def in_box(desc, a):
    return all(lb <= a[n] <= ub for n, lb, ub in desc["vars"])


def _rec(family, size, desc, planted, probes, solvers, **kw):
    probes = [p for p in probes if in_box(desc, p)]
    seen, uniq = set(), []
    for p in probes:
        k = tuple(p[v[0]] for v in desc["vars"])
        if k not in seen:
            seen.add(k)
            uniq.append(p)
    if planted is not None:
        assert not cp_sem.violated(desc, planted), (family, size, cp_sem.violated(desc, planted)[:2])
    d = {"family": family, "size": size, "desc": desc, "planted": planted, "probes": uniq, "solvers": solvers}
    d.update(kw)
    return d


def g_alldiff(n, shape, rng):
    names = [f"x{i}" for i in range(n)]
    off = rng.choice([0, 0, 1, -3, 20])
    cons = []
    if shape == "full":
        doms = [(off, off + n - 1)] * n
    elif shape == "wide":
        doms = [(off, off + n)] * n
    elif shape in ("staircase", "staircase-blocked", "staircase-pinned"):
        doms = [(off, off + i) for i in range(n)]
    elif shape == "window":
        doms = [(off + max(0, i - 2), off + min(n - 1, i + 3)) for i in range(n)]
    elif shape == "two-level":  # half of the variables share a low range, all share the high range
        doms = [(off, off + n - 1) if i % 2 else (off + n // 2 - 1, off + n - 1) for i in range(n)]
        doms[0] = (off, off + n - 1)
    else:
        raise ValueError(shape)
    decl = list(zip(names, doms))
    order = names[:]
    if rng.random() < 0.7:
        rng.shuffle(order)  # position in the all_different list is independent of the staircase rank
    vars_ = [[nm, lb, ub] for nm, (lb, ub) in decl]
    cons.append(["all_different", order])
    eff = {nm: set(range(lb, ub + 1)) for nm, (lb, ub) in decl}
    if shape == "staircase-blocked":
        cons.append(["rel", "!=", V(names[-1]), K(off + n - 1)])
        eff[names[-1]].discard(off + n - 1)
    if shape == "staircase-pinned":
        j = rng.randrange(1, n)
        cons.append(["rel", "==", V(names[j]), K(off + j)])
        eff[names[j]] = {off + j}
    desc = {"vars": vars_, "constraints": cons}
    size, match = cp_sem.max_matching([sorted(eff[nm]) for nm in names])
    planted = {names[i]: match[i] for i in range(n)} if size == n else None
    probes = []
    base = planted
    if base is None:  # infeasible by Hall's theorem: probes are built on a matching of the unrestricted domains
        _, m2 = cp_sem.max_matching([list(range(lb, ub + 1)) for _, (lb, ub) in decl])
        base = {names[i]: m2.get(i, decl[i][1][0]) for i in range(n)}
    probes.append(dict(base))
    dom = dict(decl)
    if planted:  # other solutions: two variables exchange their values where the domains allow it
        for _ in range(40):
            i, j = rng.sample(names, 2)
            if dom[i][0] <= planted[j] <= dom[i][1] and dom[j][0] <= planted[i] <= dom[j][1] and len(probes) < 13:
                a = dict(planted)
                a[i], a[j] = planted[j], planted[i]
                probes.append(a)
    # one duplicate per variable (in list order, last first), then every ordered pair
    pairs = []
    for j in reversed(order):
        cand = [i for i in names if i != j and dom[j][0] <= base[i] <= dom[j][1]]
        if cand:
            pairs.append((rng.choice(cand), j))
    allp = [(i, j) for i in names for j in names if i != j and dom[j][0] <= base[i] <= dom[j][1]]
    rng.shuffle(allp)
    for i, j in pairs + allp[: 700]:
        a = dict(base)
        a[j] = base[i]
        probes.append(a)
    return _rec(f"alldiff-{shape}", n, desc, planted, probes, ["sat", "dfs"] if n <= 40 else ["sat"],
                cert=None if planted else "Hall: maximum matching variable->value smaller than the number of variables")


def g_circuit(n, shape, rng, n_types=None):
    names = [f"s{i}" for i in range(n)]
    ham = perm_of_type([n], rng)
    vars_ = []
    for i, nm in enumerate(names):
        if shape == "full":
            lb, ub = 0, n - 1
        else:  # arbitrary successor domains that still contain the planted cycle
            lb = min(ham[i], rng.choice([0, 0, 1, 2]))
            ub = max(ham[i], rng.choice([n - 1, n - 1, n, n - 2, n + 1]))
        vars_.append([nm, lb, ub])
    desc = {"vars": vars_, "constraints": [["circuit", names]]}
    as_a = lambda succ: {names[i]: succ[i] for i in range(n)}
    probes = [as_a(ham)]
    for _ in range(4):
        probes.append(as_a(perm_of_type([n], rng)))
    for k in range(1, n // 2 + 1):  # exactly two cycles (k = 1: a self loop)
        for _ in range(3):
            probes.append(as_a(perm_of_type([n - k, k], rng)))
    types = [p for p in partitions(n) if len(p) > 1]
    if n_types is not None and len(types) > n_types:
        types = rng.sample(types, n_types)
    for p in types:
        probes.append(as_a(perm_of_type(p, rng)))
    for _ in range(6):  # not a permutation: one successor duplicated
        s = list(ham)
        i, j = rng.sample(range(n), 2)
        s[j] = s[i]
        probes.append(as_a(s))
    return _rec(f"circuit-{shape}", n, desc, as_a(ham), probes, ["sat"])


def g_cumulative(n, rng, windows):
    names = [f"c{i}" for i in range(n)]
    durs = [rng.randint(1, 3) for _ in range(n)]
    dems = [rng.randint(1, 3) for _ in range(n)]
    cap = rng.randint(3, 5)
    rel = [(i // 3) * 3 if windows else 0 for i in range(n)]  # release times of the list schedule
    # planted: list scheduling (earliest start >= release where the load allows it)
    load = {}
    start = []
    for i in range(n):
        t = rel[i] if not start or not windows else max(rel[i], start[-1] - 1)
        while any(load.get(u, 0) + dems[i] > cap for u in range(t, t + durs[i])):
            t += 1
        for u in range(t, t + durs[i]):
            load[u] = load.get(u, 0) + dems[i]
        start.append(t)
    if windows:  # start windows around the planted schedule: few tasks can be active at any one time point
        lbs = [max(0, start[i] - rng.choice([0, 1, 2, 3])) for i in range(n)]
        ubs = [start[i] + rng.choice([0, 1, 2, 3]) for i in range(n)]
    else:
        lbs = [0] * n
        H = max(start) + rng.choice([0, 1, 2])
        ubs = [H] * n
    vars_ = [[names[i], lbs[i], ubs[i]] for i in range(n)]
    desc = {"vars": vars_, "constraints": [["cumulative", names, durs, dems, cap]]}
    planted = dict(zip(names, start))
    probes = [dict(planted)]
    for _ in range(25):
        probes.append({names[i]: rng.randint(lbs[i], ubs[i]) for i in range(n)})
    for _ in range(25):  # the planted schedule with a few tasks pulled onto one time point
        a = dict(planted)
        t = rng.choice(start)
        for i in rng.sample(range(n), rng.randint(2, min(5, n))):
            a[names[i]] = min(max(t, lbs[i]), ubs[i])
        probes.append(a)
    for _ in range(40):  # and single moves (many of them are other valid schedules)
        a = dict(planted)
        i = rng.randrange(n)
        a[names[i]] = rng.randint(lbs[i], ubs[i]) if rng.random() < 0.4 else min(ubs[i], max(lbs[i], start[i] + rng.choice([-1, 1])))
        probes.append(a)
    return _rec("cumulative-windows" if windows else "cumulative-many", n, desc, planted, probes, ["sat"])


def g_no_overlap(n, rng):
    names = [f"t{i}" for i in range(n)]
    durs = [rng.choice([1, 1, 2, 2, 3, 0]) for _ in range(n)]
    order = list(range(n))
    rng.shuffle(order)
    t = 0
    start = [0] * n
    for i in order:
        t += rng.choice([0, 0, 1])
        start[i] = t
        t += durs[i]
    H = t + rng.choice([0, 1])
    desc = {"vars": [[nm, 0, H] for nm in names], "constraints": [["no_overlap", names, durs]]}
    planted = dict(zip(names, start))
    probes = [dict(planted)]
    for _ in range(20):
        a = dict(planted)
        i, j = rng.sample(range(n), 2)
        a[names[i]], a[names[j]] = a[names[j]], a[names[i]]
        probes.append(a)
    for _ in range(15):
        a = dict(planted)
        i = rng.randrange(n)
        a[names[i]] = rng.randint(0, H)
        probes.append(a)
    for _ in range(10):
        probes.append({nm: rng.randint(0, H) for nm in names})
    return _rec("no_overlap-many", n, desc, planted, probes, ["sat"])


def g_sum(n, kind, rng, wide=False):
    names = [f"t{i}" for i in range(n)]
    pool = [(0, 1)] if n > 20 else [(0, 2), (0, 3), (-1, 2), (1, 3), (0, 1)]
    if wide:  # few variables, large domains: long partial-sum auxiliaries
        pool = [(0, 12), (5, 30), (-10, 10), (0, 40), (100, 120)]
    vars_ = [[nm, *rng.choice(pool)] for nm in names]
    planted = {nm: rng.randint(lb, ub) for nm, lb, ub in vars_}
    s = sum(planted.values())
    slack = rng.choice([0, 0, 1, 2])
    target = s if kind == "sum_eq" else s + slack if kind == "sum_le" else s - slack
    order = names[:]
    rng.shuffle(order)
    desc = {"vars": vars_, "constraints": [[kind, order, target]]}
    probes = [dict(planted)]
    for _ in range(30):  # random walks from the planted point: small changes of the sum
        a = dict(planted)
        for _ in range(rng.randint(1, 4)):
            nm, lb, ub = rng.choice(vars_)
            a[nm] = min(ub, max(lb, a[nm] + rng.choice([-1, 1])))
        probes.append(a)
    for _ in range(10):
        probes.append({nm: rng.randint(lb, ub) for nm, lb, ub in vars_})
    probes.append({nm: lb for nm, lb, ub in vars_})
    probes.append({nm: ub for nm, lb, ub in vars_})
    return _rec(f"{kind}-wide-domains" if wide else f"{kind}-long", n, desc, planted, probes, ["sat"])


def g_linear(n, op, rng):
    """one relation between two linear expressions with n variables in total, built from every operator"""
    names = [f"v{i}" for i in range(n)]
    vars_ = [[nm, *rng.choice([(0, 2), (0, 3), (-1, 1), (1, 3)])] for nm in names]
    coef = {nm: rng.choice([1, 1, 1, 2, -1, 3, -2]) for nm in names}

    def term(nm):
        c = coef[nm]
        if c == 1:
            return V(nm), 1
        if c == -1:
            return V(nm), -1
        return (["mul", V(nm), abs(c)] if rng.random() < 0.5 else ["rmul", abs(c), V(nm)]), (1 if c > 0 else -1)

    def side(ns):
        e = None
        for nm in ns:
            t, sg = term(nm)
            if e is None:
                e = t if sg > 0 else ["rmul", -1, t]
            elif sg > 0:
                e = ["add", e, t]
            else:  # the public operators offer  variable - anything  and  expression - expression / constant
                e = ["sub", e, t if (e[0] == "var" or t[0] != "var") else ["mul", t, 1]]
        return e

    k = rng.choice([n, n, n - 1, n - 2]) if n > 3 else n
    left, right = names[:k], names[k:]
    planted = {nm: rng.randint(lb, ub) for nm, lb, ub in vars_}
    lv = sum(coef[nm] * planted[nm] for nm in left)
    rv = sum(coef[nm] * planted[nm] for nm in right)
    le = side(left)
    if right:
        c = lv - rv
        re = ["add", side(right), K(c)] if rng.random() < 0.6 else ["sub", side(right), K(-c)]
    else:
        re = K(lv)
    if op == "!=":  # make the planted point a solution of the disequality
        re = ["add", re, K(rng.choice([1, -1, 2]))]
    desc = {"vars": vars_, "constraints": [["rel", op, le, re] if rng.random() < 0.7 else ["rel", op, re, le]]}
    probes = [dict(planted)]
    for _ in range(30):
        a = dict(planted)
        for _ in range(rng.randint(1, 3)):
            nm, lb, ub = rng.choice(vars_)
            a[nm] = rng.randint(lb, ub)
        probes.append(a)
    for _ in range(10):
        probes.append({nm: rng.randint(lb, ub) for nm, lb, ub in vars_})
    return _rec(f"linear{op}-long", n, desc, planted, probes, ["sat", "dfs"] if n <= 8 else ["sat"])


def rename_expr(e, f):
    if e[0] == "var":
        return ["var", f(e[1])]
    if e[0] == "const":
        return e
    if e[0] in ("add", "sub"):
        return [e[0], rename_expr(e[1], f), rename_expr(e[2], f)]
    if e[0] == "mul":
        return ["mul", rename_expr(e[1], f), e[2]]
    return ["rmul", e[1], rename_expr(e[2], f)]


def rename_desc(desc, f):
    cons = []
    for c in desc["constraints"]:
        if c[0] == "rel":
            cons.append(["rel", c[1], rename_expr(c[2], f), rename_expr(c[3], f)])
        else:
            cons.append([c[0], [f(n) for n in c[1]]] + list(c[2:]))
    return {"vars": [[f(n), lb, ub] for n, lb, ub in desc["vars"]], "constraints": cons}


_BLOCK_POOL = {}


def block_pool(pure):
    """small models (2..4 variables) with their brute-force solution sets: the blocks of the block-structured family"""
    if pure not in _BLOCK_POOL:
        out = []
        for d in C.gen_models(12345, True):
            if d["family"] not in ("pair", "global", "rel") or len(d["vars"]) < 2:
                continue
            kinds = {c[0] for c in d["constraints"]}
            if pure and not kinds <= {"rel", "all_different"}:
                continue
            desc = {"vars": d["vars"], "constraints": d["constraints"]}
            try:  # only shapes the public operators can express
                cp_sem.build_model(desc)
            except cp_sem.NotBuildable:
                continue
            sols = cp_sem.all_solutions(desc)
            box = 1
            for _, lb, ub in desc["vars"]:
                box *= ub - lb + 1
            if len(sols) == box:
                continue
            out.append((desc, sols))
        rng = random.Random(7)
        rng.shuffle(out)
        _BLOCK_POOL[pure] = out
    return _BLOCK_POOL[pure]


def g_blocks(k, rng, pure, infeasible_block=False):
    pool = block_pool(pure)
    feas = [b for b in pool if b[1]]
    infe = [b for b in pool if not b[1]]
    chosen = [rng.choice(feas) for _ in range(k)]
    if infeasible_block and infe:
        chosen[rng.randrange(k)] = rng.choice(infe)
    vars_, cons, planted, feasible = [], [], {}, True
    parts = []
    for j, (d, sols) in enumerate(chosen):
        f = lambda n, j=j: f"b{j}_{n}"
        rd = rename_desc(d, f)
        vars_ += rd["vars"]
        cons += rd["constraints"]
        parts.append((rd, [{f(n): v for n, v in s.items()} for s in sols]))
        if sols:
            planted.update({f(n): v for n, v in rng.choice(sols).items()})
        else:
            feasible = False
            planted.update({n: lb for n, lb, ub in rd["vars"]})
    desc = {"vars": vars_, "constraints": cons}
    probes = [dict(planted)]
    for _ in range(12):  # another combination of block solutions
        a = dict(planted)
        for rd, sols in rng.sample(parts, min(len(parts), 5)):
            if sols:
                a.update(rng.choice(sols))
        probes.append(a)
    for _ in range(25):  # one block replaced by a non-solution of that block
        a = dict(planted)
        rd, sols = rng.choice(parts)
        a.update({n: rng.randint(lb, ub) for n, lb, ub in rd["vars"]})
        probes.append(a)
    nv = len(vars_)
    return _rec("blocks-pure" if pure else "blocks-mixed", nv, desc, planted if feasible else None, probes,
                (["sat", "dfs"] if nv <= 140 else ["sat"]) if pure else ["sat"],
                cert=None if feasible else "one block has no solution (brute force on the block)")


def g_latin(n, rng, givens):
    sym = list(range(n))
    rng.shuffle(sym)
    rows, cols = list(range(n)), list(range(n))
    rng.shuffle(rows)
    rng.shuffle(cols)
    off = rng.choice([0, 1])
    cell = lambda r, c: f"q{r}_{c}"
    planted = {cell(r, c): off + sym[(rows[r] + cols[c]) % n] for r in range(n) for c in range(n)}
    vars_ = [[cell(r, c), off, off + n - 1] for r in range(n) for c in range(n)]
    cons = [["all_different", [cell(r, c) for c in range(n)]] for r in range(n)]
    cons += [["all_different", [cell(r, c) for r in range(n)]] for c in range(n)]
    for nm in rng.sample(sorted(planted), int(givens * n * n)):
        cons.append(["rel", "==", V(nm), K(planted[nm])] if rng.random() < 0.5 else ["rel", "==", K(planted[nm]), V(nm)])
    desc = {"vars": vars_, "constraints": cons}
    probes = [dict(planted)]
    for _ in range(20):
        a = dict(planted)
        r = rng.randrange(n)
        c1, c2 = rng.sample(range(n), 2)
        a[cell(r, c1)], a[cell(r, c2)] = a[cell(r, c2)], a[cell(r, c1)]
        probes.append(a)
    for _ in range(10):
        a = dict(planted)
        a[rng.choice(sorted(a))] = off + rng.randrange(n)
        probes.append(a)
    return _rec("latin", n * n, desc, planted, probes, ["sat", "dfs"])


def _queens_solution(n, rng):
    cols = [None] * n

    def rec(r, used, d1, d2):
        if r == n:
            return True
        cand = list(range(n))
        rng.shuffle(cand)
        for c in cand:
            if c in used or r + c in d1 or r - c in d2:
                continue
            cols[r] = c
            if rec(r + 1, used | {c}, d1 | {r + c}, d2 | {r - c}):
                return True
        return False

    rec(0, frozenset(), frozenset(), frozenset())
    return cols


def g_queens(n, rng):
    names = [f"r{i}" for i in range(n)]
    cons = [["all_different", names]]
    for i in range(n):
        for j in range(i + 1, n):
            cons.append(["rel", "!=", ["add", V(names[i]), K(i)], ["add", V(names[j]), K(j)]])
            cons.append(["rel", "!=", ["sub", V(names[i]), K(i)], ["sub", V(names[j]), K(j)]])
    desc = {"vars": [[nm, 0, n - 1] for nm in names], "constraints": cons}
    sol = _queens_solution(n, rng)
    planted = dict(zip(names, sol))
    probes = [dict(planted)]
    for _ in range(3):
        probes.append(dict(zip(names, _queens_solution(n, rng))))
    for _ in range(20):
        a = dict(planted)
        i, j = rng.sample(range(n), 2)
        a[names[i]], a[names[j]] = a[names[j]], a[names[i]]
        probes.append(a)
    for _ in range(10):
        a = dict(planted)
        i, j = rng.sample(range(n), 2)
        a[names[j]] = a[names[i]]
        probes.append(a)
    return _rec("queens", n, desc, planted, probes, ["sat", "dfs"] if n <= 12 else ["sat"])


def g_chain(n, rng):
    base = rng.choice([0, -5, 100])
    names = [f"k{i}" for i in range(n)]
    vars_ = [[names[i], base + i, base + i + 3] for i in range(n)]
    cons = []
    for i in range(n - 1):
        a, b = V(names[i]), V(names[i + 1])
        cons.append(rng.choice([["rel", "==", b, ["add", a, K(1)]], ["rel", "==", ["sub", b, a], K(1)],
                                ["rel", "==", ["add", a, K(1)], b], ["rel", "==", ["sub", b, K(1)], a]]))
    desc = {"vars": vars_, "constraints": cons}
    s = rng.randint(0, 3)
    planted = {names[i]: base + i + s for i in range(n)}
    probes = [{names[i]: base + i + t for i in range(n)} for t in range(4)]
    for _ in range(12):
        a = dict(planted)
        i = rng.randrange(n)
        a[names[i]] = base + i + rng.randint(0, 3)
        probes.append(a)
    for _ in range(6):  # a shift in the middle of the chain
        j = rng.randrange(1, n)
        t = (s + 1) % 4
        probes.append({names[i]: base + i + (s if i < j else t) for i in range(n)})
    return _rec("eq-chain", n, desc, planted, probes, ["sat", "dfs"] if n <= 140 else ["sat"])


def g_ne_cycle(n, colours, rng):
    names = [f"e{i}" for i in range(n)]
    cons = []
    for i in range(n):
        a, b = V(names[i]), V(names[(i + 1) % n])
        cons.append(rng.choice([["rel", "!=", a, b], ["rel", "!=", ["sub", a, b], K(0)], ["rel", "!=", ["add", a, K(1)], ["add", b, K(1)]]]))
    desc = {"vars": [[nm, 0, colours - 1] for nm in names], "constraints": cons}
    feasible = colours >= 3 or n % 2 == 0
    planted = None
    if feasible:
        planted = {names[i]: i % 2 for i in range(n)}
        if n % 2:
            planted[names[-1]] = 2
    base = {names[i]: i % 2 for i in range(n)}
    probes = [dict(base)]
    for _ in range(12):
        a = dict(planted or base)
        i = rng.randrange(n)
        a[names[i]] = rng.randrange(colours)
        probes.append(a)
    return _rec(f"ne-cycle-{colours}col", n, desc, planted, probes, ["sat", "dfs"] if n <= 140 else ["sat"],
                cert=None if feasible else "odd cycle is not 2-colourable")


def g_pigeon(holes, rng, extra=1):
    n = holes + extra
    names = [f"p{i}" for i in range(n)]
    desc = {"vars": [[nm, 0, holes - 1] for nm in names], "constraints": [["all_different", names]]}
    base = {names[i]: i % holes for i in range(n)}
    return _rec("pigeonhole(long run)", n, desc, None, [base], ["sat"], cert="more variables than values")


def g_enum(n, kind, rng):
    """many solutions asked for at once (solution_limit far above the small scope)"""
    if kind == "perm":
        names = [f"x{i}" for i in range(n)]
        desc = {"vars": [[nm, 0, n - 1] for nm in names], "constraints": [["all_different", names]]}
        planted = {names[i]: i for i in range(n)}
    else:
        names = [f"s{i}" for i in range(n)]
        desc = {"vars": [[nm, 0, n - 1] for nm in names], "constraints": [["circuit", names]]}
        planted = {names[i]: (i + 1) % n for i in range(n)}
    return _rec(f"enumerate-{kind}", n, desc, planted, [planted], ["sat", "dfs"] if kind == "perm" else ["sat"], limit=6000)


def gen_large(seed, quick, who):
    """who: 'C05' (the library solves: sizes limited by its pure-Python SAT solver) or 'C06' (only the encoder runs).
    quick: one instance per (family, size); thorough: more sizes and 3 instances of each size up to 20."""
    rng = random.Random(seed * 7919 + 17)
    out = []
    c06 = who == "C06"
    reps = lambda n: 1 if quick or n > 20 else 3
    # ---- all_different ladder
    sizes = [10, 11, 13, 14, 16, 17, 33] if quick else [9, 10, 11, 12, 13, 14, 15, 16, 17, 19, 20, 22, 23, 33, 34, 65, 66]
    if c06 and not quick:
        sizes += [129, 130]
    for n in sizes:
        for shape in ("full", "wide", "staircase", "staircase-blocked", "staircase-pinned", "window", "two-level"):
            for _ in range(reps(n)):
                out.append(g_alldiff(n, shape, rng))
    # ---- circuit ladder
    if c06:
        csz = [6, 7, 8, 9, 10, 11, 12, 16] if quick else [5, 6, 7, 8, 9, 10, 11, 12, 13, 14, 15, 16, 17, 20, 24, 33]
    else:
        csz = [6, 8, 9, 10, 11] if quick else [5, 6, 7, 8, 9, 10, 11, 12, 13, 14, 16, 17, 20]
    for n in csz:
        for _ in range(1 if quick or n > 12 else 2):
            out.append(g_circuit(n, "full", rng, n_types=None if n <= 12 else 120))
            out.append(g_circuit(n, "arbitrary-domains", rng, n_types=None if n <= 10 else 60))
    # ---- cumulative / no_overlap with many tasks
    for n in ([10, 12] if quick else [8, 10, 11, 12, 13, 14]):
        for _ in range(reps(n)):
            out.append(g_cumulative(n, rng, windows=False))
    for n in ([20, 33, 65, 129] if quick else [20, 33, 65, 129, 260, 520]):
        for _ in range(reps(n)):
            out.append(g_cumulative(n, rng, windows=True))
    for n in ([8, 10, 14] if quick else [6, 8, 10, 11, 12, 14, 16, 20, 33]):
        for _ in range(reps(n)):
            out.append(g_no_overlap(n, rng))
    # ---- long sums / linear relations
    for n in ([6, 10, 12, 33, 65] if quick else [6, 7, 8, 10, 11, 12, 16, 20, 33, 65, 129, 260]):
        for kind in ("sum_eq", "sum_le", "sum_ge"):
            for _ in range(reps(n)):
                out.append(g_sum(n, kind, rng))
    for n in ([3, 4] if quick else [2, 3, 4, 5, 6]):
        for kind in ("sum_eq", "sum_le", "sum_ge"):
            for _ in range(1 if quick else 3):
                out.append(g_sum(n, kind, rng, wide=True))
    for n in ([4, 6, 8, 10] if quick else [3, 4, 5, 6, 7, 8, 10, 11, 12, 16, 20]):
        for op in ("==", "!="):
            for _ in range(reps(n)):
                out.append(g_linear(n, op, rng))
    # ---- block-structured (known by construction)
    for k in ([4, 11, 22, 60, 180] if quick else [4, 11, 22, 44, 90, 180, 350, 700]):
        for _ in range(reps(k)):
            out.append(g_blocks(k, rng, pure=True))
            out.append(g_blocks(k, rng, pure=False))
            if k <= 60:
                out.append(g_blocks(k, rng, pure=True, infeasible_block=True))
                out.append(g_blocks(k, rng, pure=False, infeasible_block=True))
    # ---- classic structured models
    for n in ([4, 5, 7] if quick else [4, 5, 6, 7, 8, 10, 11, 13]):
        for _ in range(1 if quick else 2):
            out.append(g_latin(n, rng, givens=rng.choice([0.3, 0.45, 0.6])))
    for n in ([8, 10, 11] if quick else [8, 9, 10, 11, 12, 13, 14, 16, 17]):
        out.append(g_queens(n, rng))
    for n in ([12, 33, 65, 129, 520, 1040] if quick else [12, 33, 65, 129, 260, 520, 1040, 2100]):
        out.append(g_chain(n, rng))
    for n in ([11, 33, 129, 521, 1001] if quick else [11, 33, 65, 129, 261, 521, 1001, 2049]):
        out.append(g_ne_cycle(n, 2, rng))
        out.append(g_ne_cycle(n, 3, rng))
    if not c06:
        # ---- long runs: thousands of conflicts / many stored solutions
        for h in ([6, 7] if quick else [6, 7, 8, 9]):  # 7 holes: about 9000 conflicts (restarts, learnt-clause deletion); 8 holes: 26000; 9: 51000
            out.append(g_pigeon(h, rng))
        for n, kind in ([(5, "perm"), (6, "perm"), (6, "circuit")] if quick else [(5, "perm"), (6, "perm"), (7, "perm"), (5, "circuit"), (6, "circuit"), (7, "circuit")]):
            out.append(g_enum(n, kind, rng))
    return out


# =========================================================================================== C05: the library solves
def c05_cases(models, seed, quick):
    rng = random.Random(seed + 99)
    cases = []
    for k, d in enumerate(models):
        base = {"desc": d["desc"], "family": d["family"], "size": d["size"], "planted": d["planted"], "cert": d.get("cert")}
        lim = d.get("limit")
        for solver in d["solvers"]:
            cases.append({**base, "solver": solver, "solution_limit": lim or 1, "hints": None})
        if lim:
            continue
        pure = {c[0] for c in d["desc"]["constraints"]} <= {"rel", "all_different"}  # auto = the DFS solver
        if not pure or "dfs" in d["solvers"]:
            cases.append({**base, "solver": "auto", "solution_limit": 4, "hints": None})
        if d["planted"]:
            names = sorted(d["planted"])
            part = {n: d["planted"][n] for n in rng.sample(names, max(1, len(names) // 2))}
            for solver in d["solvers"]:
                cases.append({**base, "solver": solver, "solution_limit": 1, "hints": part})
        n_h = 14 if quick else 40
        pr = d["probes"][:n_h]
        for a in pr:  # a complete assignment offered as hints: accepted only if it is a solution
            cases.append({**base, "solver": "sat", "solution_limit": 1, "hints": a, "probe": True})
        if "dfs" in d["solvers"]:
            for a in pr[: 4]:
                cases.append({**base, "solver": "dfs", "solution_limit": 1, "hints": a, "probe": True})
    return cases


def eval_c05_large(case, cpu_s=None):
    use_repo()
    from solvor.types import Status
    desc, solver, sl, hints = case["desc"], case["solver"], case["solution_limit"], case.get("hints")
    cpu_s = cpu_s or case.get("cpu_s", 40)
    try:
        m, vs = cp_sem.build_model(desc)
    except cp_sem.NotBuildable as e:
        return [], {"skipped": str(e)}
    hd = dict(hints) if hints else None
    try:
        with cpu_guard(cpu_s):
            res = m.solve(solver=solver, solution_limit=sl, hints=hd)
    except CpuTimeout:
        return [], {"timeout": cpu_s}
    except (ValueError, NotImplementedError, TypeError) as e:
        return [], {"rejected": repr(e)[:120]}
    except RecursionError:
        return [], {"timeout": "recursion limit of the DFS solver"}
    except Exception as e:  # noqa
        return [(f"C05/Model.solve[{solver}]/ensures:returns", f"raised {e!r}")], {"raised": True}
    viol = []
    if hints and hd != dict(hints):
        viol.append((f"C05/Model.solve[{solver}]/frame:hints-argument-unchanged", f"hints became {C._short(hd)}"))
    # witness against INFEASIBLE: the planted solution, or the probe itself, when it satisfies everything and agrees with the hints
    witness = None
    cands = []
    if hints and case.get("probe"):
        cands.append(hints)
    if case.get("planted"):
        cands.append(case["planted"])
    dom = {n: (lb, ub) for n, lb, ub in desc["vars"]}
    for a in cands:
        if cp_sem.violated(desc, a):
            continue
        if hints and any(n in a and dom[n][0] <= v <= dom[n][1] and a[n] != v for n, v in hints.items() if n in dom):
            continue
        witness = a
        break
    viol += C.judge_c05(desc, solver, res, witness, exact=False)
    info = {"status": res.status.name, "witness": witness is not None,
            "feasible_claim": None if res.status == Status.MAX_ITER else (res.status != Status.INFEASIBLE),
            "n_solutions": len(res.solutions or ()) or (1 if res.solution is not None else 0)}
    if case.get("cert") and not hints and res.status == Status.OPTIMAL and not viol:
        info["oracle_conflict"] = f"certificate says infeasible ({case['cert']}) but the returned assignment passes the direct check"
    return viol, info


def eval_c05_large_one(case):
    v, info = eval_c05_large(case)
    return v, info


# =========================================================================================== C06: CNF probed with z3
def capture_cnf(m, delegate=False, **solve_kw):
    """run m.solve and return (clauses handed to solve_sat or None, result, did the encoder run at all)"""
    import solvor.cp_encoder as enc
    from solvor.types import Result, Status
    captured = {}
    orig = enc.solve_sat

    def spy(clauses, **kw):
        captured.setdefault("clauses", [list(c) for c in clauses])
        if delegate:
            return orig(clauses, **kw)
        return Result(None, 0, 0, 0, Status.INFEASIBLE)

    orig_solve = enc.SATEncoder.solve

    def spy_solve(self, **kw):
        captured["encoder_ran"] = True
        return orig_solve(self, **kw)

    enc.solve_sat = spy
    enc.SATEncoder.solve = spy_solve
    try:
        res = m.solve(**solve_kw)
    finally:
        enc.solve_sat = orig
        enc.SATEncoder.solve = orig_solve
    return captured.get("clauses"), res, captured.get("encoder_ran", False)


def _kinds(desc):
    return "+".join(sorted({c[0] for c in desc["constraints"]}))


def probe_cnf(desc, vs, clauses, probes, neg_timeout_ms, want_neg=True):
    """judge a captured clause list against assignments with a known status.  returns (violations, info)"""
    from oracles import cp_z3
    viol = []
    names = [v[0] for v in desc["vars"]]
    bmap = {n: dict(vs[n].bool_vars) for n in names}
    n_bool = max([abs(l) for c in clauses for l in c] + [max(b.values()) for b in bmap.values() if b] + [1])
    cnf = cp_z3.Cnf(clauses, n_bool)
    info = {"n_bool": n_bool, "n_clauses": len(clauses), "probes": 0, "probe_sat": 0, "probe_unsat": 0, "unknown": 0}
    kinds = _kinds(desc)
    # (1) every named variable decodes to exactly one value in every model (complete, decided by z3)
    verdict, wit = cnf.not_exactly_one([[bmap[n][v] for v in sorted(bmap[n])] for n in names])
    if verdict is True:
        nm = names[wit[0]]
        vals = [v for v, b in bmap[nm].items() if b in wit[1]]
        viol.append(("C06/SATEncoder/ensures:each-variable-decodes-to-exactly-one-value", f"a CNF model gives {nm} the values {vals}"))
    elif verdict is None:
        info["unknown"] += 1
    # (2) is the CNF satisfiable at all, and does the model z3 finds decode to a CP solution
    sat = cnf.accepts([])
    info["cnf_sat"] = sat
    valid_probe = next((a for a in probes if not cp_sem.violated(desc, a)), None)
    if sat and verdict is False:
        tr = cnf.model_true()
        a = {n: next(v for v, b in bmap[n].items() if b in tr) for n in names}
        bad = cp_sem.violated(desc, a)
        if bad:
            viol.append((f"C06/SATEncoder/ensures:nothing-extra[{kinds}]", f"CNF model decodes to {C._short(a)}, which breaks {C._short(bad[0], 160)}"))
    if sat is False and valid_probe is not None:
        viol.append(("C06/SATEncoder/ensures:cnf-satisfiable-iff-cp-satisfiable", f"CNF unsatisfiable, but {C._short(valid_probe)} is a CP solution"))
    # (3) direct probes
    n_extra = n_missing = 0
    for a in probes:
        lits = [bmap[n][a[n]] for n in names]
        exp = not cp_sem.violated(desc, a)
        got = cnf.accepts(lits)
        info["probes"] += 1
        if got is None:
            info["unknown"] += 1
            continue
        info["probe_sat" if exp else "probe_unsat"] += 1
        if got != exp and len(info.setdefault("bad_probes", [])) < 3:
            info["bad_probes"].append(a)
        if got and not exp:
            n_extra += 1
            if n_extra <= 2:
                viol.append((f"C06/SATEncoder/ensures:nothing-extra[{kinds}]", f"CNF + {C._short(a)} is satisfiable, but the assignment breaks {C._short(cp_sem.violated(desc, a)[0], 160)}"))
        if exp and not got:
            n_missing += 1
            if n_missing <= 2:
                viol.append((f"C06/SATEncoder/ensures:nothing-missing[{kinds}]", f"CP solution {C._short(a)} has no CNF model"))
    info["extra"], info["missing"] = n_extra, n_missing
    # (4) complete search for an extra model: CNF + channelling + "some constraint is broken" (semantics stated in arithmetic)
    if want_neg and verdict is False:
        st, a = cp_z3.neg_over_cnf(cnf, desc, bmap, neg_timeout_ms)
        info["neg_search"] = st
        if st == "extra":
            bad = cp_sem.violated(desc, a)
            if bad:
                if not n_extra:
                    viol.append((f"C06/SATEncoder/ensures:nothing-extra[{kinds}]", f"CNF model decodes to {C._short(a)}, which breaks {C._short(bad[0], 160)} (found by searching CNF + negated semantics)"))
            else:
                info["oracle_conflict"] = f"z3 semantics calls {C._short(a)} a non-solution, cp_sem accepts it"
    return viol, info


def eval_c06_large(case):
    use_repo()
    desc = case["desc"]
    try:
        m, vs = cp_sem.build_model(desc)
    except cp_sem.NotBuildable as e:
        return [], {"skipped": str(e)}
    try:
        with cpu_guard(case.get("cpu_s", 120)):
            clauses, _, _ = capture_cnf(m, solver="sat", solution_limit=1)
    except CpuTimeout:
        return [], {"timeout": True}
    except (ValueError, NotImplementedError, TypeError) as e:
        return [], {"rejected": repr(e)[:120]}
    except Exception as e:  # noqa
        return [("C06/SATEncoder/ensures:encodes-without-crashing", f"raised {e!r}")], {"raised": True}
    probes = case["probes"]
    if clauses is None:
        ok = next((a for a in probes if not cp_sem.violated(desc, a)), None)
        if ok is not None:
            return [("C06/SATEncoder/ensures:cnf-satisfiable-iff-cp-satisfiable", f"encoder declared INFEASIBLE without solving, but {C._short(ok)} is a CP solution")], {"short_circuit": True}
        return [], {"short_circuit": True}
    return probe_cnf(desc, vs, clauses, probes, case.get("neg_timeout_ms", 4000))


# =========================================================================================== history mode
HDOMS = [(0, 2), (0, 2), (0, 3), (1, 3), (0, 1), (-1, 1), (0, 4), (2, 4), (-5, -3), (100, 102), (10, 13)]


def _planted_constraint(cur, new, dom, planted, rng, want_true):
    """a random constraint over the current variables (preferring the new ones); want_true: satisfied by `planted`"""
    for _ in range(60):
        k = min(len(cur), rng.choice([1, 2, 2, 3, 3, 3, 4]))
        scope = rng.sample(cur, k)
        if new and rng.random() < 0.75 and not set(scope) & set(new):
            scope[rng.randrange(k)] = rng.choice(new)
            if len(set(scope)) < k:
                continue
        kind = rng.choice(["rel", "rel", "rel", "sum", "sum", "sum", "all_different", "circuit", "no_overlap", "cumulative"])
        if kind == "rel":
            c = rng.choice(C.rel_templates(scope[:3], consts=(-1, 0, 1, 2, 3, 5, 100)))
        elif kind == "sum":
            s = sum(planted[n] for n in scope)
            op = rng.choice(["sum_eq", "sum_le", "sum_ge"])
            t = s + (0 if op == "sum_eq" else rng.choice([0, 1]) * (1 if op == "sum_le" else -1)) if want_true else s + rng.choice([-1, 1, 2])
            c = [op, scope, t]
        elif kind == "all_different":
            if k < 2:
                continue
            c = ["all_different", scope]
        elif kind == "circuit":
            if k < 2:
                continue
            c = ["circuit", scope]
        elif kind == "no_overlap":
            if k < 2:
                continue
            c = ["no_overlap", scope, [rng.choice([1, 1, 2, 0]) for _ in scope]]
        else:
            if k < 2:
                continue
            c = ["cumulative", scope, [rng.choice([1, 2, 3]) for _ in scope], [rng.choice([1, 2]) for _ in scope], rng.choice([1, 2, 3])]
        if cp_sem.holds(c, planted) == want_true or rng.random() < 0.02:
            return c
    return ["rel", "==", V(cur[0]), K(planted[cur[0]])]


def gen_histories(seed, quick, n=None):
    rng = random.Random(seed * 31 + 5)
    out = []
    n = n or (420 if quick else 9000)
    for k in range(n):
        pool = ["x", "y", "z", "w", "u"]
        steps, cur, dom, planted = [], [], {}, {}
        circuit_first = rng.random() < 0.25
        n_stages = rng.choice([2, 2, 3, 3, 4])
        for st in range(n_stages):
            nv = rng.choice([2, 3, 3, 4]) if st == 0 else rng.choice([0, 1, 1, 1, 2])
            nv = min(nv, 5 - len(cur))
            new = []
            ham = None
            if st == 0 and circuit_first:
                nv = rng.choice([2, 3, 3, 4])
                ham = perm_of_type([nv], rng)
            for j in range(nv):
                nm = pool[len(cur)]
                if ham is not None:
                    lb, ub = 0, rng.choice([nv - 1, nv - 1, nv])
                    planted[nm] = ham[j]
                else:
                    lb, ub = rng.choice(HDOMS)
                    planted[nm] = rng.randint(lb, ub)
                steps.append(["var", nm, lb, ub])
                cur.append(nm)
                new.append(nm)
                dom[nm] = (lb, ub)
            if ham is not None:
                steps.append(["add", ["circuit", list(cur)]])
            for _ in range(rng.choice([0, 1, 1, 2]) if ham is not None else rng.choice([1, 1, 2])):
                steps.append(["add", _planted_constraint(cur, new, dom, planted, rng, rng.random() < 0.85)])
            for _ in range(rng.choice([1, 1, 1, 2])):
                solver = rng.choice(["sat", "sat", "sat", "auto", "auto", "dfs"])
                sl = rng.choice([1, 1, 50])
                r = rng.random()
                hints = None
                if r < 0.15:
                    nm = rng.choice(cur)
                    hints = {nm: planted[nm]}
                elif r < 0.25:
                    nm = rng.choice(cur)
                    hints = {nm: rng.randint(*dom[nm])}
                elif r < 0.29:  # a value outside the declared domain / an unknown name: no restriction
                    nm = rng.choice(cur)
                    hints = {nm: dom[nm][1] + rng.choice([1, 7])} if rng.random() < 0.7 else {"nosuchvar": 1, nm: planted[nm]}
                steps.append(["solve", solver, sl, hints])
                if rng.random() < 0.2:  # the very same call again
                    steps.append(["solve", solver, sl, hints])
        out.append({"steps": steps, "id": k})
    return out


def _desc_at(steps, upto):
    vars_, cons = [], []
    for s in steps[:upto]:
        if s[0] == "var":
            vars_.append([s[1], s[2], s[3]])
        elif s[0] == "add":
            cons.append(s[1])
    return {"vars": vars_, "constraints": cons}


def _canon_sols(res):
    sols = list(res.solutions or ()) or ([res.solution] if res.solution is not None else [])
    return sorted({tuple(sorted((k, v) for k, v in s.items() if not k.startswith("_"))) for s in sols})


def _summary(res, sl):
    """what must not depend on the history of the Model object: the feasibility claim and, when the enumeration stopped
    before the limit (the solver says: that is all), the set of solutions"""
    sols = _canon_sols(res)
    return {"status": res.status.name, "complete": len(res.solutions or ()) < sl if sl > 1 and res.solution is not None else None,
            "sols": [list(map(list, s)) for s in sols]}


def _same(a, b):
    if a["status"] != b["status"]:
        return f"status {a['status']} vs {b['status']}"
    if a["complete"] and b["complete"] and a["sols"] != b["sols"]:
        return f"complete enumeration of {len(a['sols'])} solutions vs {len(b['sols'])}"
    return None


def eval_c05_history(scn, fresh_out=None):
    """replay the steps on ONE Model object; every solve judged by brute force on the model as it is at that call,
    and compared with the same call on a freshly built model"""
    use_repo()
    from solvor.cp import Model
    from solvor.types import Status
    steps = scn["steps"]
    m, vs = Model(), {}
    viol, infos = [], []
    shared_hints = {}
    try:
        for i, s in enumerate(steps):
            if s[0] == "var":
                cp_sem.add_var(m, vs, s[1:])
            elif s[0] == "add":
                cp_sem.add_constraint(m, vs, s[1])
            else:
                _, solver, sl, hints = s
                desc = _desc_at(steps, i)
                hd = None
                if hints:
                    shared_hints.clear()  # the same dict object is passed to every call of the session
                    shared_hints.update(hints)
                    hd = shared_hints
                try:
                    with cpu_guard(30):
                        res = m.solve(solver=solver, solution_limit=sl, hints=hd)
                except CpuTimeout:
                    infos.append({"timeout": True})
                    break
                except (ValueError, NotImplementedError, TypeError) as e:
                    infos.append({"rejected": repr(e)[:100]})
                    break  # the session cannot go on past an unsupported shape
                where = f"step {i} ({solver}, limit {sl}, hints {hints})"
                if hints and dict(shared_hints) != dict(hints):
                    viol.append((f"C05/Model.solve[{solver}]/frame:hints-argument-unchanged", f"{where}: hints became {dict(shared_hints)}", i))
                ref = cp_sem.all_solutions(desc, hints)
                for ob, det in C.judge_c05(desc, solver, res, ref[0] if ref else None, exact=True):
                    viol.append((ob + "[history]", f"{where}: {det}", i))
                # the same call on a freshly built model
                fm, _ = cp_sem.build_model(desc)
                fres = fm.solve(solver=solver, solution_limit=sl, hints=dict(hints) if hints else None)
                a, b = _summary(res, sl), _summary(fres, sl)
                diff = _same(a, b)
                if diff:
                    viol.append((f"C05/Model.solve[{solver}]/ensures:answer-independent-of-earlier-calls-on-the-object", f"{where}: reused Model vs freshly built Model: {diff}", i))
                infos.append({"n_ref": len(ref), "status": res.status.name, "step": i, "box": _box(desc),
                              "claim": None if res.status == Status.MAX_ITER else res.status != Status.INFEASIBLE, "solver": solver})
                if fresh_out is not None:
                    fresh_out.append({"desc": desc, "solver": solver, "solution_limit": sl, "hints": hints, "summary": a, "scn": scn["id"], "step": i})
    except cp_sem.NotBuildable as e:
        infos.append({"skipped": str(e)})
    except Exception as e:  # noqa
        viol.append(("C05/Model.solve/ensures:returns[history]", f"raised {e!r}", len(infos)))
    return viol, infos


def _box(desc):
    b = 1
    for _, lb, ub in desc["vars"]:
        b *= ub - lb + 1
    return b


def _fresh_process(kind, items):
    """the same questions answered by a new interpreter (nothing survives from this process)"""
    if not items:
        return []
    env = dict(os.environ)
    env["PYTHONPATH"] = os.path.dirname(os.path.dirname(os.path.abspath(__file__)))
    p = subprocess.run([sys.executable, "-m", "checks.cp_round2", kind], input=json.dumps(items), capture_output=True, text=True,
                       env=env, cwd=env["PYTHONPATH"], timeout=900)
    if p.returncode != 0:
        raise RuntimeError(f"fresh process failed: {p.stderr[-400:]}")
    return json.loads(p.stdout)


def eval_c05_history_chunk(scns):
    out = []
    fresh = []
    for scn in scns:
        fo = []
        v, infos = eval_c05_history(scn, fo)
        out.append([scn, v, infos])
        fresh += fo[-1:]  # the last call of the session
    try:
        answers = _fresh_process("c05", fresh)
    except Exception as e:  # noqa
        return out, [f"{e!r}"]
    by_id = {s[0]["id"]: s for s in out}
    for q, a in zip(fresh, answers):
        if a is None:
            continue
        diff = _same(q["summary"], a)
        if diff:
            by_id[q["scn"]][1].append((f"C05/Model.solve[{q['solver']}]/ensures:answer-independent-of-earlier-calls-on-the-object",
                                       f"step {q['step']}: reused Model vs the same model in a fresh process: {diff}", q["step"]))
    return out, []


def _fresh_c05(items):
    use_repo()
    out = []
    for q in items:
        try:
            m, _ = cp_sem.build_model(q["desc"])
            res = m.solve(solver=q["solver"], solution_limit=q["solution_limit"], hints=q["hints"])
            out.append(_summary(res, q["solution_limit"]))
        except Exception:  # noqa
            out.append(None)
    return out


def accepted_set(desc, vs, clauses, limit=4000):
    """projection of the CNF's models on the named variables, one box point at a time (z3); None if the box is too large"""
    from oracles import cp_z3
    import itertools
    names = [v[0] for v in desc["vars"]]
    if _box(desc) > limit:
        return None, None
    bmap = {n: dict(vs[n].bool_vars) for n in names}
    n_bool = max([abs(l) for c in clauses for l in c] + [max(b.values()) for b in bmap.values() if b] + [1])
    cnf = cp_z3.Cnf(clauses, n_bool)
    verdict, wit = cnf.not_exactly_one([[bmap[n][v] for v in sorted(bmap[n])] for n in names])
    eo = None
    if verdict is True:
        nm = names[wit[0]]
        eo = f"a CNF model gives {nm} the values {[v for v, b in bmap[nm].items() if b in wit[1]]}"
    acc = set()
    if cnf.accepts([]) is False:
        return acc, eo
    doms = [range(lb, ub + 1) for _, lb, ub in desc["vars"]]

    def rec(i, lits, vals):  # prefix pruning: an unsatisfiable prefix has no accepted extension
        if i == len(names):
            acc.add(tuple(zip(names, vals)))
            return
        for v in doms[i]:
            l2 = lits + [bmap[names[i]][v]]
            if cnf.accepts(l2):
                rec(i + 1, l2, vals + [v])

    rec(0, [], [])
    return acc, eo


def judge_c06_projection(desc, acc, eo, tag=""):
    viol = []
    if eo:
        viol.append(("C06/SATEncoder/ensures:each-variable-decodes-to-exactly-one-value" + tag, eo))
    ref = {tuple(sorted(a.items())) for a in cp_sem.all_solutions(desc)}
    got = {tuple(sorted(a)) for a in acc}
    extra, missing = got - ref, ref - got
    kinds = _kinds(desc) if not tag else ""
    if extra:
        viol.append(((f"C06/SATEncoder/ensures:nothing-extra[{kinds}]" if kinds else "C06/SATEncoder/ensures:nothing-extra") + tag, f"CNF model decodes to {dict(sorted(extra)[0])}, which breaks the CP constraints ({len(extra)} such)"))
    if missing:
        viol.append(((f"C06/SATEncoder/ensures:nothing-missing[{kinds}]" if kinds else "C06/SATEncoder/ensures:nothing-missing") + tag, f"CP solution {dict(sorted(missing)[0])} has no CNF model ({len(missing)} such)"))
    return viol, len(ref)


def eval_c06_history(scn, fresh_out=None):
    """the steps on ONE Model object; at every solve that reaches the encoder the clause list is captured (the real SAT
    solver still runs) and its projection on the named variables must be exactly the CP solution set of the model as
    it is at that call"""
    use_repo()
    from solvor.cp import Model
    steps = scn["steps"]
    m, vs = Model(), {}
    viol, infos = [], []
    try:
        for i, s in enumerate(steps):
            if s[0] == "var":
                cp_sem.add_var(m, vs, s[1:])
            elif s[0] == "add":
                cp_sem.add_constraint(m, vs, s[1])
            else:
                _, solver, sl, hints = s
                desc = _desc_at(steps, i)
                try:
                    with cpu_guard(30):
                        clauses, res, ran = capture_cnf(m, delegate=True, solver=solver, solution_limit=sl, hints=dict(hints) if hints else None)
                except CpuTimeout:
                    break
                except (ValueError, NotImplementedError, TypeError) as e:
                    infos.append({"rejected": repr(e)[:100]})
                    break
                if clauses is None:
                    if ran:
                        # the encoder answered without calling the SAT solver: an empty clause - the model must have no solution
                        ref = cp_sem.all_solutions(desc)
                        if ref:
                            viol.append(("C06/SATEncoder/ensures:cnf-satisfiable-iff-cp-satisfiable[history]", f"step {i}: encoder declared INFEASIBLE without solving, but {ref[0]} is a CP solution", i))
                        infos.append({"short_circuit": True, "n_ref": len(ref), "box": _box(desc), "step": i})
                    continue
                acc, eo = accepted_set(desc, vs, clauses)
                if acc is None:
                    continue
                v, n_ref = judge_c06_projection(desc, acc, eo, "[history]")
                for ob, det in v:
                    viol.append((ob, f"step {i}: {det}", i))
                infos.append({"n_ref": n_ref, "box": _box(desc), "step": i, "n_clauses": len(clauses)})
                if fresh_out is not None:
                    fresh_out.append({"desc": desc, "acc": sorted(map(list, (map(list, a) for a in acc))), "scn": scn["id"], "step": i})
    except cp_sem.NotBuildable as e:
        infos.append({"skipped": str(e)})
    except Exception as e:  # noqa
        viol.append(("C06/SATEncoder/ensures:encodes-without-crashing[history]", f"raised {e!r}", -1))
    return viol, infos


def eval_c06_history_chunk(scns):
    out, fresh = [], []
    for scn in scns:
        fo = []
        v, infos = eval_c06_history(scn, fo)
        out.append([scn, v, infos])
        fresh += fo[-1:]
    try:
        answers = _fresh_process("c06", [{"desc": q["desc"]} for q in fresh])
    except Exception as e:  # noqa
        return out, [f"{e!r}"]
    by_id = {s[0]["id"]: s for s in out}
    for q, a in zip(fresh, answers):
        if a is None:
            continue
        if sorted(map(repr, q["acc"])) != sorted(map(repr, a)):
            by_id[q["scn"]][1].append(("C06/SATEncoder/ensures:cnf-independent-of-earlier-solves-on-the-object",
                                       f"step {q['step']}: the CNF of the reused Model accepts {len(q['acc'])} assignments, the CNF of the same model built in a fresh process {len(a)}", q["step"]))
    return out, []


def _fresh_c06(items):
    use_repo()
    out = []
    for q in items:
        try:
            m, vs = cp_sem.build_model(q["desc"])
            clauses, _, _ = capture_cnf(m, solver="sat", solution_limit=1)
            if clauses is None:
                out.append([])
                continue
            acc, _ = accepted_set(q["desc"], vs, clauses)
            out.append(sorted(map(list, (map(list, a) for a in acc))))
        except Exception:  # noqa
            out.append(None)
    return out


def replay_caseless(rec, pid):
    """records without a concrete input: the syntactic frame obligation is re-decided on the current tree"""
    if "frame:no-new-persistent-state" in rec.get("obligation", ""):
        from types import SimpleNamespace
        from vf import frame
        stub = SimpleNamespace(obligations=[], functions=[])
        frame.check(stub, pid)
        bad = [o for o in stub.obligations if o["status"] == "failed" and o["name"] == rec["obligation"]]
        print("replay:", bad[0]["detail"] if bad else "no new persistent state in the anchored files")
        return 1 if bad else 0
    print(f"no concrete input in this record (proof obligation): re-run ./check {pid}")
    return 1


if __name__ == "__main__":
    items = json.loads(sys.stdin.read())
    print(json.dumps(_fresh_c05(items) if sys.argv[1] == "c05" else _fresh_c06(items)))

"""C07 - exact cover (solvor.dlx.solve_exact_cover, dancing links): bounded back end.

Top-level contract (taken from the property statement), evaluated on the real function:
  * every returned selection covers each primary column exactly once, each secondary column at most once, and uses
    only rows that cover a primary column;
  * find_all without a cut-off (no max_solutions cut, no MAX_ITER) returns exactly the set of all covers, no
    duplicates; with max_solutions=k at most k, all valid, all distinct;
  * INFEASIBLE  <=>  no cover exists (unless the call was legitimately cut off by max_iter, status MAX_ITER;
    a cut-off is never legitimate when max_iter >= 2^rows, an upper bound on any Algorithm-X search tree);
  * matrix / columns / secondary are not modified; a second identical call gives the same answer.
Inner contracts (private helpers, skipped gracefully if they are renamed): _build_links builds consistent rings;
_cover removes exactly the column and the conflicting rows; _cover(c1..ck) then _uncover(ck..c1) restores every
left/right/up/down/size field; search() leaves the structure as built whenever the top-level search returns False.
Oracle: oracles/exact_cover.py (subset enumeration).
"""
from __future__ import annotations

import ast
import itertools
import random
import signal
import time

from vf.core import Ctx, use_repo
from vf.pool import pmap
from oracles import exact_cover as O

LEVEL = "exploration"
P = "C07/solve_exact_cover/"
CALL_TIMEOUT = 5.0  # CPU seconds per solver call; the largest instance here has 8 rows (a clean call takes < 1 ms)
HANGS = [0]  # hangs seen by this worker process; after a few, time-outs shrink and then whole tasks are skipped
FIELDS = ("left", "right", "up", "down")


class _Timeout(Exception):
    pass


def _alarm(signum, frame):
    raise _Timeout()


def guarded(fn, *a, **k):
    """Run fn under a CPU-time alarm (an endless loop burns CPU; a wall-clock alarm would fire spuriously on a loaded
    machine). Returns ('ok', value) | ('exc', repr) | ('hang', None)."""
    old = signal.signal(signal.SIGVTALRM, _alarm)
    signal.setitimer(signal.ITIMER_VIRTUAL, CALL_TIMEOUT if HANGS[0] < 3 else 1.0)
    try:
        return "ok", fn(*a, **k)
    except _Timeout:
        HANGS[0] += 1
        return "hang", None
    except RecursionError as e:
        return "exc", f"RecursionError: {str(e)[:80]}"
    except Exception as e:  # noqa: BLE001 - any exception from the solver is an observation
        return "exc", f"{type(e).__name__}: {str(e)[:200]}"
    finally:
        signal.setitimer(signal.ITIMER_VIRTUAL, 0)
        signal.signal(signal.SIGVTALRM, old)


# ------------------------------------------------------------------ case encoding
def matrix_from_code(R, C, code):
    return [[(code >> (i * C + j)) & 1 for j in range(C)] for i in range(R)]


def in_form(matrix, form):
    if form == "tuple":
        return tuple(tuple(r) for r in matrix)
    if form == "rowtuple":
        return [tuple(r) for r in matrix]
    if form == "bool":
        return [[bool(v) for v in r] for r in matrix]
    return [list(r) for r in matrix]


def lit(s):
    return None if s is None else ast.literal_eval(s)


def make_case(matrix, form, columns, secondary, cfg):
    return {"kind": "solve", "matrix": [list(map(int, r)) for r in matrix], "form": form,
            "columns": None if columns is None else repr(columns),
            "secondary": None if secondary is None else repr(secondary),
            "find_all": cfg[0], "max_solutions": cfg[1], "max_iter": cfg[2]}


def case_size(case):
    m = case["matrix"]
    plain = sum(case.get(k) is not None for k in ("columns", "secondary", "max_solutions", "max_iter")) + (case.get("form", "list") != "list")
    return (len(m) * (len(m[0]) if m else 0), len(m), sum(map(sum, m)), plain, len(repr(case)))


def n_cols_of(matrix):
    return len(matrix[0]) if matrix else 0


# ------------------------------------------------------------------ the top-level contract
def call_solver(D, m_arg, columns, secondary, cfg):
    kw = {}
    if columns is not None:
        kw["columns"] = columns
    if secondary is not None:
        kw["secondary"] = secondary
    if cfg[0]:
        kw["find_all"] = True
    if cfg[1] is not None:
        kw["max_solutions"] = cfg[1]
    if cfg[2] is not None:
        kw["max_iter"] = cfg[2]
    return guarded(D.solve_exact_cover, m_arg, **kw)


def observe(r):
    st = getattr(getattr(r, "status", None), "name", repr(getattr(r, "status", None)))
    return (repr(getattr(r, "solution", "<no .solution>")), st, getattr(r, "objective", None))


def judge(D, matrix, form, columns, secondary, cfg, flags, covers):
    """Evaluate the contract for one call configuration.
    Returns (list of (obligation, detail), hang: bool, result or None)."""
    find_all, max_solutions, max_iter = cfg
    R, C = len(matrix), n_cols_of(matrix)
    zd = "/zero-dimension" if R == 0 or C == 0 else ""
    bad = []
    m_arg = in_form(matrix, form)
    pristine = [list(r) for r in m_arg]
    col_snap = None if columns is None else list(columns)
    sec_snap = None if secondary is None else (set(secondary) if isinstance(secondary, (set, frozenset)) else list(secondary))

    how, r = call_solver(D, m_arg, columns, secondary, cfg)
    if how == "hang":
        return bad, True, None
    if how == "exc":
        bad.append((P + "returns" + zd, f"raised {r}"))
        return bad, False, None

    # frame: inputs untouched
    if [list(x) for x in m_arg] != pristine or len(m_arg) != R:
        bad.append((P + "frame:matrix-unchanged", f"matrix after the call: {m_arg!r}"))
    if col_snap is not None and list(columns) != col_snap:
        bad.append((P + "frame:matrix-unchanged", f"columns after the call: {columns!r}"))
    if sec_snap is not None and (set(secondary) if isinstance(secondary, (set, frozenset)) else list(secondary)) != sec_snap:
        bad.append((P + "frame:matrix-unchanged", f"secondary after the call: {secondary!r}"))

    # same input again -> same answer
    how2, r2 = call_solver(D, m_arg, columns, secondary, cfg)
    if how2 == "hang":
        return bad, True, r
    if how2 == "exc":
        bad.append((P + "ensures:deterministic", f"second call raised {r2}, first returned {observe(r)}"))
    elif observe(r) != observe(r2):
        bad.append((P + "ensures:deterministic", f"first call {observe(r)}, second call {observe(r2)}"))

    status = getattr(getattr(r, "status", None), "name", None)
    sol = getattr(r, "solution", None)
    if status not in ("OPTIMAL", "FEASIBLE", "INFEASIBLE", "MAX_ITER"):
        bad.append((P + "ensures:result-shape", f"status {status!r}"))
        return bad, False, r

    # which selections were returned
    shape_ok = True
    if sol is None:
        sels = []
    elif find_all:
        if isinstance(sol, (list, tuple)) and all(isinstance(s, (tuple, list)) for s in sol):
            # (a bare tuple of selections is read as the collection it is, which is what `for s in result.solution`
            # sees; completeness below decides whether it holds every cover)
            sels = [tuple(s) for s in sol]
        else:
            shape_ok = False
            sels = []
            bad.append((P + "ensures:result-shape" + zd, f"find_all=True but solution is {sol!r} (not a list of selections)"))
    else:
        if isinstance(sol, (tuple, list)) and all(isinstance(i, int) for i in sol):
            sels = [tuple(sol)]
        else:
            shape_ok = False
            sels = []
            bad.append((P + "ensures:result-shape" + zd, f"find_all=False but solution is {sol!r} (not a tuple of row indices)"))

    # every returned selection is an exact cover made of rows with a primary 1
    for s in sels:
        why = O.why_not_cover(matrix, flags, s)
        if why is not None:
            ob = "ensures:only-rows-with-primary" if why.startswith("row ") else "ensures:selection-is-exact-cover"
            bad.append((P + ob + zd, f"status {status}, returned {s}: {why}"))
            break
    if len({frozenset(s) for s in sels}) != len(sels):
        bad.append((P + "ensures:find_all-no-duplicates" + zd, f"returned {sels}"))

    exists = bool(covers)
    if status == "INFEASIBLE" and exists:
        bad.append((P + "ensures:infeasible-iff-no-cover" + zd,
                    f"INFEASIBLE reported but {len(covers)} cover(s) exist, e.g. rows {sorted(min(covers, key=sorted))}"))
    if status == "INFEASIBLE" and sels:
        bad.append((P + "ensures:result-shape" + zd, f"INFEASIBLE together with selections {sels}"))
    if status == "MAX_ITER":
        eff = 10_000_000 if max_iter is None else max_iter
        if eff >= 2 ** R:
            bad.append((P + "ensures:decides-when-max_iter-cannot-bind" + zd,
                        f"MAX_ITER with max_iter={eff} >= 2^{R}: no Algorithm-X search tree on {R} rows has that many nodes"))
    else:
        if not exists and status != "INFEASIBLE":
            bad.append((P + "ensures:infeasible-iff-no-cover" + zd, f"no cover exists but status is {status}, solution {sol!r}"))
        if exists and shape_ok and not sels and status != "INFEASIBLE":
            bad.append((P + ("ensures:find_all-complete" if find_all else "ensures:returns-a-cover") + zd,
                        f"status {status}, {len(covers)} cover(s) exist, solution {sol!r} holds no selection"))
    if find_all and shape_ok:
        cut_by_count = bool(max_solutions) and len(sels) >= max_solutions
        if max_solutions and len(sels) > max_solutions:
            bad.append((P + "ensures:max_solutions-cutoff" + zd, f"max_solutions={max_solutions} but {len(sels)} selections returned"))
        if status != "MAX_ITER" and not cut_by_count and sels:
            got = {frozenset(s) for s in sels}
            missing = covers - got
            if missing:
                bad.append((P + "ensures:find_all-complete" + zd,
                            f"status {status}, {len(sels)} returned of {len(covers)}; missing e.g. rows {sorted(min(missing, key=sorted))}"))
    return bad, False, r


# ------------------------------------------------------------------ inner contracts on the link structure
def helpers(D):
    fns = tuple(getattr(D, n, None) for n in ("_build_links", "_cover", "_uncover"))
    return fns if all(callable(f) for f in fns) else None


def closure(root, headers, limit=4000):
    seen, order, stack = {}, [], [root] + list(headers)
    while stack and len(order) < limit:
        o = stack.pop()
        if o is None or id(o) in seen:
            continue
        seen[id(o)] = len(order)
        order.append(o)
        for f in FIELDS:
            stack.append(getattr(o, f, None))
    return order, seen


def snapshot(order, seen):
    return [tuple(seen.get(id(getattr(o, f, None)), -1) for f in FIELDS) + (getattr(o, "size", None),) for o in order]


def snap_diff(order, a, b):
    for k, (x, y) in enumerate(zip(a, b)):
        if x != y:
            o = order[k]
            what = f"header {getattr(o, 'name', '?')!r}" if hasattr(o, "size") else (
                f"node(row {getattr(o, 'row', '?')}, col {getattr(getattr(o, 'column', None), 'name', None)!r})")
            fld = [n for n, u, v in zip(FIELDS + ("size",), x, y) if u != v]
            return f"{what}: field(s) {fld} differ (object #{k}: before {x}, after {y})"
    return None


def cycle(start, nxt, prv, bound):
    """Walk start.nxt... until back at start. Returns list of the other members or a string on inconsistency."""
    out, x = [], getattr(start, nxt)
    for _ in range(bound + 2):
        if x is start:
            break
        out.append(x)
        x = getattr(x, nxt)
    else:
        return f"ring through {nxt} does not close within {bound + 2} steps"
    for y in [start] + out:
        if getattr(getattr(y, nxt), prv) is not y or getattr(getattr(y, prv), nxt) is not y:
            return f"{nxt}/{prv} are not inverse at a member"
    if len({id(y) for y in out}) != len(out):
        return "a member occurs twice"
    return out


def wellformed(matrix, flags, names, root, headers, removed=()):
    """Expected shape of the structure after the columns in `removed` have been covered (none: as built)."""
    R, C = len(matrix), len(flags)
    if len(headers) != C:
        return f"{len(headers)} column headers for {C} columns"
    for j, h in enumerate(headers):
        if getattr(h, "name", names[j]) != names[j]:
            return f"header {j} is named {h.name!r}, expected {names[j]!r}"
    ring = cycle(root, "right", "left", C + 1)
    if isinstance(ring, str):
        return "primary header ring: " + ring
    want = [id(headers[j]) for j in range(C) if not flags[j] and j not in removed]
    if sorted(map(id, ring)) != sorted(want):
        return f"primary header ring holds {len(ring)} members, expected the {len(want)} uncovered primary headers"
    for j in (j for j in range(C) if flags[j] and j not in removed):
        # (own ring with a second root, as here, or self-linked as in Knuth's paper: both are fine)
        ring = cycle(headers[j], "right", "left", C + 2)
        if isinstance(ring, str):
            return "secondary header ring: " + ring
        ids = [id(x) for x in ring]
        if any(id(headers[k]) in ids for k in range(C) if not flags[k]) or id(root) in ids:
            return "a secondary header shares a left/right ring with the root or a primary header"
    nodes = {}
    for j, h in enumerate(headers):
        col = cycle(h, "down", "up", R + 1)
        if isinstance(col, str):
            return f"column {j}: " + col
        # rows still listed in column j: those not removed by a column covered while j was still uncovered
        earlier = removed[: removed.index(j)] if j in removed else removed
        want_rows = sorted(i for i in range(R) if matrix[i][j] and not any(matrix[i][k] for k in earlier))
        rows = sorted(getattr(n, "row", None) for n in col)
        if rows != want_rows:
            return f"column {j} lists rows {rows}, expected {want_rows}"
        if h.size != len(want_rows):
            return f"column {j}: size {h.size}, length {len(want_rows)}"
        for n in col:
            if n.column is not h:
                return f"column {j}: a node points to another header"
            nodes[(n.row, j)] = n
    if removed:
        return None
    for i in range(R):
        mine = [nodes[(i, j)] for j in range(C) if matrix[i][j]]
        if mine:
            ring = cycle(mine[0], "right", "left", C + 1)
            if isinstance(ring, str):
                return f"row {i}: " + ring
            if sorted(map(id, ring + [mine[0]])) != sorted(map(id, mine)):
                return f"row {i}: the left/right ring does not hold exactly the row's nodes"
    return None


def links_case(matrix, columns, secondary, seq):
    return {"kind": "links", "matrix": matrix, "columns": None if columns is None else repr(columns),
            "secondary": None if secondary is None else repr(secondary), "seq": list(seq)}


def check_links(D, matrix, columns, secondary, seqs):
    """Returns (violations [(obligation, case, detail)], number of evaluations) or (None, 0) if not applicable."""
    H = helpers(D)
    if H is None or not matrix or not matrix[0]:
        return None, 0
    build, cover, uncover = H
    C = len(matrix[0])
    flags = O.secondary_flags(C, columns, secondary)
    names = list(columns) if columns else list(range(C))
    out, n = [], 0

    def body():
        nonlocal n
        for seq in seqs:
            n += 1
            got = build([list(r) for r in matrix], columns, secondary)
            if not (isinstance(got, tuple) and len(got) == 3 and got[0] is not None):
                raise TypeError(f"_build_links returned {type(got).__name__} of unexpected shape")
            root, headers = got[0], list(got[1])
            why = wellformed(matrix, flags, names, root, headers)
            if why:
                out.append(("C07/_build_links/ensures:rings-wellformed", links_case(matrix, columns, secondary, ()), why))
                return
            order, seen = closure(root, headers)
            snaps = [snapshot(order, seen)]
            for k, c in enumerate(seq):
                cover(headers[c])
                snaps.append(snapshot(order, seen))
                why = wellformed(matrix, flags, names, root, headers, removed=tuple(seq[: k + 1]))
                if why:
                    out.append(("C07/_cover/ensures:removes-column-and-conflicting-rows",
                                links_case(matrix, columns, secondary, seq[: k + 1]), f"after covering columns {list(seq[:k + 1])}: {why}"))
                    return
            for k in range(len(seq) - 1, -1, -1):
                uncover(headers[seq[k]])
                d = snap_diff(order, snaps[k], snapshot(order, seen))
                if d:
                    out.append(("C07/_cover+_uncover/ensures:exact-inverse", links_case(matrix, columns, secondary, seq),
                                f"cover {list(seq)} then uncover back to depth {k}: {d}"))
                    return

    how, r = guarded(body)
    if how == "exc" and r.startswith("TypeError: _build_links returned"):
        return None, 0
    if how != "ok":
        out.append(("C07/_cover+_uncover/ensures:exact-inverse", links_case(matrix, columns, secondary, ()),
                    f"helper walk {'did not come back' if how == 'hang' else 'raised ' + str(r)}"))
    return out, n


def check_search_restores(D, matrix, columns, secondary, cfg):
    """Run one extra call with _build_links wrapped (in this process only) to get hold of the structure; when the
    top-level search() returned False the structure must be exactly as built."""
    H = helpers(D)
    if H is None or not matrix or not matrix[0]:
        return None
    grabbed = []
    orig = D._build_links

    def spy(*a, **k):
        got = orig(*a, **k)
        if isinstance(got, tuple) and len(got) == 3 and got[0] is not None:
            order, seen = closure(got[0], list(got[1]))
            grabbed.append((order, seen, snapshot(order, seen)))
        return got

    D._build_links = spy
    try:
        how, r = call_solver(D, [list(x) for x in matrix], columns, secondary, cfg)
    finally:
        D._build_links = orig
    if how != "ok" or len(grabbed) != 1:
        return None if how == "ok" else []
    sol = getattr(r, "solution", None)
    if cfg[0]:
        returned_true = bool(cfg[1]) and isinstance(sol, list) and len(sol) >= cfg[1]
    else:
        returned_true = sol is not None
    if returned_true:
        return []
    order, seen, before = grabbed[0]
    d = snap_diff(order, before, snapshot(order, seen))
    if d:
        c = make_case(matrix, "list", columns, secondary, cfg)
        c["kind"] = "restore"
        return [("C07/search/ensures:structure-restored-when-False", c, d)]
    return []


# ------------------------------------------------------------------ configurations per level
MODES = [(False, None), (True, None), (True, 1), (True, 2)]


def configs(level, R, n_iter):
    """n_iter: the iteration count the code itself reported for the unlimited find_all / first run; used only to
    aim max_iter at the boundary (N-1 cuts, N must not), never as an oracle."""
    out = []
    if level == "full":
        for m in MODES + [(True, 0), (False, 1), (True, 3)]:
            for it in (None, 5, 0, 1, 2, 3, 2 ** R):
                out.append(m + (it,))
    elif level == "mid":
        for m in MODES:
            for it in (None, 5):
                out.append(m + (it,))
    else:
        out += [(True, None, None), (False, None, None)]
    for fa in (True, False):
        n = n_iter.get(fa)
        if isinstance(n, int) and n >= 1:
            for it in ((n - 1, n) if level != "lite" else (n,)):
                if (fa, None, it) not in out:
                    out.append((fa, None, it))
            if level == "full" and (True, 2, n - 1) not in out and fa:
                out.append((True, 2, n - 1))
    return out


def eval_pair(D, matrix, form, columns, secondary, level, acc):
    """All configurations of one (matrix, names, secondary) instance."""
    R, C = len(matrix), n_cols_of(matrix)
    flags = O.secondary_flags(C, columns, secondary)
    covers = O.all_covers(matrix, flags)
    nontrivial = any(not f for f in flags) and bool(O.eligible_rows(matrix, flags))
    # generator hint: the code's own iteration counts (two unjudged calls)
    n_iter = {}
    for fa in (True, False):
        how, r = call_solver(D, in_form(matrix, form), columns, secondary, (fa, None, None))
        if how == "ok" and isinstance(getattr(r, "iterations", None), int):
            n_iter[fa] = r.iterations
    cfgs = configs(level, R, n_iter)
    for cfg in cfgs:
        bad, hang, r = judge(D, matrix, form, columns, secondary, cfg, flags, covers)
        acc["n_eval"] += 1
        if nontrivial:
            acc["n_nontrivial"] += 1
        if hang:
            acc["hangs"].append(make_case(matrix, form, columns, secondary, cfg))
        for ob, detail in bad:
            acc["viol"].append((ob, make_case(matrix, form, columns, secondary, cfg), detail))
        if r is not None and getattr(getattr(r, "status", None), "name", "") == "MAX_ITER":
            acc["cut_by_max_iter"] += 1
    acc["pairs"] += 1
    acc["pairs_feasible"] += bool(covers)
    acc["pairs_multi"] += len(covers) > 1
    acc["max_covers"] = max(acc["max_covers"], len(covers))
    return nontrivial, len(cfgs)


def link_seqs(C, code, level):
    cols = range(C)
    if level == "full":
        return [()] + [p for k in (1, 2, 3) for p in itertools.permutations(cols, k)] + \
               [p for p in itertools.permutations(cols, C) if C > 3][:24]
    rng = random.Random(code * 7919 + C)
    seqs = [(c,) for c in cols] if level == "mid" else [(code % C,)]
    for _ in range(3 if level == "mid" else 2):
        k = rng.randint(min(2, C), C)
        seqs.append(tuple(rng.sample(list(cols), k)))
    return seqs


def new_acc():
    return {"n_eval": 0, "n_nontrivial": 0, "viol": [], "hangs": [], "pairs": 0, "pairs_feasible": 0, "pairs_multi": 0,
            "max_covers": 0, "cut_by_max_iter": 0, "link_evals": 0, "links_skipped": 0, "restore_evals": 0, "samples": []}


def sec_masks(C, code, mode):
    if mode == "all":
        return range(1 << C)
    a = (code * 2654435761 >> 5) % (1 << C)
    b = 1 << (code % C) if C else 0
    return sorted({0, a, b})


def work(task):
    """Pool worker. task = dict(kind='codes', R, C, codes=[...] or lo/hi, level, sec) | dict(kind='cases', items, level)."""
    use_repo()
    import solvor.dlx as D
    acc = new_acc()
    t0 = time.process_time()
    level = task["level"]
    if HANGS[0] >= 8:  # a tree that loops for ever on many inputs: do not spend the budget waiting
        acc["skipped_task"] = 1
        acc["cpu"] = 0.0
        return acc
    if task["kind"] == "codes":
        R, C = task["R"], task["C"]
        codes = task["codes"] if "codes" in task else range(task["lo"], task["hi"])
        for code in codes:
            matrix = matrix_from_code(R, C, code)
            masks = sec_masks(C, code, task["sec"])
            for mask in masks:
                secondary = None if mask == 0 and code % 2 == 0 else [j for j in range(C) if mask >> j & 1]
                eval_pair(D, matrix, "list", None, secondary, level, acc)
            if R and C:
                # inner contracts: two secondary masks per matrix (lite level: one, and cover/uncover sequences on
                # every 4th matrix only; the search-restores run is kept on every matrix)
                for mask in sorted({0, masks[code % len(masks)]}) if level != "lite" else (masks[code % len(masks)],):
                    secondary = [j for j in range(C) if mask >> j & 1]
                    v, n = check_links(D, matrix, None, secondary, link_seqs(C, code, level)) if level != "lite" or code % 4 == 0 else ([], 0)
                    if v is None:
                        acc["links_skipped"] += 1
                    else:
                        acc["link_evals"] += n
                        acc["viol"] += v
                    for cfg in ((True, None, None), (True, None, 5), (False, None, 3)) if level != "lite" else ((True, None, None),):
                        v = check_search_restores(D, matrix, None, secondary, cfg)
                        if v is not None:
                            acc["restore_evals"] += 1
                            acc["viol"] += v
        if codes:
            acc["samples"].append(make_case(matrix_from_code(R, C, codes[len(codes) // 2]), "list", None, None, (True, None, None)))
    else:
        for matrix, form, col_s, sec_s in task["items"]:
            columns, secondary = lit(col_s), lit(sec_s)
            eval_pair(D, matrix, form, columns, secondary, level, acc)
            code = sum(v << k for k, v in enumerate(itertools.chain.from_iterable(matrix)))
            if matrix and matrix[0] and (level != "lite" or sec_s is None):
                v, n = check_links(D, matrix, columns, secondary, link_seqs(len(matrix[0]), code, "mid" if level != "lite" else "lite"))
                if v is None:
                    acc["links_skipped"] += 1
                else:
                    acc["link_evals"] += n
                    acc["viol"] += v
                v = check_search_restores(D, matrix, columns, secondary, (True, None, None))
                if v is not None:
                    acc["restore_evals"] += 1
                    acc["viol"] += v
        if task["items"]:
            m, f, c, s = task["items"][0]
            acc["samples"].append({"kind": "solve", "matrix": m, "form": f, "columns": c, "secondary": s,
                                   "find_all": True, "max_solutions": None, "max_iter": None})
    acc["cpu"] = time.process_time() - t0
    return acc


# ------------------------------------------------------------------ generators
def dense_matrix(rng, R, C, weights=(3, 8, 30, 36, 16, 7)):
    """Rows mostly with 2..C ones (several with 3+), some duplicates, an occasional empty or single row."""
    rows = []
    for _ in range(R):
        u = rng.random()
        if rows and u < 0.12:
            rows.append(list(rng.choice(rows)))
            continue
        k = rng.choices([0, 1, 2, 3, 4, 5], weights=weights)[0]
        k = min(k, C)
        ones = set(rng.sample(range(C), k))
        rows.append([1 if j in ones else 0 for j in range(C)])
    return rows


def planted_matrix(rng, R, C):
    """At least one cover planted (a random partition of the columns), the other rows random, rows shuffled."""
    cols = list(range(C))
    rng.shuffle(cols)
    nb = rng.randint(1, max(1, min(R, C)))
    cuts = sorted(rng.sample(range(1, C), min(nb - 1, C - 1))) if C > 1 else []
    blocks = [cols[a:b] for a, b in zip([0] + cuts, cuts + [C])]
    rows = [[1 if j in blk else 0 for j in range(C)] for blk in blocks][:R]
    while len(rows) < R:
        u = rng.random()
        if u < 0.25:
            rows.append(list(rng.choice(rows)))
        elif u < 0.5 and len(blocks) > 1:  # merge or split material: union of two blocks / part of one block
            a, b = rng.sample(blocks, 2)
            rows.append([1 if j in a or j in b else 0 for j in range(C)])
        else:
            rows.append([1 if rng.random() < 0.4 else 0 for _ in range(C)])
    rng.shuffle(rows)
    return rows


NAME_SCHEMES = ("str", "revint", "shiftint", "tuple", "dup", "eqhash", "none", "empty")


def names_for(rng, scheme, C):
    if scheme == "str":
        return [chr(97 + j) for j in range(C)]
    if scheme == "revint":
        return list(range(C - 1, -1, -1))
    if scheme == "shiftint":
        return [j + 1 for j in range(C)]
    if scheme == "tuple":
        return [("c", j // 2, j % 2) for j in range(C)]
    if scheme == "dup":
        return [rng.choice("ab") if rng.random() < 0.6 else chr(99 + j) for j in range(C)]
    if scheme == "eqhash":
        pool = [True, 0.0, 2, "2", (2,), -1, 3.0, "", None]
        rng.shuffle(pool)
        return pool[:C]
    if scheme == "empty":
        return []
    return None


def named_case(rng, idx):
    R, C = rng.choice([(2, 2), (2, 3), (3, 2), (3, 3), (3, 4), (4, 3), (4, 4), (3, 5), (5, 3), (5, 4), (4, 5), (5, 5), (1, 3), (6, 3)])
    matrix = dense_matrix(rng, R, C) if rng.random() < 0.5 else planted_matrix(rng, R, C)
    scheme = NAME_SCHEMES[idx % len(NAME_SCHEMES)]
    columns = names_for(rng, scheme, C)
    names = columns if columns else list(range(C))
    u = rng.random()
    if u < 0.12:
        secondary = None
    elif u < 0.2:
        secondary = []
    else:
        secondary = [n for n in names if rng.random() < (0.3 if u < 0.8 else 0.9)]
        if u > 0.95:
            secondary = list(names)  # all-secondary column set
        if rng.random() < 0.25:
            secondary += [rng.choice(["zz", 99, ("c", 9, 9), -7])]  # a name that is no column
        if rng.random() < 0.2 and secondary:
            secondary.append(secondary[0])  # repeated entry
        rng.shuffle(secondary)
        k = rng.random()
        hashable_distinct = len({repr(s) for s in secondary}) == len(secondary)
        if k < 0.25:
            secondary = tuple(secondary)
        elif k < 0.4 and secondary and hashable_distinct and len(set(secondary)) == len(secondary):
            secondary = set(secondary)
    if columns is not None and rng.random() < 0.3:
        columns = tuple(columns)
    form = ("list", "tuple", "rowtuple", "bool")[idx // len(NAME_SCHEMES) % 4]
    if scheme in ("none", "empty") and form == "list":
        form = "tuple"  # default names + plain lists is what the exhaustive scopes use
    return (matrix, form, None if columns is None else repr(columns), None if secondary is None else repr(secondary))


def chunks(seq, n):
    return [seq[i:i + n] for i in range(0, len(seq), n)]


def plan(ctx: Ctx):
    rng = random.Random(ctx.seed)
    tasks, scopes = [], []

    def exh(R, C, level, sec="all"):
        total = 1 << (R * C)
        step = max(1, min(total, 1024 if level == "lite" else 96 if level == "mid" else 16))
        for lo in range(0, total, step):
            tasks.append({"kind": "codes", "R": R, "C": C, "lo": lo, "hi": min(total, lo + step), "level": level, "sec": sec})
        scopes.append(dict(name=f"all {R}x{C} 0/1 matrices", matrices=total, secondary_subsets=(1 << C) if sec == "all" else "none + 2 seeded subsets per matrix",
                           config_level=level, exhaustive=(sec == "all")))

    def slice_(R, C, n, level="mid"):
        codes = rng.sample(range(1 << (R * C)), n)
        for ch in chunks(codes, 50):
            tasks.append({"kind": "codes", "R": R, "C": C, "codes": ch, "level": level, "sec": "all"})
        scopes.append(dict(name=f"seeded slice of {R}x{C} 0/1 matrices (without replacement)", matrices=n,
                           secondary_subsets=1 << C, config_level=level, exhaustive=False))

    small = [(R, C) for R in range(0, 4) for C in range(0, 4)] + [(1, 4), (4, 1), (4, 2), (1, 5), (5, 1)]
    for R, C in small:
        if R == 0 and C > 0:
            continue  # a 0-row matrix has no width in the list-of-lists encoding
        exh(R, C, "full")
    exh(2, 4, "mid")
    exh(5, 2, "mid")
    if ctx.quick:
        slice_(2, 5, 300)
        slice_(3, 4, 1200)
        slice_(4, 3, 2000)
        slice_(4, 4, 2000)
        dense_shapes = [(5, 4), (4, 5), (5, 5), (6, 4), (6, 5), (7, 4), (7, 5), (8, 4), (8, 5)]
        n_dense, n_named = 20000, 7000
    else:
        for R, C in ((2, 5), (3, 4), (4, 3), (4, 4), (3, 5), (5, 3)):
            exh(R, C, "mid")
        exh(5, 4, "lite", sec="some")
        exh(4, 5, "lite", sec="some")
        dense_shapes = [(5, 5), (6, 4), (6, 5), (5, 6), (7, 4), (6, 6), (7, 5), (8, 4), (8, 5), (8, 6)]
        n_dense, n_named = 120000, 40000
    items, seen = [], set()
    for k in range(n_dense):
        R, C = dense_shapes[k % len(dense_shapes)]
        m = planted_matrix(rng, R, C) if k % 5 == 0 else dense_matrix(rng, R, C, (3, 8, 30, 36, 16, 7) if k % 2 else (1, 4, 40, 45, 10, 0))
        code = sum(v << i for i, v in enumerate(itertools.chain.from_iterable(m)))
        for mask in sec_masks(C, code, "some"):
            it = (m, "list", None, None if mask == 0 else repr([j for j in range(C) if mask >> j & 1]))
            if repr(it) not in seen:
                seen.add(repr(it))
                items.append(it)
    for ch in chunks(items, 150):
        tasks.append({"kind": "cases", "items": ch, "level": "lite"})
    scopes.append(dict(name="seeded dense/planted matrices (rows mostly with 2..C ones, several with 3+, duplicate rows)",
                       shapes=[f"{r}x{c}" for r, c in dense_shapes], matrices=n_dense, instances=len(items),
                       secondary="none + 2 seeded subsets per matrix", config_level="lite", exhaustive=False))
    named = []
    for k in range(n_named):
        it = named_case(rng, k)
        if repr(it) not in seen:
            seen.add(repr(it))
            named.append(it)
    for ch in chunks(named, 40):
        tasks.append({"kind": "cases", "items": ch, "level": "mid"})
    scopes.append(dict(name="seeded named-column / representation cases", instances=len(named), name_schemes=list(NAME_SCHEMES),
                       secondary_forms=["None", "[]", "list", "tuple", "set", "unknown names", "repeated names", "all columns"],
                       matrix_forms=["list", "tuple of tuples", "list of tuples", "bool entries"], config_level="mid", exhaustive=False))
    return tasks, scopes


class Tally(set):
    """Key set plus a tally of non-trivial cases counted in the workers. The cases are distinct by construction, so no
    key per case is kept (the thorough tier has > 10^7 of them): enumerated scopes visit each (shape, matrix code,
    secondary mask, configuration) once and the configuration list has no repeats; seeded instances are de-duplicated
    by their full text in plan(); seeded dense shapes are never shapes that the same tier enumerates; named /
    representation cases never use (default names, plain lists), which is what all other scopes use."""
    by_construction = 0

    def __len__(self):
        return set.__len__(self) + self.by_construction


def zero_row_notes(D):
    """A 0-row matrix has no width in the list-of-lists encoding; what the code does with named columns is recorded,
    not judged (whether `columns=` defines columns of an empty matrix is not settled by the property statement)."""
    how, r = call_solver(D, [], ["A"], None, (False, None, None))
    return f"solve_exact_cover([], columns=['A']) -> {observe(r) if how == 'ok' else (how, r)} (0 rows, one named primary column: recorded, not judged)"


def run(ctx: Ctx):
    use_repo()
    import solvor.dlx as D
    tasks, scopes = plan(ctx)
    # oracle self-check: the two enumerations and the single-selection checker agree on a seeded sample
    rng = random.Random(ctx.seed + 1)
    for _ in range(300):
        R, C = rng.randint(0, 5), rng.randint(1, 5)
        m = [[rng.randint(0, 1) for _ in range(C)] for _ in range(R)]
        fl = [rng.random() < 0.3 for _ in range(C)]
        if O.all_covers(m, fl) != O.all_covers_naive(m, fl):
            ctx.defects.append(f"oracle disagreement on {m} {fl}")
    results = pmap(work, tasks, chunksize=1)
    tally = Tally(ctx.nontrivial)
    ctx.nontrivial = tally
    agg = new_acc()
    n_eval = 0
    found = {}
    skipped = 0
    for t, acc in zip(tasks, results):
        n_eval += acc["n_eval"]
        tally.by_construction += acc["n_nontrivial"]
        for k in ("pairs", "pairs_feasible", "pairs_multi", "cut_by_max_iter", "link_evals", "links_skipped", "restore_evals"):
            agg[k] += acc[k]
        agg["max_covers"] = max(agg["max_covers"], acc["max_covers"])
        for ob, case, detail in acc["viol"]:
            found.setdefault(ob, []).append((case_size(case), case, detail))
        for case in acc["hangs"]:
            ctx.undecided.append({"obligation": P + "returns", "why": f"no answer within {CALL_TIMEOUT}s on {case}"})
        skipped += acc.get("skipped_task", 0)
        if acc["samples"] and len(ctx.samples) < 12 and (t["kind"] == "cases" or t.get("R", 0) >= 3):
            ctx.count(0, (), acc["samples"][:1])
    ctx.count(n_eval + agg["link_evals"] + agg["restore_evals"], ())
    if skipped:
        ctx.undecided.append({"obligation": P + "returns", "why": f"{skipped} of {len(tasks)} work packages skipped after repeated "
                              f"time-outs of the solver (worker processes stop waiting after 8 hangs)"})
    # report the smallest few failing cases of every obligation (the driver prints two per obligation and only looks
    # at the first 40 entries); the full tally per obligation goes into the evidence notes
    for ob in sorted(found):
        for _, case, detail in sorted(found[ob], key=lambda x: x[0])[:3]:
            ctx.violation(ob, case, detail)
    for s in scopes:
        ctx.scope(s.pop("name"), **s)
    ctx.exhaustive = False
    ctx.notes["c07"] = {
        "failing cases per obligation (all, before the cut to 3 reported each)": {ob: len(v) for ob, v in sorted(found.items())},
        "instances (matrix, names, secondary)": agg["pairs"], "with a cover": agg["pairs_feasible"],
        "with several covers": agg["pairs_multi"], "largest number of covers": agg["max_covers"],
        "judged calls ending MAX_ITER": agg["cut_by_max_iter"], "top-level contract evaluations": n_eval,
        "cover/uncover sequence evaluations": agg["link_evals"], "search-restores evaluations": agg["restore_evals"],
        "inner contracts": ("evaluated on solvor.dlx._build_links/_cover/_uncover" if helpers(D) else
                            "SKIPPED: solvor.dlx no longer has _build_links/_cover/_uncover under these names"),
        "inner contract instances skipped (helper shape changed)": agg["links_skipped"],
        "zero-row matrix with named columns": zero_row_notes(D),
    }
    ctx.rule = ("case = (matrix, its representation, column names, secondary, find_all, max_solutions, max_iter); every case is one "
                "evaluation of the whole top-level contract (two solver calls, frame + determinism + every ensures clause against the "
                "subset-enumeration oracle). Enumerated scopes visit every matrix of the shape x every secondary subset x the "
                "configuration list of the level (full: 7 modes x max_iter in {default,5,0,1,2,3,2^R} + the boundary N-1/N of the "
                "code's own iteration count; mid: 4 modes x {default,5} + boundary; lite: find_all, first, find_all at boundary N). "
                "Seeded scopes are de-duplicated by their full text; all cases are distinct by construction (see Tally). non-trivial = at least one primary column and at least one row "
                "with a 1 in a primary column (the search has to cover something); distinct = different case tuple. The evaluation "
                "count also includes the inner-contract evaluations (cover/uncover sequences, search-restores runs).")
    ctx.assumptions += [
        "bounded: matrices up to the listed shapes only; no claim beyond them",
        "max_iter cut-offs are recognised by status MAX_ITER; they are accepted only when max_iter < 2^rows (every Algorithm-X "
        "search node is a distinct set of pairwise disjoint rows, so a search on R rows makes at most 2^R calls)",
        "column j is secondary iff its name equals (==) an entry of `secondary`; default names are 0..C-1",
        "0-row matrices with named columns and ragged / non-0/1 matrices are outside the judged domain",
    ]
    ctx.trusted += ["oracles/exact_cover.py (subset enumeration; two implementations cross-checked each run)",
                    "checks/C07.py wellformed()/snapshot() for the inner contracts"]


# ------------------------------------------------------------------ replay
def replay(rec) -> int:
    use_repo()
    import solvor.dlx as D
    case = rec.get("case") or {}
    columns, secondary = lit(case.get("columns")), lit(case.get("secondary"))
    matrix = case["matrix"]
    if case.get("kind") == "links":
        seq = tuple(case.get("seq") or ())
        v, _ = check_links(D, matrix, columns, secondary, [seq] if rec["obligation"].endswith("exact-inverse") and seq else
                           [tuple(seq[:k]) for k in range(len(seq) + 1)])
        if v is None:
            print("replay: helpers not available under these names; nothing to replay")
            return 0
        for ob, _, detail in v:
            print("replay:", ob, "::", detail)
        if not v:
            print("replay: structure contracts hold on this case")
        return 1 if v else 0
    cfg = (case["find_all"], case["max_solutions"], case["max_iter"])
    if case.get("kind") == "restore":
        v = check_search_restores(D, matrix, columns, secondary, cfg)
        for ob, _, detail in v or []:
            print("replay:", ob, "::", detail)
        if not v:
            print("replay: structure restored")
        return 1 if v else 0
    flags = O.secondary_flags(n_cols_of(matrix), columns, secondary)
    covers = O.all_covers_naive(matrix, flags)
    bad, hang, r = judge(D, matrix, case.get("form", "list"), columns, secondary, cfg, flags, covers)
    print(f"replay: solve_exact_cover({in_form(matrix, case.get('form', 'list'))!r}, columns={columns!r}, secondary={secondary!r}, "
          f"find_all={cfg[0]}, max_solutions={cfg[1]}, max_iter={cfg[2]})")
    print("replay: result", observe(r) if r is not None else ("hang" if hang else "exception"),
          "| all covers (oracle):", sorted(sorted(c) for c in covers))
    for ob, detail in bad:
        print("replay:", ob, "::", detail)
    if not bad:
        print("replay: contract holds on this case")
    return 1 if bad or hang else 0
